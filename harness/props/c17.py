"""C17 — the access path does not change what is read.
Model: coq/Model/Access.v (`read_via caps read_evlrs steps bytes` -> result + call log, `consume_via` = the same without
the final read(), `open_via`, `read_mmap`, `mmap_set`, `mmap_set_dim`).
Correspondence: the extracted model and laspy on the same bytes: result (header fields, VLRs, EVLRs, records) for thirteen
source kinds (path, pathlib, bytes, BytesIO, buffered / unbuffered file, a real pipe, six logging doubles of which two offer
read() [+ readinto] and NOTHING else: no seekable, no seek/tell, no close) x read_evlrs {True, False, not given} x ways of
consuming the reader (nothing, chunk iterators, read_points, mixtures) observed at three moments (just opened / consumed but
not read() / everything read), laspy.read(source), and the exact sequence of stream methods called on the doubles at each
moment; memory map: result, and the file bytes after every edit by every assignment route. Files with a gap between the last
point and the first EVLR read the same through every source (one that cannot seek reads and drops the gap). A malformed stream
(truncated point blocks, cuts inside records/EVLRs/header, misplaced/over-counted EVLRs, bad signatures) is compared too.
Search (no model): every access path against the path's at the three moments; the chunks handed out are KEPT and looked at
only after the last read (and the result once more after the reader is closed); logs of non-seekable doubles and what a
read()-only source was asked for, on EVERY file, malformed ones included; files cut inside their point block must read the
same through every source; memory-map edits (whole dimension by attribute / item / record, scaled x y z, sub-fields, slices
and elements of views) against the same edit on an in-memory copy, by byte diff of the file and by a subsequent read.
* WHAT IS READ CAN BE USED ALIKE (search only: the model's records are bytes) - after everything else has been looked at, the result
  of read() / laspy.read and the first / last record handed out by read_points / a chunk iterator are EDITED: is the array writeable,
  and one dimension of every kind the format has (standard field, sub-field of a packed byte, scaled coordinate, plain / scaled /
  array-valued extra dimension; which one and by which route - attribute, item, view[:], view[k], view[a:b], the record array, an
  in-place operator on the view - by a salt that is the same for every access path), every value changed; the outcome of each edit
  and the bytes of the records afterwards are those of the same run by path (a record built over a read-only buffer, a copy that
  swallows the edit, another error).
Search only (no model: the extracted model counts bytes in unary, and the library has nothing to follow for short counts):
* EVLR TIMING ON EVERY FILE — by path (which runs every (read_evlrs, plan)), on every file, malformed ones included, the outcome with
  read_evlrs False / not given is the outcome with read_evlrs=True for the same plan (both fail, or both give the same result).
* SIZE BOUNDARIES — in every run data sets of which one part (the point block — also EXACTLY a multiple of the buffer size —; the header + VLR block fetched by the
  second prefetch read; one VLR payload; one EVLR payload; the gap between the last point and the first EVLR; the number of VLRs / EVLRs) is just over 8 KiB, 64 KiB, 1 MiB, a multiple of
  io.DEFAULT_BUFFER_SIZE, and two whose point block is a bit more than 8 MiB (16 / 32 / 64 MiB in the thorough tier), read in ONE
  call (read() alone, read_points(n), read_points(-1), one chunk) and by chunks whose bytes cross the same boundaries, through every
  source kind, laspy.read and the memory map; the records are compared with the bytes that were written (a recipe = seed + sizes
  makes the file again for the replay).
* SHORT COUNTS — the doubles again, and an unbuffered OS pipe and a socket fed in pieces, whose read(n) / readinto(buffer) give FEWER
  bytes than asked although more are left (1 byte, 7, 227, 4096, 64 KiB, half, all but one, random, every other call): legal for raw
  streams and sockets. The oracle is the same (same header / VLRs / EVLRs / records as by path at the three moments, no seek or tell on
  a source that cannot seek, nothing but read on a bare source); every failure on such a source has a kind that starts with
  "short-count-source: " (and no other kind does). They are run on the files that are valid for every source (valid, trailing bytes,
  gap, cut after whole records, size boundaries), each of which is also run through the ordinary sources. Correspondence for them: the doubles themselves against the model's short-count source (s_read_short, read_exact).
* OTHER ENTRY POINTS AND ARGUMENT TYPES — on every file (and every size-boundary data set) the same (read_evlrs, plan) as by path
  through laspy.LasReader(stream, ..) instead of laspy.open, through laspy.open(source, "r", ..), and with the counts of read_points /
  chunk_iterator given as numpy integers (int64, intp) and read_evlrs as a numpy bool; the kind of every failure starts with the name
  of the variant ("numpy integer arguments (int64): ...").
* SOURCES WRITTEN IN PYTHON - the stream protocol does not say WHAT buffer readinto is handed: a readinto written in Python (a wrapper
  around a socket / an HTTP body / another stream) fills it by slice assignment of bytes, through a memoryview (cast to bytes or not),
  piece by piece, element by element, and returns the count; its read() may return a bytearray. All of these work on what io's own
  classes hand over (bytearray / memoryview of bytes). On every file and size-boundary data set such doubles (with readinto: seekable,
  not seekable, bare; read() only: the three others) are read whole, by chunks / read_points and by laspy.read; same oracle as every
  source; the kind of every failure names the spelling ("... whose readinto is written in Python (b[:n] = data) ...").
Both passes:
* KNOWN RECORD TYPES IN THE OTHER LIST — in every run files (class "relocated") in which a record of a type laspy has a class for sits
  where it is not usually found: the Extra Bytes record (LASF_Spec / 4) that describes the extra bytes of the points stored as an
  EVLR instead of a VLR (alone; describing another number of bytes; next to one among the VLRs), two of them adjacent among the VLRs,
  the classification lookup / WKT / WKT math transform / GeoTIFF (3) / waveform descriptor / laszip records as EVLRs, as VLRs, in both
  lists, twice in a row; with 0, 1-3, 7 points; and in EVERY run one record of EVERY known type (the laszip record of an UNCOMPRESSED file
  among them) among the VLRs - LAS 1.4 and an older version - and among the EVLRs, each in a file with NO point and in a file with
  points (the VLRs the path shows are compared with the records that were stored, not only counted). Every access path must make the same of them, and what is compared includes the POINT
  FORMAT written down completely (`format_desc`: id, size, per dimension name / kind / bits / elements / standard or not / description /
  scales / offsets, the numpy dtype with field offsets) of the header at the three moments, of the result's records and of every chunk
  handed out. Correspondence: the model reads them as records like any other, and the point format the implementation shows must be the
  one that follows from what the MODEL read - format id, record size, first Extra Bytes record among the VLRs (`expected_format`:
  Model/Access.v format_of) - never from the EVLRs or the source."""
import io
import math
import os
import pathlib
import random
import shutil
import socket
import tempfile
import threading
import zlib
from concurrent.futures import ThreadPoolExecutor

import numpy as np

from harness import common, lasio

DRIVER = "c17"
ASSUMPTIONS = [
    "uncompressed point data (no LAZ backend is installed; compressed sources are outside the model)",
    "the theorems about read_via / consume_via / open_via speak of sources whose read(n) / readinto give the n bytes when they exist "
    "(short counts only at the end of the data: files, BytesIO, buffered pipes, the plain doubles; C17_full_count_call). Sources that "
    "give SHORT counts (raw streams, sockets, unbuffered pipes) are run by the failing-input search only — the library makes one call "
    "per read site, there is no loop to model — and C17_short_counts_partial proves at the level of one read site that asking again "
    "until the bytes are there gives what the model's one call gives",
    "data sets of more than 1 MiB (size boundaries) are judged by the failing-input search only: the extracted model counts bytes in "
    "unary; the theorems hold for every size",
    "the counts given to read_points / chunk_iterator are integers (the model's Z, Python's int); the same counts given as numpy int64 / intp, "
    "laspy.LasReader(stream) instead of laspy.open, and laspy.open(source, 'r') are run by the failing-input search only; numpy integers "
    "narrower than the products the library computes (n * point size) are outside the property",
    "a source that offers only read() (no seekable method, no close) is opened with closefd=False; it is used like a source whose "
    "seekable() answers False (C17_bare_source_like_nonseekable) and must read every file exactly as by path",
    "the memory map is written back by mmap.close() (OS write-back of a shared mapping is not modelled)",
    "independence is proved for files whose points are all present and, for non-seekable sources, whose first EVLR starts at or after the "
    "end of the points (evlrs_after_points: a gap is read and dropped; C17_written_files_are_laid_out: every file the writer model produces "
    "has none), and for files cut inside their point block after a whole number of records (C17_truncated_point_block); other files (EVLRs "
    "announced before the end of the points, ...) are only compared model vs implementation, plus the call-log theorems which hold for "
    "every byte string",
    "the point format: the model's format_of is (format id, record size, descriptors of the first Extra Bytes record among the VLRs); how "
    "laspy turns the descriptors into dimensions is laspy's own code (expected_format applies it to what the model read)",
    "sources whose read / readinto are written in Python (what they do with the buffer they are handed) are run by the failing-input "
    "search only; the model's source is a byte string and a position, and the translator checks the shape of the buffer handed to "
    "readinto (a bytearray of n * size bytes) when it regenerates point_readers",
    "what is read can be used alike: judged by the failing-input search only (the model's records are byte strings), relative to the same "
    "run by path - a record that is read-only (or not editable in some way) through EVERY access path is not a difference between access "
    "paths; the memory map is not part of that comparison (its edits are the memory-map obligations)",
    "memory-map edits: values with as many elements as the map has records (a longer value makes the record grow into a private copy, which "
    "no file can follow); the expected bytes of scaled assignments are those the same assignment gives on an in-memory copy of the file",
]

# (label, seekable() answers, has readinto, has a seekable method (and close) at all)
DOUBLES = [("double_read_only", False, False, True), ("double_nonseekable_readinto", False, True, True),
           ("double_no_readinto", True, False, True), ("double_full", True, True, True),
           ("double_bare", False, False, False), ("double_bare_readinto", False, True, False)]
REAL = ["path", "pathlib", "bytes", "BytesIO", "buffered_file", "unbuffered_file"]
PIPE = "pipe"       # a real non-seekable stream: seekable() is False, tell()/seek() raise, it has readinto
CREATED = ("path", "pathlib", "bytes")      # sources for which laspy makes the stream itself
RAW = ("raw_pipe", "raw_socket")            # real raw streams (not seekable, readinto): short counts whenever the OS has less than asked


class Double:
    """A stream double over a byte string. It has read; seekable and close unless it is `bare` (a stream that offers
    only read(): it is then opened with closefd=False); readinto and seek/tell only when the capability is given.
    Every method called is logged, and so is every other attribute the library asks for."""

    def __init__(self, raw, seekable, readinto, has_seekable=True):
        self._b = io.BytesIO(raw)
        self._sk = seekable and has_seekable
        self._ri = readinto
        self._hs = has_seekable
        self.log = []
        self.asked = []

    def read(self, n=-1):
        self.log.append("r%d" % n)
        return self._b.read(n)

    def _seekable(self):
        self.log.append("k")
        return self._sk

    def _close(self):
        pass

    def _readinto(self, buf):
        self.log.append("i%d" % len(buf))
        return self._b.readinto(buf)

    def _seek(self, pos, whence=0):
        self.log.append("s%d" % pos if whence == 0 else "s%d/%d" % (pos, whence))
        return self._b.seek(pos, whence)

    def _tell(self):
        self.log.append("t")
        return self._b.tell()

    def __getattr__(self, name):
        if name == "seekable" and self._hs:
            return self._seekable
        if name == "close" and self._hs:
            return self._close
        if name == "readinto" and self._ri:
            return self._readinto
        if name == "seek" and self._sk:
            return self._seek
        if name == "tell" and self._sk:
            return self._tell
        if not name.startswith("__"):
            self.asked.append(name)
        raise AttributeError(name)


# how many bytes ONE call of a short-count source gives when n (>= 1) are asked and available: between 1 and n
SHORT_POLICIES = ["one", "k7", "k227", "k4096", "k65536", "half", "less1", "rand", "alt"]
SHORT_BIG = ["k65536", "k1048576", "half", "k4096", "k8388608"]      # for data sets of several MiB: a bounded number of calls


def short_cap(policy, rnd, n, calls):
    if policy == "one":
        return 1
    if policy[0] == "k":
        return min(n, int(policy[1:]))
    if policy == "half":
        return max(1, n // 2)
    if policy == "less1":
        return max(1, n - 1)
    if policy == "rand":
        return rnd.randrange(1, n + 1)
    if policy == "alt":         # every other call is complete
        return n if calls % 2 else max(1, n // 3)
    raise ValueError(policy)


class ShortDouble(Double):
    """the same double whose read(n) / readinto(buffer) return SHORT counts: at least one byte when one is left, but fewer
    than asked although more are available (what a raw stream, a socket, an unbuffered pipe may do); the number is given by
    the policy (and a seed). read(-1) gives everything, as RawIOBase.readall does"""

    def __init__(self, raw, seekable, readinto, has_seekable, policy, seed):
        Double.__init__(self, raw, seekable, readinto, has_seekable)
        self._policy = policy
        self._rnd = random.Random(seed)
        self._calls = 0
        self.caps_used = []
        self.short = 0      # calls that gave fewer bytes than asked although more were left

    def _cap(self, n):
        self._calls += 1
        c = short_cap(self._policy, self._rnd, n, self._calls)
        if len(self.caps_used) < 4096:
            self.caps_used.append(c)
        left = len(self._b.getbuffer()) - self._b.tell()
        if c < min(n, left):
            self.short += 1
        return c

    def read(self, n=-1):
        self.log.append("r%d" % (-1 if n is None else n))
        if n is None or n < 0:
            return self._b.read()
        if n == 0:
            return b""
        return self._b.read(self._cap(n))

    def _readinto(self, buf):
        mv = memoryview(buf).cast("B")
        self.log.append("i%d" % len(mv))
        if len(mv) == 0:
            return 0
        return self._b.readinto(mv[:self._cap(len(mv))])


# how a readinto WRITTEN IN PYTHON puts the bytes into the buffer it is handed (a wrapper around a socket / an HTTP body / another
# stream: `data = inner.read(len(b))`, then one of these, then `return n`). Each works on the bytearray / memoryview that io's own
# classes hand to readinto; "index" is only run on small data sets
PY_SPELLINGS = {"slice": "b[:n] = data", "whole": "b[:] = data (b[:n] = data at the end)", "mv": "memoryview(b)[:n] = data",
                "mvcast": 'memoryview(b).cast("B")[:n] = data', "pieces": "b[p:p + len(piece)] = piece, in a loop over pieces of 4096 bytes",
                "index": "for i, x in enumerate(data): b[i] = x", "frombuf": "b[:n] = bytearray(data)"}
PY_FAST = [k for k in PY_SPELLINGS if k != "index"]
PY_READS = {"bytes": bytes, "bytearray": bytearray}       # what read(n) of such a wrapper returns
PY_BASES = ["double_nonseekable_readinto", "double_full", "double_bare_readinto"]        # the doubles that have readinto
PY_READ_BASES = ["double_read_only", "double_no_readinto", "double_bare"]               # read() only


class PyDouble(Double):
    """the same double whose readinto is written in Python, the usual way: it asks an inner stream for len(b) bytes, stores them
    in the buffer by `spelling`, returns how many there were; read(n) returns bytes or a bytearray. Logs like Double."""

    def __init__(self, raw, seekable, readinto, has_seekable, spelling, rtype="bytes"):
        Double.__init__(self, raw, seekable, readinto, has_seekable)
        self._sp = spelling
        self._rt = PY_READS[rtype]

    def read(self, n=-1):
        self.log.append("r%d" % (-1 if n is None else n))
        return self._rt(self._b.read(n))

    def _readinto(self, b):
        self.log.append("i%d" % len(b))
        sp = self._sp
        if sp == "mvcast":
            m = memoryview(b).cast("B")
            data = self._b.read(len(m))
            m[:len(data)] = data
            return len(data)
        if sp == "pieces":
            p = 0
            while p < len(b):
                piece = self._b.read(min(4096, len(b) - p))
                if not piece:
                    break
                b[p:p + len(piece)] = piece
                p += len(piece)
            return p
        data = self._b.read(len(b))
        n = len(data)
        if sp == "slice":
            b[:n] = data
        elif sp == "whole":
            if n == len(b):
                b[:] = data
            else:
                b[:n] = data
        elif sp == "mv":
            memoryview(b)[:n] = data
        elif sp == "index":
            for i, x in enumerate(data):
                b[i] = x
        elif sp == "frombuf":
            b[:n] = bytearray(data)
        else:
            raise ValueError(sp)
        return n


def py_kind(spelling, rtype, base):
    return f"py/{spelling}/{rtype}/{base}"


def is_py(kind):
    if kind.startswith("alt/"):
        kind = kind.split("/", 2)[2]
    return kind.startswith("py/")


def py_text(kind):
    """what the source is, for the kind of a failing input"""
    k = kind[kind.index("py/"):].split("/")
    if base_kind(kind) in PY_BASES:
        t = f" whose readinto is written in Python ({PY_SPELLINGS[k[1]]})"
    else:
        t = " written in Python"
    return t + ("" if k[2] == "bytes" else f", read() returns a {k[2]}")


# the stable prefix of the kind of every failing input whose source returns short counts (one open finding of /repo: the library
# makes one call per read site); no other kind starts with it
SHORT_PREFIX = "short-count-source: "


def short_kind(policy, seed, base):
    return f"short/{policy}/{seed}/{base}"


def base_kind(kind):
    return kind.rsplit("/", 1)[-1]


def is_short(kind):
    return kind.startswith("short/") or kind in RAW


class RawFed:
    """the read end of an UNBUFFERED OS pipe / of a socket (a raw stream: one call gives what the OS has at that moment, which
    may be less than asked), filled in pieces by a writer thread that closes its end"""

    def __init__(self, raw, how, seed):
        rnd = random.Random(seed)
        if how == "raw_pipe":
            r, w = os.pipe()
            self.f = os.fdopen(r, "rb", buffering=0)
            wf = os.fdopen(w, "wb", buffering=0)
            send, done = wf.write, wf.close
        else:
            a, b = socket.socketpair()
            self.f = a.makefile("rb", buffering=0)
            self._a = a

            def send(piece):
                b.sendall(piece)

            def done():
                b.close()

        def feed():
            try:
                p = 0
                while p < len(raw):
                    k = rnd.choice([1, 100, 227, 4096, 70000, rnd.randrange(1, 200000)])
                    send(raw[p:p + k])
                    p += k
            except (BrokenPipeError, ConnectionError, OSError, ValueError):
                pass
            finally:
                try:
                    done()
                except Exception:  # noqa
                    pass
        self.t = threading.Thread(target=feed, daemon=True)
        self.t.start()

    def close(self):
        try:
            self.f.close()
        except Exception:  # noqa
            pass
        if hasattr(self, "_a"):
            try:
                self._a.close()
            except Exception:  # noqa
                pass
        self.t.join(timeout=5)


class Pipe:
    """the read end of an OS pipe that a writer thread fills with `raw` and closes"""

    def __init__(self, raw):
        r, w = os.pipe()
        self.f = os.fdopen(r, "rb")

        def feed():
            try:
                with os.fdopen(w, "wb") as wf:
                    wf.write(raw)
            except (BrokenPipeError, OSError):
                pass
        self.t = threading.Thread(target=feed, daemon=True)
        self.t.start()

    def close(self):
        try:
            self.f.close()
        except Exception:  # noqa
            pass
        self.t.join(timeout=5)


# ---------------------------------------------------------------------------------
# observations
# ---------------------------------------------------------------------------------
HDR_KEYS = ["file_source_id", "global_encoding", "uuid", "version.major", "version.minor", "system_identifier",
            "generating_software", "offset_to_point_data", "point_size", "point_count", "start_of_waveform",
            "start_of_first_evlr", "number_of_evlrs", "extra_header_bytes", "extra_vlr_bytes"] + lasio.BY_RET + \
           [f"{nm}[{i}]" for nm in ("scales", "offsets", "maxs", "mins") for i in range(3)]


def hx(b):
    return bytes(b).hex()


_FORMATS = {}


def format_desc(pf, dtype=None):
    """a point format as the caller sees it, written down completely: id, record size, and per dimension (standard ones and
    extra ones alike) name, kind, bits, elements, whether it is a standard one, its description, scales / offsets as bit
    patterns; then the numpy dtype of the record (field names, types, byte offsets, item size) - the one given (the array of
    a record), else the one the format makes. (The text is built once per distinct list of dimensions and dtype.)"""
    dims_ = tuple((d.name, d.kind.name, d.num_bits, d.num_elements, d.is_standard, d.description,
                   None if d.scales is None else np.asarray(d.scales, dtype=np.float64).tobytes(),
                   None if d.offsets is None else np.asarray(d.offsets, dtype=np.float64).tobytes()) for d in pf.dimensions)
    key = (pf.id, dims_, dtype)
    got = _FORMATS.get(key)
    if got is None:
        dt = pf.dtype() if dtype is None else dtype
        fields = [[nm, str(dt.fields[nm][0]), int(dt.fields[nm][1])] for nm in (dt.names or ())]
        shown = [[nm, kind, int(nb), int(ne), bool(st), str(ds), None if sc is None else sc.hex(), None if of is None else of.hex()]
                 for (nm, kind, nb, ne, st, ds, sc, of) in dims_]
        got = _FORMATS[key] = repr([int(pf.id), int(pf.size), int(pf.num_extra_bytes), list(pf.dimension_names), shown, fields, int(dt.itemsize)])
    return got


def snapshot_header(h):
    """the header part of a snapshot (also what a reader shows before anything is read)"""
    d = lasio.header_assoc(h)
    hd = {k: (hx(d[k]) if isinstance(d[k], (bytes, bytearray)) else int(d[k])) for k in HDR_KEYS}
    if h.version.minor < 4:
        hd["start_of_first_evlr"] = hd["number_of_evlrs"] = 0
    if h.version.minor < 3:
        hd["start_of_waveform"] = 0
    return {"header": hd, "format": repr(lasio.format_key(h.point_format)), "fmt_id": h.point_format.id,
            "format_full": format_desc(h.point_format),
            "vlr_types": [type(v).__name__ for v in h.vlrs], "evlr_types": None if h.evlrs is None else [type(v).__name__ for v in h.evlrs],
            "vlrs": [[hx(u), r, hx(dd), hx(p)] for (u, r, dd, p) in map(lasio.vlr_tuple, h.vlrs)],
            "evlrs": None if h.evlrs is None else [[hx(u), r, hx(dd), hx(p)] for (u, r, dd, p) in map(lasio.vlr_tuple, h.evlrs)]}


def snapshot(las, extra_points=b"", enc=hx):
    """everything the property compares, JSON-able; enc: how the bytes of the records are written down (hex, or — for the
    data sets of several MiB — what they are relative to the records that were written, see `truth_enc`)"""
    h = las.header
    out = snapshot_header(h)
    pts = extra_points + lasio.rec_bytes(las.points)
    out.update({
            "vlrs": [[hx(u), r, hx(dd), hx(p)] for (u, r, dd, p) in map(lasio.vlr_tuple, las.vlrs)],
            "evlrs": None if las.evlrs is None else [[hx(u), r, hx(dd), hx(p)] for (u, r, dd, p) in map(lasio.vlr_tuple, las.evlrs)],
            "vlr_types": [type(v).__name__ for v in las.vlrs], "evlr_types": None if las.evlrs is None else [type(v).__name__ for v in las.evlrs],
            "points": enc(pts), "count": len(pts) // max(1, h.point_format.size),
            "record_format": format_desc(las.points.point_format, las.points.array.dtype),
            "pscales": [lasio.f64bits(x) for x in getattr(las.points, "scales", [])] + [lasio.f64bits(x) for x in getattr(las.points, "offsets", [])]})
    return out


# numpy integers as wide as the library's own arithmetic needs (a narrower one overflowing inside the library is not a matter of
# access paths: not judged here)
ALT_NP = {"np64": np.int64, "npintp": np.intp}
ALT_VARIANTS = ["ctor", "mode"] + sorted(ALT_NP)
STREAM_KINDS = ["BytesIO", "buffered_file", "unbuffered_file", PIPE] + [d[0] for d in DOUBLES]


def alt_kind(variant, base):
    """the same source used through another entry point or with other argument types: `ctor` laspy.LasReader(stream, ..) instead
    of laspy.open; `mode` laspy.open(source, "r", ..) with the mode given; `np..` the counts given to read_points / chunk_iterator
    as numpy integers of that type (when the value fits) and read_evlrs as a numpy bool"""
    return f"alt/{variant}/{base}"


def variant_of(kind):
    return kind.split("/")[1] if kind.startswith("alt/") else ""


def alt_text(variant):
    if variant == "ctor":
        return "laspy.LasReader(stream)"
    if variant == "mode":
        return 'laspy.open(source, "r")'
    return f"numpy integer arguments ({ALT_NP[variant].__name__})"


def make_source(kind, raw, path):
    """returns (source object, double or None, closer)"""
    if kind.startswith("alt/"):
        kind = kind.split("/", 2)[2]
    if kind == "path":
        return path, None, None
    if kind == "pathlib":
        return pathlib.Path(path), None, None
    if kind == "bytes":
        return raw, None, None
    if kind == "BytesIO":
        return io.BytesIO(raw), None, None
    if kind == "buffered_file":
        f = open(path, "rb")
        return f, None, f
    if kind == "unbuffered_file":
        f = open(path, "rb", buffering=0)
        return f, None, f
    if kind == PIPE:
        p = Pipe(raw)
        return p.f, None, p
    if kind.startswith("short/"):
        _, policy, seed, base = kind.split("/")
        if base in RAW:
            p = RawFed(raw, base, int(seed))
            return p.f, None, p
        for lab, sk, ri, hs in DOUBLES:
            if lab == base:
                d = ShortDouble(raw, sk, ri, hs, policy, int(seed))
                return d, d, None
    if kind.startswith("py/"):
        _, spelling, rtype, base = kind.split("/")
        for lab, sk, ri, hs in DOUBLES:
            if lab == base:
                d = PyDouble(raw, sk, ri, hs, spelling, rtype)
                return d, d, None
    for lab, sk, ri, hs in DOUBLES:
        if lab == kind:
            d = Double(raw, sk, ri, hs)
            return d, d, None
    raise ValueError(kind)


def plan_tok(plan):
    return ",".join(f"{t}{v}" for t, v in plan) if plan else "-"


def truth_enc(truth):
    """records written down relative to the records `truth` that were put in the file: the first so many bytes of them, or
    where the first difference is (equal byte strings give equal descriptions, different ones different descriptions)"""
    def enc(b):
        b = bytes(b)
        if truth.startswith(b):
            return f"the first {len(b)} bytes of the records written"
        m = min(len(b), len(truth))
        d = np.nonzero(np.frombuffer(b, np.uint8, m) != np.frombuffer(truth, np.uint8, m))[0]
        k = int(d[0]) if len(d) else m
        return f"{len(b)} bytes, as written up to byte {k}, crc {zlib.crc32(b):08x}"
    return enc


# ---------------------------------------------------------------------------------
# what is read must be USABLE alike through every access path: the caller edits it
# ---------------------------------------------------------------------------------
EDIT_ROUTES = ["attr", "item", "view[:]", "view[k]", "view[a:b]", "array", "iop"]
# how many kinds of dimension are edited (in turn, by `salt`) in the result of read() / in a record handed out; None = all of them
# (set by observe in the thorough tier). In the quick tier the first and - when there are several - the LAST record handed out
# are looked at in alternation
EDIT_KINDS_PER_RESULT = 3
EDIT_KINDS_PER_CHUNK = 2


_DIM_CLASSES = {}


def dim_classes(pf):
    """the dimension names of a point format by KIND of dimension: plain standard field, sub-field of a packed byte, scaled
    coordinate, extra dimension (plain, scaled, array valued); sorted by kind, kinds the format does not have left out"""
    key = (pf.id, tuple((d.name, d.num_elements, d.scales is None, d.offsets is None) for d in pf.extra_dimensions))
    if key not in _DIM_CLASSES:
        _DIM_CLASSES[key] = [(c, n) for c, n in sorted(_dim_classes(pf).items()) if n]
    return _DIM_CLASSES[key]


def _dim_classes(pf):
    from laspy.point import dims
    subs = [s.name for subs_ in dims.COMPOSED_FIELDS[pf.id].values() for s in subs_]
    names = list(pf.dimension_names)
    out = {"sub-field": [n for n in names if n in subs], "scaled coordinate": ["x", "y", "z"]}
    out["standard field"] = [d.name for d in pf.dimensions if d.is_standard and d.name not in subs]
    ex = list(pf.extra_dimensions)
    out["extra dimension"] = [d.name for d in ex if d.num_elements == 1 and d.scales is None and d.offsets is None]
    out["scaled extra dimension"] = [d.name for d in ex if d.scales is not None or d.offsets is not None]
    out["array-valued extra dimension"] = [d.name for d in ex if d.num_elements > 1 and d.scales is None and d.offsets is None]
    return out


def edit_one(obj, name, route, salt):
    """one edit of dimension `name` of a LasData / point record by one route: every value is changed (integers: lowest bit
    flipped; floats and scaled values: the order of the records reversed)"""
    cur = np.array(obj[name] if name not in ("x", "y", "z") else getattr(obj, name))
    n = len(cur)
    new = cur ^ 1 if cur.dtype.kind in "iu" else cur[::-1].copy()
    rec = getattr(obj, "points", obj)
    if route == "array" and name not in (rec.array.dtype.names or ()):
        route = "item"
    if route in ("view[k]", "view[a:b]") and n == 0:
        route = "view[:]"
    if route == "attr":
        setattr(obj, name, new)
    elif route == "item":
        obj[name] = new
    elif route == "view[:]":
        (obj[name] if name not in ("x", "y", "z") else getattr(obj, name))[:] = new
    elif route == "view[k]":
        k = salt % n
        (obj[name] if name not in ("x", "y", "z") else getattr(obj, name))[k] = new[k]
    elif route == "view[a:b]":
        b = (n + 1) // 2
        (obj[name] if name not in ("x", "y", "z") else getattr(obj, name))[0:b] = new[0:b]
    elif route == "array":
        rec.array[name] = new
    elif route == "iop":
        v = obj[name] if name not in ("x", "y", "z") else getattr(obj, name)
        v += 1
    else:
        raise ValueError(route)
    return route


def usability(obj, salt, kinds=None):
    """what a caller can DO with what was read (a LasData, or a point record handed out by read_points / a chunk iterator):
    whether its array may be written to, and - one dimension of every kind the format has (kinds = k: of k of them, in turn),
    each by one of the assignment routes (which ones: by `salt`, the same for every access path) - the outcome of each edit and
    the bytes of the records afterwards.
    [writeable, [[kind of dimension, name, route, outcome] ..], length and crc of the records after the edits]"""
    rec = getattr(obj, "points", obj)
    done = []
    classes = dim_classes(rec.point_format)
    if kinds is not None and kinds < len(classes):
        classes = [classes[(salt + i) % len(classes)] for i in range(kinds)]
    with np.errstate(all="ignore"):
        for j, (cls, names) in enumerate(classes):
            name = names[(salt + j) % len(names)]
            route = EDIT_ROUTES[(salt // 7 + j) % len(EDIT_ROUTES)]
            try:
                route = edit_one(obj, name, route, salt)
                res = "ok"
            except Exception as ex:  # noqa
                res = common.exc_kind(ex) + ": " + str(ex)[:60]
            done.append([cls, name, route, res])
    rec = getattr(obj, "points", obj)
    b = lasio.rec_bytes(rec)
    return [bool(rec.array.flags.writeable), done, f"{len(b)} bytes, crc {zlib.crc32(b):08x}"]


def usable_diff(a, b):
    """the first difference between two `usability` observations (a: by path), or None"""
    for key, what in (("result", "the result of read()"), ("first", "the first record handed out"), ("last", "the last record handed out")):
        x, y = a.get(key), b.get(key)
        if x == y:
            continue
        if x is None or y is None:
            return f"{what}: {'not there' if y is None else 'there'} here, {'not there' if x is None else 'there'} by path"
        if x[0] != y[0]:
            return f"{what}: its array has flags.writeable {y[0]} here, {x[0]} by path"
        for ea, eb in zip(x[1], y[1]):
            if ea != eb:
                return f"{what}: editing the {eb[0]} `{eb[1]}` by {eb[2]}: {eb[3]} here, {ea[3]} by path"
        return f"{what}: after the same edits the records are {y[2]} here, {x[2]} by path"
    return None


def read_through(kind, raw, path, read_evlrs, plan, route="open", enc=hx):
    """route "open": laspy.open(source[, read_evlrs=..]) (read_evlrs None: not given), then the consumption plan (("c", k):
    `for chunk in reader.chunk_iterator(k)`, ("p", n): reader.read_points(n)), then read(). Three moments are observed:
    `opened` (the header right after open), `consumed` (the header the reader shows and the records handed out, before
    read()), `ok` (everything read). The records handed out are kept as the caller got them and turned into bytes only after
    read() (`ok`), next to the bytes each had when it was handed out (`now`); the records of the result are looked at again
    after the reader is closed (`late`). route "read": laspy.read(source).
    returns {"opened", "consumed", "ok"} or {"err": kind}, plus the double's log at the three moments"""
    import laspy
    src, dbl, closer = make_source(kind, raw, path)
    out = {}
    las = None
    variant = variant_of(kind)
    npt = ALT_NP.get(variant)
    salt = zlib.crc32(raw[:4096]) % 100003 + 13 * len(plan)        # which dimensions are edited and how: the same for every access path

    def num(v):
        # the count as the caller's numpy integer, when it is one the type holds
        if npt is None or not (np.iinfo(npt).min <= v <= np.iinfo(npt).max):
            return v
        return npt(v)
    try:
        kw = {} if has_close(kind) else {"closefd": False}
        if route == "read":
            las = laspy.read(src, **kw)
            out["ok"] = snapshot(las, enc=enc)
            out["usable"] = {"result": usability(las, salt, kinds=EDIT_KINDS_PER_RESULT)}
        else:
            if read_evlrs is not None:
                kw["read_evlrs"] = read_evlrs if npt is None else np.bool_(read_evlrs)
            plan = [(t, num(v)) for (t, v) in plan]
            if variant == "ctor":
                opened = laspy.LasReader(src, **kw)
            elif variant == "mode":
                opened = laspy.open(src, "r", **kw)
            else:
                opened = laspy.open(src, **kw)
            with opened as rd:
                out["opened"] = snapshot_header(rd.header)
                if dbl is not None:
                    out["log_open"] = list(dbl.log)
                kept, now = [], []
                for (t, v) in plan:
                    if t == "c":
                        for pts in rd.chunk_iterator(v):
                            kept.append(pts)
                            now.append(lasio.rec_bytes(pts))
                    else:
                        pts = rd.read_points(v)
                        kept.append(pts)
                        now.append(lasio.rec_bytes(pts))
                cons = snapshot_header(rd.header)
                cons["evlrs_attr"] = None if rd.evlrs is None else len(rd.evlrs)
                cons["points"] = enc(b"".join(now))
                cons["chunk_formats"] = sorted({format_desc(p.point_format, p.array.dtype) for p in kept})
                cons["count"] = len(b"".join(now)) // max(1, rd.header.point_format.size)
                out["consumed"] = cons
                if dbl is not None:
                    out["log_consumed"] = list(dbl.log)
                las = rd.read()
                pre = b"".join(lasio.rec_bytes(p) for p in kept)
                out["ok"] = snapshot(las, pre, enc=enc)
                if kept:
                    out["now"] = enc(b"".join(now) + lasio.rec_bytes(las.points))
                    out["chunks"] = [len(x) for x in now]
            out["late"] = enc(pre + lasio.rec_bytes(las.points))
            # last of all (it changes what was read): what the caller can do with the result and with the records handed out
            out["usable"] = {"result": usability(las, salt, kinds=EDIT_KINDS_PER_RESULT)}
            if kept:
                both = EDIT_KINDS_PER_CHUNK is None or len(kept) == 1
                if both or salt % 2 == 0:
                    out["usable"]["first"] = usability(kept[0], salt + 1, kinds=EDIT_KINDS_PER_CHUNK)
                if len(kept) > 1 and (both or salt % 2 == 1):
                    out["usable"]["last"] = usability(kept[-1], salt + 2, kinds=EDIT_KINDS_PER_CHUNK)
    except Exception as ex:  # noqa
        out.pop("ok", None)
        out.pop("usable", None)
        out["err"] = common.exc_kind(ex)
        out["msg"] = f"{type(ex).__name__}: {ex}"[:200]
    finally:
        if closer is not None:
            closer.close()
    if dbl is not None:
        out["log"] = list(dbl.log)
        out["asked"] = list(dbl.asked)
        if hasattr(dbl, "short"):
            out["short_calls"] = dbl.short
    return out


def read_mmap(path, enc=hx):
    import laspy
    try:
        with laspy.mmap(path) as m:
            return {"ok": snapshot(m, enc=enc)}
    except Exception as ex:  # noqa
        return {"err": common.exc_kind(ex), "msg": f"{type(ex).__name__}: {ex}"[:200]}


# ---------------------------------------------------------------------------------
# files
# ---------------------------------------------------------------------------------
def patch_u(raw, pos, width, value):
    return raw[:pos] + int(value).to_bytes(width, "little") + raw[pos + width:]


def evaluable(raw):
    """False when reading `raw` asks a stream for 2^20 bytes or more at once (an EVLR length read from garbage): the
    extracted model counts bytes in unary and cannot follow; such candidates are not generated"""
    import laspy
    if len(raw) >= 247 and raw[25] >= 4:
        # the seek-based chain, whatever the user ids are (the model decodes a record header whole)
        p, k = int.from_bytes(raw[235:243], "little"), int.from_bytes(raw[243:247], "little")
        if p >= 1 << 20:
            return False
        while k > 0 and p < len(raw):
            ln = int.from_bytes(raw[p + 20:p + 28], "little")
            if ln >= 1 << 20:
                return False
            p, k = p + 60 + ln, k - 1
    for sk in (True, False):
        d = Double(raw, sk, False)
        try:
            with laspy.open(d, read_evlrs=True) as rd:
                rd.read()
        except Exception:  # noqa
            pass
        if any(t[0] in "ris" and abs(int(t[1:].split("/")[0])) >= 1 << 20 for t in d.log):
            return False
    return True


def make_files(ctx):
    """valid files: every (version, format) x point counts x +-EVLRs (+ extra dimensions, + trailing bytes); the same with a
    GAP between the last point and the first EVLR; the same CUT inside the point block after a whole number of records
    (with and without announced EVLRs); then a malformed stream."""
    import laspy
    rng = ctx.rng
    files = []
    pairs = [(v, f) for v in lasio.VERSIONS for f in lasio.COMPAT[v]]
    counts_all = [0, 1, 2, 7] if not ctx.thorough() else [0, 1, 2, 3, 7, 33]
    for (version, fmt) in pairs:
        counts = counts_all if ctx.thorough() else [0, rng.choice([1, 2]), rng.choice([2, 7])]
        for n in counts:
            evl_opts = [0]
            if version == "1.4":
                evl_opts = [0, rng.choice([1, 2, 3])] if not ctx.thorough() else [0, 1, 3]
            for nev in evl_opts:
                h = lasio.rand_header(rng, version=version, fmt=fmt, nvlrs=rng.choice([0, 1, 2]))
                if rng.random() < 0.25:
                    lasio.add_extra_dims(rng, h, k=rng.choice([1, 2]))
                pts = lasio.rand_points(rng, h, n)
                evl = laspy.vlrs.vlrlist.VLRList([lasio.rand_vlr(rng, max_payload=rng.choice([0, 5, 120])) for _ in range(nev)])
                raw = lasio.write_las(h, pts, evl)
                ps = h.point_format.size
                off = int.from_bytes(raw[96:100], "little")
                base = {"version": version, "fmt": fmt, "n": n, "nev": nev, "ps": ps, "off": off,
                        "extra_dims": len(list(h.point_format.extra_dimensions)),
                        "truth": {"points": hx(lasio.rec_bytes(pts)), "vlrs": len(h.vlrs),
                                  "evlrs": None if version != "1.4" else [[hx(u), r, hx(dd), hx(p)] for (u, r, dd, p) in map(lasio.vlr_tuple, evl)]}}
                files.append(dict(base, cls="valid", raw=raw, label=f"{version}/fmt{fmt}/n{n}/evlrs{nev}/valid"))
                if rng.random() < 0.3:
                    files.append(dict(base, cls="trailing", raw=raw + bytes(rng.randrange(256) for _ in range(rng.choice([1, 7, ps]))),
                                      label=f"{version}/fmt{fmt}/n{n}/evlrs{nev}/trailing"))
                if nev:
                    g = rng.choice([1, 2, ps, 61])
                    start = off + n * ps
                    gap = raw[:start] + bytes(rng.randrange(256) for _ in range(g)) + raw[start:]
                    gap = patch_u(gap, 235, 8, start + g)
                    if evaluable(gap):
                        files.append(dict(base, cls="gap", raw=gap, label=f"{version}/fmt{fmt}/n{n}/evlrs{nev}/gap{g}"))
                if n and rng.random() < (0.5 if not ctx.thorough() else 1.0):
                    # an interrupted copy: fewer whole records than the header announces, nothing after them
                    k = rng.choice([0, n - 1, rng.randrange(0, n)])
                    cut = raw[:off + k * ps]
                    if evaluable(cut):
                        files.append(dict(base, cls="truncated", raw=cut, stored=k, label=f"{version}/fmt{fmt}/n{n}/evlrs{nev}/cut_after_{k}_records"))
    # malformed stream (model vs implementation; the oracle looks at the call logs and at the seekable sources)
    valid = [f for f in files if f["cls"] == "valid"]
    for _ in range(ctx.n(60, 600)):
        f = rng.choice(valid)
        raw, off, ps, n, nev = f["raw"], f["off"], f["ps"], f["n"], f["nev"]
        how = rng.choice(["cut_record", "cut_evlr", "cut_header", "count_up", "count_down", "evlr_more", "evlr_elsewhere",
                          "evlr_non_ascii", "bad_signature", "empty", "short", "small_offset", "evlr_count_on_empty"])
        bad = None
        if how == "cut_record" and n:
            bad = raw[:off + rng.randrange(0, n) * ps + rng.randrange(1, ps)]
        elif how == "cut_evlr" and nev:
            bad = raw[:off + n * ps + rng.randrange(0, len(raw) - off - n * ps)]
        elif how == "cut_header":
            bad = raw[:rng.choice([1, 3, 4, 100, 226, 227, 228, max(228, off - 1)])]
        elif how == "count_up":
            pos, w = (247, 8) if f["version"] == "1.4" else (107, 4)
            bad = patch_u(raw, pos, w, n + rng.choice([1, 2, 50]))
        elif how == "count_down" and n:
            pos, w = (247, 8) if f["version"] == "1.4" else (107, 4)
            bad = patch_u(raw, pos, w, rng.randrange(0, n))
        elif how == "evlr_more" and f["version"] == "1.4":
            bad = patch_u(raw, 243, 4, nev + rng.choice([1, 2]))
            if not nev:
                bad = patch_u(bad, 235, 8, rng.choice([off + n * ps, off, len(raw) + 3]))
        elif how == "evlr_elsewhere" and nev:
            bad = patch_u(raw, 235, 8, rng.choice([0, off, off + n * ps + 1, len(raw), len(raw) + 5, max(0, off + n * ps - 1)]))
        elif how == "evlr_non_ascii" and nev:
            p = off + n * ps + 2 + rng.randrange(0, 3)
            bad = raw[:p] + bytes([rng.choice([0x80, 0xFF, 0xC3])]) + raw[p + 1:]
        elif how == "bad_signature":
            bad = rng.choice([b"LASX", b"lasf", b"\0\0\0\0"]) + raw[4:]
        elif how == "empty":
            bad = b""
        elif how == "short":
            bad = raw[:rng.choice([2, 4, 50])]
        elif how == "small_offset":
            bad = patch_u(raw, 96, 4, rng.choice([0, 1, 100, 226]))
        elif how == "evlr_count_on_empty" and f["version"] == "1.4" and not nev:
            bad = patch_u(patch_u(raw, 243, 4, 1), 235, 8, off + n * ps)
        if bad is None or not evaluable(bad):
            continue
        files.append(dict(f, cls="malformed", raw=bad, label=f["label"].rsplit("/", 1)[0] + "/" + how))
    # in every run: EVLRs stored BEFORE the points (between the VLRs and the first point), where the header says they are. Not a
    # layout the specification allows, but one a source that can seek reads (it seeks where the header says), at opening or in
    # read() alike; a source that cannot seek cannot (it is past them): judged on the sources that can seek only
    with_ev = [f for f in valid if f["nev"] > 0]
    for f in rng.sample(with_ev, min(len(with_ev), ctx.n(4, 40))):
        raw, off, ps, n = f["raw"], f["off"], f["ps"], f["n"]
        ev = raw[off + n * ps:]
        bad = patch_u(patch_u(raw[:off] + ev + raw[off:off + n * ps], 96, 4, off + len(ev)), 235, 8, off)
        if evaluable(bad):
            files.append(dict(f, cls="malformed", raw=bad, label=f["label"].rsplit("/", 1)[0] + "/evlrs_before_points"))
    # in every run: records of a type laspy knows in the list where they are not usually found (own generator: what was drawn above stays as it was)
    files += make_relocated(ctx, random.Random(ctx.seed * 104729 + 3))
    return files


# ---------------------------------------------------------------------------------
# records of a type laspy knows, in the list where they are not usually found
# ---------------------------------------------------------------------------------
RELOCATED = "relocated"     # class of the files below: well formed, every access path must read them alike
KNOWN_KINDS = ["classification lookup", "wkt", "wkt math transform", "geo key directory", "geo double params", "geo ascii params",
               "waveform packet descriptor", "laszip"]


def known_record(rng, what):
    """(user id, record id, description, payload) of a record of a type laspy has a class for (laspy/vlrs/known.py); the payload
    in the form laspy writes such a record back (what is read is then what was stored)"""
    low = [c for c in range(97, 123)]
    desc = lasio.rand_ascii(rng, rng.choice([0, 5, 32]), low).encode()
    if what == "classification lookup":
        ids = sorted(rng.sample(range(256), rng.choice([1, 3, 17, 256])))
        return (b"LASF_Spec", 0, desc, b"".join(bytes([c]) + lasio.rand_ascii(rng, rng.choice([0, 1, 7, 15]), low).encode().ljust(15, b"\0") for c in ids))
    if what in ("wkt", "wkt math transform"):
        txt = 'PROJCS["' + lasio.rand_ascii(rng, rng.choice([1, 20, 300]), low) + '",GEOGCS["x",DATUM["d",SPHEROID["s",6378137,298.257]]]]'
        return (b"LASF_Projection", 2112 if what == "wkt" else 2111, desc, txt.encode() + b"\0")
    if what == "geo key directory":
        k = rng.choice([0, 1, 4])
        body = b"".join(int(rng.choice([1024, 2048, 3072, 34737, rng.randrange(65536)])).to_bytes(2, "little") for _ in range(4 * k))
        return (b"LASF_Projection", 34735, desc, b"".join(int(v).to_bytes(2, "little") for v in (1, 1, 0, k)) + body)
    if what == "geo double params":
        return (b"LASF_Projection", 34736, desc, np.array([rng.uniform(-1e6, 1e6) for _ in range(rng.choice([0, 1, 3]))], dtype="<f8").tobytes())
    if what == "geo ascii params":
        return (b"LASF_Projection", 34737, desc, (lasio.rand_ascii(rng, rng.choice([1, 9, 40]), low) + "|" + lasio.rand_ascii(rng, 3, low) + "|").encode() + b"\0")
    if what == "waveform packet descriptor":
        return (b"LASF_Spec", 100 + rng.choice([0, 1, 255]), desc,
                bytes([rng.choice([8, 16]), 0]) + rng.randrange(1, 1000).to_bytes(4, "little") + rng.randrange(1, 5000).to_bytes(4, "little")
                + np.array([rng.uniform(0.1, 10), rng.uniform(-5, 5)], dtype="<f8").tobytes())
    if what == "laszip":
        return (b"laszip encoded", 22204, desc, bytes(rng.randrange(256) for _ in range(rng.choice([34, 52]))))
    raise ValueError(what)


def rec_bytes_of(rec, extended):
    """the bytes of a VLR (extended: of an EVLR)"""
    u, r, d, p = rec
    return b"\0\0" + u.ljust(16, b"\0") + int(r).to_bytes(2, "little") + len(p).to_bytes(8 if extended else 2, "little") + d.ljust(32, b"\0") + p


def reassemble(raw, vlrs, evlrs):
    """the file `raw` (written by laspy: header, VLRs, padding, points[, EVLRs]) with these VLRs and these EVLRs instead of its own:
    same header fields, same padding after the VLRs, same points; offset_to_point_data, the two record counts and
    start_of_first_evlr say where things are now"""
    d = lasio.parse_raw(raw)
    hs, off = d["header_size"], d["offset"]
    _, vend = lasio.raw_walk_vlrs(raw, hs, d["nvlrs"], False)
    points = raw[off:off + d["count"] * d["psize"]]
    vb = b"".join(rec_bytes_of(v, False) for v in vlrs)
    new_off = hs + len(vb) + (off - vend)
    out = patch_u(patch_u(raw[:hs], 96, 4, new_off), 100, 4, len(vlrs)) + vb + raw[vend:off] + points
    if d["minor"] >= 4:
        if evlrs:
            out = patch_u(out, 235, 8, len(out))
        out = patch_u(out, 243, 4, len(evlrs))
        out += b"".join(rec_bytes_of(v, True) for v in evlrs)
    return out


def own_records(raw):
    """(VLRs, EVLRs) of a file written by laspy, as (user id, record id, description, payload) with the padding of the two strings removed"""
    d = lasio.parse_raw(raw)
    vl, _ = lasio.raw_walk_vlrs(raw, d["header_size"], d["nvlrs"], False)
    ev = lasio.raw_walk_vlrs(raw, d["evlr_start"], d["nevlrs"], True)[0] if d["nevlrs"] else []
    strip = lambda l: [(u.split(b"\0")[0], r, dd.split(b"\0")[0], p) for (u, r, dd, p) in l]
    return strip(vl), strip(ev)


def is_eb(rec):
    return rec[0] == b"LASF_Spec" and rec[1] == 4


def make_relocated(ctx, rng):
    """well-formed files in which a record of a type laspy knows sits in the list where it is not usually found - the Extra Bytes
    record (LASF_Spec / 4) that describes the extra bytes of the points stored as an EVLR (LAS 1.4 allows it) instead of a VLR, alone, next
    to another one among the VLRs, describing fewer bytes than the points carry; two such records adjacent among the VLRs; the
    classification lookup, WKT, GeoTIFF, waveform descriptor and laszip records as EVLRs, as VLRs, in both lists, twice in a row -
    with and without points. Whatever laspy makes of such a file, it makes the same of it through every access path: the class is
    judged like the valid files (and compared with the model, for which these are records like any other)."""
    import laspy
    shapes14 = ["eb_evlr", "eb_evlr", "eb_evlr_other_size", "eb_both_lists", "eb_twice_vlr", "known_evlr", "known_vlr", "known_both_lists", "known_twice"]
    plan = [("1.4", s) for s in shapes14] + [(rng.choice(["1.1", "1.2", "1.3"]), s) for s in ("eb_twice_vlr", "known_vlr")]
    if ctx.thorough():
        plan = plan * 3 + [(v, s) for v in ("1.1", "1.2", "1.3") for s in ("eb_twice_vlr", "known_vlr", "known_twice")]
    # in every run, whatever was drawn above: EVERY known type (one record of each) among the VLRs, and among the EVLRs, of a file with
    # NO point and of a file with points (a reader treats the empty file apart: another point reader, clean-up code of its own)
    old = rng.choice(["1.1", "1.2", "1.3"])
    forced = {len(plan) + k: n_ for k, n_ in enumerate([0, None, 0, None, 0, None])}
    plan = plan + [("1.4", "every_known_vlr"), ("1.4", "every_known_vlr"), ("1.4", "every_known_evlr"), ("1.4", "every_known_evlr"),
                   (old, "every_known_vlr"), (old, "every_known_vlr")]
    out = []
    counts = [0, rng.choice([1, 2, 3]), 7]
    for i, (version, shape) in enumerate(plan):
        fmt = rng.choice(lasio.COMPAT[version])
        n = counts[i % 3] if shape != "eb_evlr" else [0, rng.choice([1, 2, 7])][i % 2]
        if i in forced:
            n = forced[i] if forced[i] is not None else rng.choice([1, 2, 7])
        h = lasio.rand_header(rng, version=version, fmt=fmt, nvlrs=rng.choice([0, 1]))
        with_eb = shape.startswith("eb") or rng.random() < 0.4
        if with_eb:
            while not list(h.point_format.extra_dimensions):
                lasio.add_extra_dims(rng, h, k=rng.choice([1, 2, 3]))
        pts = lasio.rand_points(rng, h, n)
        own_ev = laspy.vlrs.vlrlist.VLRList([lasio.rand_vlr(rng, max_payload=rng.choice([0, 5, 120])) for _ in range(rng.choice([0, 1]))]) if version == "1.4" else None
        raw = lasio.write_las(h, pts, own_ev)
        vl, ev = own_records(raw)
        eb = [v for v in vl if is_eb(v)]

        sizes = {}

        def other_eb():
            # an Extra Bytes record with other names (and, mostly, another total size), as laspy writes it
            h2 = lasio.add_extra_dims(rng, laspy.LasHeader(version=version, point_format=fmt), k=rng.choice([1, 2]))
            rec = [v for v in own_records(lasio.write_las(h2))[0] if is_eb(v)][0]
            sizes[rec] = h2.point_format.num_extra_bytes
            return rec
        whats = rng.sample(KNOWN_KINDS, rng.choice([1, 2, 4, len(KNOWN_KINDS)])) if not shape.startswith("every_known") else rng.sample(KNOWN_KINDS, len(KNOWN_KINDS))
        known = [known_record(rng, w) for w in whats]
        at = lambda l: rng.randrange(len(l) + 1)
        if shape == "eb_evlr":                  # the description of the extra bytes is among the EVLRs only
            vl = [v for v in vl if not is_eb(v)]
            ev.insert(at(ev), eb[0])
        elif shape == "eb_evlr_other_size":     # ... and does not describe the bytes the points carry
            vl = [v for v in vl if not is_eb(v)]
            e2 = eb[0][:3] + (eb[0][3][:-192],) if len(eb[0][3]) > 192 and rng.random() < 0.5 else other_eb()
            ev.insert(at(ev), e2)
        elif shape == "eb_both_lists":          # one among the VLRs (used), another one among the EVLRs
            ev.insert(at(ev), rng.choice([other_eb(), eb[0]]))
        elif shape == "eb_twice_vlr":           # two adjacent among the VLRs
            k, e2 = vl.index(eb[0]), other_eb()
            # before the one laspy wrote only when it describes no more bytes than the points carry (the first one is the one used)
            vl.insert(k + (rng.choice([0, 1]) if sizes[e2] <= h.point_format.num_extra_bytes else 1), e2)
        elif shape in ("known_evlr", "every_known_evlr"):
            for kr in known:
                ev.insert(at(ev), kr)
        elif shape in ("known_vlr", "every_known_vlr"):
            for kr in known:
                vl.insert(at(vl), kr)
        elif shape == "known_both_lists":
            for kr in known:
                vl.insert(at(vl), kr)
                ev.insert(at(ev), kr if rng.random() < 0.5 else known_record(rng, rng.choice(KNOWN_KINDS)))
        elif shape == "known_twice":
            kr = known[0]
            l = ev if (version == "1.4" and rng.random() < 0.6) else vl
            k = at(l)
            l[k:k] = [kr, rng.choice([kr, kr[:3] + (known_record(rng, whats[0])[3],)])]
        new = reassemble(raw, vl, ev)
        ps = h.point_format.size
        tup = lambda l: [[hx(u), r, hx(dd), hx(p)] for (u, r, dd, p) in l]
        f = {"version": version, "fmt": fmt, "n": n, "nev": len(ev), "ps": ps, "off": int.from_bytes(new[96:100], "little"),
             "extra_dims": len(list(h.point_format.extra_dimensions)), "cls": RELOCATED, "raw": new, "shape": shape,
             "label": f"{version}/fmt{fmt}/n{n}/evlrs{len(ev)}/{shape}#{i}",
             "truth": {"points": hx(lasio.rec_bytes(pts)), "vlrs": len(vl), "vlr_list": tup(vl), "evlrs": None if version != "1.4" else tup(ev)}}
        if evaluable(new):
            out.append(f)
    return out


def plans_for(ctx, n):
    """ways of consuming the reader before read(): nothing, chunk iterators, read_points, mixtures"""
    rng = ctx.rng
    k = rng.choice([1, 2, 3, max(1, n), n + 5])
    pool = [[("c", k)], [("p", rng.choice([0, 1, 2, max(1, n - 1), n, n + 3]))], [("p", 1), ("c", rng.choice([1, 2]))],
            [("c", rng.choice([0, -1]))], [("p", rng.choice([1, 2])), ("p", -1)], [("p", 1), ("p", rng.choice([1, 3])), ("c", 2)]]
    if ctx.thorough():
        return [[], [("c", 1)], [("c", 2)], [("c", max(1, n))], [("c", n + 5)]] + pool[1:]
    return [[], pool[0], rng.choice(pool[1:])]


def configs(ctx, f):
    """(kind, read_evlrs, plan) to run on file f; read_evlrs None = the argument is not given"""
    rng = ctx.rng
    plans = plans_for(ctx, f["n"])
    kinds = REAL + [PIPE] + [d[0] for d in DOUBLES]
    if f["cls"] == "malformed" and not ctx.thorough():
        # the path always: it is the reference of the other sources, and of itself for the timing of the EVLR loading
        kinds = [d[0] for d in DOUBLES] + [PIPE, "path", rng.choice(REAL[1:])]
    out = []
    for kind in kinds:
        for e in (True, False, None):
            if ctx.thorough() or kind == "path":
                ps = plans
            else:
                # quick tier: the cross product is sampled per (kind, read_evlrs); "path" runs everything (it is the reference)
                ps = [plans[0], rng.choice(plans[1:])] if e is None else [rng.choice(plans)]
            for p in ps:
                out.append((kind, e, p))
    return out


# ---------------------------------------------------------------------------------
# short-count sources; data sets whose parts cross the usual buffer sizes
# ---------------------------------------------------------------------------------
def short_configs(ctx, rng, f, ref_keys):
    """(short-count kind, read_evlrs, plan) to run on file f: every (read_evlrs, plan) is one the path was run with"""
    keys = sorted(ref_keys, key=repr)
    bases = [d[0] for d in DOUBLES]
    out = []
    if ctx.thorough():
        for base in bases:
            for policy in rng.sample(SHORT_POLICIES, 2):
                e, ptok = rng.choice(keys)
                out.append((short_kind(policy, rng.randrange(1000), base), e, parse_plan(ptok)))
        for base in RAW:
            e, ptok = rng.choice(keys)
            out.append((short_kind("os", rng.randrange(1000), base), e, parse_plan(ptok)))
        return out
    for _ in range(2):
        e, ptok = rng.choice(keys)
        out.append((short_kind(rng.choice(SHORT_POLICIES), rng.randrange(1000), rng.choice(bases)), e, parse_plan(ptok)))
    if rng.random() < 0.15:
        e, ptok = rng.choice(keys)
        out.append((short_kind("os", rng.randrange(1000), rng.choice(RAW)), e, parse_plan(ptok)))
    return out


def alt_configs(ctx, rng, f, ref_keys, on_disk=False):
    """(alt kind, read_evlrs, plan) on file f: other entry points and numpy arguments, on sources that need no file on disk
    (unless it is there); the plans are those the path was run with, those with counts first for the numpy variants"""
    keys = sorted(ref_keys, key=repr)
    with_counts = [k for k in keys if k[1] != "-"] or keys
    streams = ["BytesIO", PIPE] + [d[0] for d in DOUBLES] + (["buffered_file", "unbuffered_file"] if on_disk else [])
    out = []
    variants = ALT_VARIANTS if ctx.thorough() else rng.sample(ALT_VARIANTS, 2)
    for variant in variants:
        for _ in range(ctx.n(1, 3)):
            e, ptok = rng.choice(with_counts if variant in ALT_NP else keys)
            base = rng.choice(streams if variant == "ctor" else streams + ["bytes"] + (["path", "pathlib"] if on_disk else []))
            out.append((alt_kind(variant, base), e, parse_plan(ptok)))
    return out


def py_configs(ctx, rng, f, ref_keys, small=True):
    """(py kind, read_evlrs, plan) on file f, and the py kinds laspy.read(source) is run on: sources WRITTEN IN PYTHON - readinto in
    the usual spellings on the doubles that have one (seekable, not seekable, bare), read() returning bytes or a bytearray on every
    double - reading the whole in one go (no plan) and by chunks / read_points; the (read_evlrs, plan) are those the path was run with"""
    keys = sorted(ref_keys, key=repr)
    whole = [k for k in keys if k[1] == "-"] or keys
    parts = [k for k in keys if k[1] != "-"] or keys
    spellings = list(PY_SPELLINGS) if small else PY_FAST
    runs, reads = [], []
    if ctx.thorough():
        for base in PY_BASES:
            for sp in spellings:
                rt = rng.choice(sorted(PY_READS))
                for (e, ptok) in (rng.choice(whole), rng.choice(parts)):
                    runs.append((py_kind(sp, rt, base), e, parse_plan(ptok)))
                reads.append(py_kind(sp, rt, base))
        for base in PY_READ_BASES:
            for rt in sorted(PY_READS):
                for (e, ptok) in (rng.choice(whole), rng.choice(parts)):
                    runs.append((py_kind("slice", rt, base), e, parse_plan(ptok)))
                reads.append(py_kind("slice", rt, base))
        return runs, reads
    # quick tier: every file gets two sources with a Python readinto (one read whole, one by parts; the spellings and the three
    # doubles in turn over the files) and one read()-only source, and laspy.read through one of each
    sps = rng.sample(spellings, 2)
    bases = rng.sample(PY_BASES, 2)
    for sp, base, (e, ptok) in zip(sps, bases, (rng.choice(whole), rng.choice(parts))):
        runs.append((py_kind(sp, rng.choice(sorted(PY_READS)), base), e, parse_plan(ptok)))
    e, ptok = rng.choice(keys)
    runs.append((py_kind("slice", rng.choice(sorted(PY_READS)), rng.choice(PY_READ_BASES)), e, parse_plan(ptok)))
    reads.append(py_kind(rng.choice(spellings), rng.choice(sorted(PY_READS)), rng.choice(PY_BASES)))
    if rng.random() < 0.3:
        reads.append(py_kind("slice", "bytearray", rng.choice(PY_READ_BASES)))
    return runs, reads


BOUNDARIES = sorted({8 << 10, 64 << 10, 1 << 20, 2 * io.DEFAULT_BUFFER_SIZE, 3 * io.DEFAULT_BUFFER_SIZE, 16 * io.DEFAULT_BUFFER_SIZE,
                     128 * io.DEFAULT_BUFFER_SIZE})
BIG = 8 << 20


def sized_recipes(ctx, rng):
    """the data sets of one run: a part of the file (the point block, the header + VLR block that the second prefetch read
    fetches, one VLR payload, one EVLR payload) is just over a size at which buffered readers, pipes and chunked copies
    change behaviour; and in EVERY run one data set whose point block is a bit more than 8 MiB"""
    pairs = [(v, f) for v in lasio.VERSIONS for f in lasio.COMPAT[v]]

    def recipe(part, bound, version=None, fmt=None, with_evlrs=False):
        if version is None:
            version, fmt = rng.choice(pairs)
        d = rng.choice([0, 1, 1, 2, 17]) if part != "big" else rng.choice([1, 2, 1 + rng.randrange(0, 40000)])
        rc = {"seed": rng.randrange(1 << 30), "part": part, "bound": bound, "d": d, "version": version, "fmt": fmt,
              "extra_dims": rng.choice([0, 0, 0, 1]), "n": rng.choice([0, 1, 3, 40]), "vlr_payloads": [rng.choice([0, 3, 200])] * rng.choice([0, 1, 2]),
              "evlr_payloads": []}
        if version == "1.4":
            rc["evlr_payloads"] = [rng.choice([0, 5, 300]) for _ in range(rng.choice([1, 2] if with_evlrs else [0, 1, 2]))]
        if part == "many_evlrs":
            rc["evlr_payloads"] = [rng.choice([0, 0, 1, 9]) for _ in range(rng.choice([255, 256, 257, 300]))]
        elif part == "many_vlrs":
            rc["vlr_payloads"] = [rng.choice([0, 0, 1, 9]) for _ in range(rng.choice([255, 256, 257, 300]))]
        if part == "vlrs":
            rem, pl = bound - 150 + rng.randrange(0, 400), []
            while rem > 54:
                k = min(65535, rem - 54)
                pl.append(k)
                rem -= 54 + k
            rc["vlr_payloads"] = pl
        elif part == "vlr_payload":
            rc["vlr_payloads"] = [rng.choice([65535, 65534, 65535 - 54, 8192 + d, 2 * 8192 + d])] + rc["vlr_payloads"]
        elif part == "evlr":
            rc["evlr_payloads"] = [bound + d] + [rng.choice([0, 7])] * rng.choice([0, 1])
            if rng.random() < 0.5:
                rc["evlr_payloads"].reverse()
        # unused bytes between the last point and the first EVLR (legal; laspy never writes them): the part "gap" has bound + d of them
        if part == "gap":
            rc["gap"] = bound + d
        elif rc["evlr_payloads"] and rng.random() < 0.4:
            rc["gap"] = rng.choice([1, 2, 61, 4096, 8193])
        return rc
    def f14():
        return rng.choice(lasio.COMPAT["1.4"])
    # every run: a point block of a bit more than 8 MiB, once followed by EVLRs (what comes after the block is read from where
    # the block ended when the source cannot seek), once in any version / format
    out = [recipe("big", BIG, "1.4", f14(), with_evlrs=True), recipe("big", BIG)]
    if ctx.thorough():
        out += [recipe("big", b) for b in (BIG, 16 << 20, 32 << 20, 64 << 20)]
        for b in BOUNDARIES:
            out += [recipe("points", b), recipe("points", b, "1.4", f14(), with_evlrs=True), recipe("evlr", b, "1.4", f14()), recipe("vlrs", b)]
        out += [recipe("vlr_payload", 65535) for _ in range(3)]
        out += [recipe("many_evlrs", 256, "1.4", f14()), recipe("many_vlrs", 256)]
        out += [recipe("aligned", b) for b in (io.DEFAULT_BUFFER_SIZE, 4096, 65536)] + [recipe("aligned", io.DEFAULT_BUFFER_SIZE, "1.4", f14(), with_evlrs=True)]
        out += [recipe("gap", b, "1.4", f14(), with_evlrs=True) for b in BOUNDARIES + [BIG]]
    else:
        out += [recipe("points", rng.choice(BOUNDARIES)), recipe("points", rng.choice(BOUNDARIES[-3:]), "1.4", f14(), with_evlrs=True),
                recipe("evlr", rng.choice(BOUNDARIES), "1.4", f14()), recipe("evlr", rng.choice(BOUNDARIES[-3:]), "1.4", f14()),
                recipe("vlrs", rng.choice(BOUNDARIES)), recipe("vlr_payload", 65535),
                rng.choice([recipe("many_evlrs", 256, "1.4", f14()), recipe("many_vlrs", 256)]),
                recipe("aligned", rng.choice([io.DEFAULT_BUFFER_SIZE, 4096, 65536]), *rng.choice([(None, None), ("1.4", f14(), True)])),
                recipe("gap", rng.choice(BOUNDARIES), "1.4", f14(), with_evlrs=True)]
    return out


def make_sized(rc):
    """the file of a recipe (deterministic), written by laspy; like an entry of make_files, the records kept as bytes"""
    import laspy
    r = random.Random(rc["seed"])
    g = np.random.default_rng(rc["seed"])

    def payload(k):
        return g.integers(0, 256, k, dtype=np.uint8).tobytes()
    h = lasio.rand_header(r, version=rc["version"], fmt=rc["fmt"], nvlrs=0)
    if rc["extra_dims"]:
        lasio.add_extra_dims(r, h, k=rc["extra_dims"])
    for i, k in enumerate(rc["vlr_payloads"]):
        h.vlrs.append(laspy.VLR(user_id="sized%d" % i, record_id=i, description="v" * (i % 33), record_data=payload(k)))
    ps = h.point_format.size
    n = rc["bound"] // ps + rc["d"] if rc["part"] in ("points", "big") else rc["n"]
    if rc["part"] == "aligned":         # the point block is EXACTLY d times the smallest multiple of the bound that holds whole records
        n = rc["bound"] // math.gcd(ps, rc["bound"]) * max(1, rc["d"])
    pts = laspy.PackedPointRecord.zeros(n, h.point_format)
    data = payload(n * ps)
    pts.array = np.frombuffer(data, dtype=np.uint8).view(pts.array.dtype).copy()
    evl = laspy.vlrs.vlrlist.VLRList([laspy.VLR(user_id="sizedE%d" % i, record_id=65535 - i, description="e" * (i % 33), record_data=payload(k))
                                      for i, k in enumerate(rc["evlr_payloads"])])
    raw = lasio.write_las(h, pts, evl)
    if rc.get("gap") and len(evl):
        st = int.from_bytes(raw[235:243], "little")
        raw = patch_u(raw[:st] + payload(rc["gap"]) + raw[st:], 235, 8, st + rc["gap"])
    nvl = len(h.vlrs)
    label = f"{rc['version']}/fmt{rc['fmt']}/n{n}/evlrs{len(evl)}/{rc['part']} over {rc['bound']} bytes (+{rc['d']})"
    if rc["part"] == "aligned":
        label = f"{rc['version']}/fmt{rc['fmt']}/n{n}/evlrs{len(evl)}/point block of {n * ps} bytes = {n * ps // rc['bound']} x {rc['bound']}"
    if rc.get("gap") and len(evl):
        label += f", gap of {rc['gap']} bytes before the EVLRs"
    return {"version": rc["version"], "fmt": rc["fmt"], "n": n, "nev": len(evl), "ps": ps, "off": int.from_bytes(raw[96:100], "little"),
            "extra_dims": len(list(h.point_format.extra_dimensions)), "cls": "valid", "raw": raw, "label": label, "recipe": rc,
            "truth_bytes": data,
            "truth": {"points": None, "vlrs": nvl,
                      "evlrs": None if rc["version"] != "1.4" else [[hx(u), r_, hx(dd), hx(p)] for (u, r_, dd, p) in map(lasio.vlr_tuple, evl)]}}


def sized_configs(ctx, rng, f):
    """every access path reads the data set in ONE call (read() alone); then other single calls (read_points(n), one chunk
    of n points, read_points(-1)) and chunk sizes whose bytes are just over a boundary"""
    n, ps = f["n"], f["ps"]
    big = f["recipe"]["part"] == "big"
    kinds = REAL + [PIPE] + [d[0] for d in DOUBLES]
    one_call = [[("p", n)], [("p", -1)], [("c", n)], [("c", n + 3)], [("p", n + 1)]]
    chunked = [[("c", b // ps + 1)] for b in BOUNDARIES + [BIG] if 0 < (n * ps) // (b + ps) < 300] or [[("c", max(1, n // 2))]]
    chunked += [[("p", max(1, b // ps + 1)), ("p", -1)] for b in BOUNDARIES + [BIG] if b < n * ps]
    runs = []
    for kind in kinds:
        runs.append((kind, rng.choice([True, False, None]), []))
        if ctx.thorough() or not big or rng.random() < 0.25:
            runs.append((kind, rng.choice([True, False, None]), rng.choice(one_call if n else one_call[:2])))
        if n and (ctx.thorough() or rng.random() < (0.15 if big else 0.5)):
            runs.append((kind, rng.choice([True, False]), rng.choice(chunked)))
    keys = {(e, plan_tok(plan)) for (_, e, plan) in runs}
    runs = [("path", e, parse_plan(ptok)) for (e, ptok) in sorted(keys, key=repr) if ("path", e, parse_plan(ptok)) not in runs] + runs
    shorts = []
    for _ in range(ctx.n(2, 8)):
        e, ptok = rng.choice(sorted(keys, key=repr))
        base = rng.choice([d[0] for d in DOUBLES] + ([] if big else list(RAW)))
        shorts.append((short_kind(rng.choice(SHORT_BIG) if base not in RAW else "os", rng.randrange(1000), base), e, parse_plan(ptok)))
    return runs, shorts


def observe_sized(ctx, rng, tmp):
    out = []
    path = os.path.join(tmp, "s.las")
    for rc in sized_recipes(ctx, rng):
        f = make_sized(rc)
        enc = truth_enc(f["truth_bytes"])
        f["truth"]["points"] = enc(f["truth_bytes"])
        with open(path, "wb") as fh:
            fh.write(f["raw"])
        rec = dict(f, runs=[], reads=[], short_runs=[])
        rec["ref"] = read_through("path", f["raw"], path, True, [], enc=enc)
        runs, shorts = sized_configs(ctx, rng, f)
        for (kind, e, plan) in runs:
            rec["runs"].append(((kind, e, plan), read_through(kind, f["raw"], path, e, plan, enc=enc)))
        for (kind, e, plan) in shorts:
            rec["short_runs"].append(((kind, e, plan), read_through(kind, f["raw"], path, e, plan, enc=enc)))
        rec["alt_runs"] = []
        for (kind, e, plan) in alt_configs(ctx, rng, f, {(e, plan_tok(plan)) for (k, e, plan) in runs if k == "path"}, on_disk=True):
            rec["alt_runs"].append(((kind, e, plan), read_through(kind, f["raw"], path, e, plan, enc=enc)))
        for kind in REAL + [PIPE] + [d[0] for d in DOUBLES]:
            if ctx.thorough() or rc["part"] != "big" or rng.random() < 0.4:
                rec["reads"].append((kind, read_through(kind, f["raw"], path, None, [], route="read", enc=enc)))
        pruns, preads = py_configs(ctx, rng, f, {(e, plan_tok(plan)) for (k, e, plan) in runs if k == "path"}, small=False)
        rec["py_runs"] = [((kind, e, plan), read_through(kind, f["raw"], path, e, plan, enc=enc)) for (kind, e, plan) in pruns]
        rec["py_reads"] = [(kind, read_through(kind, f["raw"], path, None, [], route="read", enc=enc)) for kind in preads]
        rec["mmap"] = read_mmap(path, enc=enc)
        rec["head"] = f["raw"][:400]
        del rec["raw"], rec["truth_bytes"]         # several MiB each: the recipe makes them again
        out.append(rec)
    return out


_OBS = None


def observe(ctx):
    """run the implementation once; shared by correspond and search"""
    global _OBS
    if _OBS is not None:
        return _OBS
    global EDIT_KINDS_PER_CHUNK, EDIT_KINDS_PER_RESULT
    if ctx.thorough():
        EDIT_KINDS_PER_CHUNK = EDIT_KINDS_PER_RESULT = None
    tmp = tempfile.mkdtemp(prefix="c17_", dir="/var/tmp")
    obs = {"files": [], "edits": []}
    try:
        files = make_files(ctx)
        path = os.path.join(tmp, "f.las")
        for f in files:
            with open(path, "wb") as fh:
                fh.write(f["raw"])
            rec = dict(f, runs=[], reads=[])
            rec["ref"] = read_through("path", f["raw"], path, True, [])
            for (kind, e, plan) in configs(ctx, f):
                rec["runs"].append(((kind, e, plan), read_through(kind, f["raw"], path, e, plan)))
            kinds = sorted({k for (k, _, _), _ in rec["runs"]})
            for kind in kinds:
                rec["reads"].append((kind, read_through(kind, f["raw"], path, None, [], route="read")))
            rec["mmap"] = read_mmap(path)
            obs["files"].append(rec)
        obs["edits"] = observe_edits(ctx, files, tmp)
        # short-count sources (no model: the oracle judges them) and the data sets that cross buffer-size boundaries
        srng = random.Random(ctx.seed * 7919 + 17)
        for rec in obs["files"]:
            rec["short_runs"] = []
            ref_keys = {(e, plan_tok(plan)) for (k, e, plan), _ in rec["runs"] if k == "path"} or {(e, plan_tok(plan)) for (k, e, plan), _ in rec["runs"]}
            if rec["cls"] != "malformed":       # short counts where they are the point: files that every source must read alike
                for (kind, e, plan) in short_configs(ctx, srng, rec, ref_keys):
                    rec["short_runs"].append(((kind, e, plan), read_through(kind, rec["raw"], path, e, plan)))
            rec["alt_runs"] = []
            for (kind, e, plan) in alt_configs(ctx, srng, rec, ref_keys):
                rec["alt_runs"].append(((kind, e, plan), read_through(kind, rec["raw"], path, e, plan)))
            pruns, preads = py_configs(ctx, srng, rec, ref_keys)
            rec["py_runs"] = [((kind, e, plan), read_through(kind, rec["raw"], path, e, plan)) for (kind, e, plan) in pruns]
            rec["py_reads"] = [(kind, read_through(kind, rec["raw"], path, None, [], route="read")) for kind in preads]
        obs["sized"] = observe_sized(ctx, srng, tmp)
    finally:
        shutil.rmtree(tmp, ignore_errors=True)
    _OBS = obs
    return obs


# ---------------------------------------------------------------------------------
# memory map edits
# ---------------------------------------------------------------------------------
def field_of(pf, name):
    """(field name in the record dtype, byte offset in the record, byte width, mask or None)"""
    from laspy.point import dims
    dt = pf.dtype()
    if name in dt.fields:
        fdt, off = dt.fields[name][0], dt.fields[name][1]
        return name, off, fdt.itemsize, None
    for comp, subs in dims.COMPOSED_FIELDS[pf.id].items():
        for s in subs:
            if s.name == name:
                fdt, off = dt.fields[comp][0], dt.fields[comp][1]
                return comp, off, fdt.itemsize, int(s.mask)
    raise KeyError(name)


def new_value(rng, fdt, mask):
    """a value for one element, and whether it is a float"""
    if mask is not None:
        shift = (mask & -mask).bit_length() - 1
        return rng.randrange(0, (mask >> shift) + 1)
    base = fdt.base
    if base.kind == "f":
        return rng.choice([0.0, -1.5, 1e10, 3.25, rng.uniform(-1e6, 1e6)])
    info = np.iinfo(base)
    return rng.choice([info.min, info.max, 0, 1, rng.randrange(info.min, info.max + 1)])


# the ways of assigning through a LasData: the whole dimension (by attribute, by item, through the record), a slice or an
# element of the view of the dimension
WHOLE_ROUTES = ["attr", "item", "record", "view[:]", "record.array"]
PART_ROUTES = ["view[i]", "view[a:b]", "view[mask]"]


def assign(las, route, name, values, sel):
    """performs the assignment on a LasData (memory map or in-memory copy). values: one per record for whole routes, the
    selected ones otherwise; sel: None | int | slice | boolean mask"""
    if route == "attr":
        setattr(las, name, values)
    elif route == "item":
        las[name] = values
    elif route == "record":
        las.points[name] = values
    elif route == "record.array":
        las.points.array[name] = values
    elif route == "view[:]":
        las[name][:] = values
    elif route in ("view[i]", "view[a:b]", "view[mask]"):
        las[name][sel] = values
    else:
        raise ValueError(route)


def observe_edits(ctx, files, tmp):
    """for one file per (version, format) with points: every dimension is assigned through laspy.mmap, one session per
    assignment, by a route drawn among all of them (every route is used on every file); x, y, z (scaled) and xyz too.
    The same assignment is made on an in-memory copy of the file (laspy.read): what the file must hold afterwards. Recorded:
    the bytes before/after, what the map itself showed, and what laspy.read shows afterwards"""
    import laspy
    rng = ctx.rng
    out = []
    seen = set()
    cand = [f for f in files if f["cls"] in ("valid", "trailing") and f["n"] >= 1]
    rng.shuffle(cand)
    cand.sort(key=lambda f: -f["nev"])     # files with EVLR bytes after the points first
    for f in cand:
        key = (f["version"], f["fmt"]) if not ctx.thorough() else (f["version"], f["fmt"], f["n"], f["nev"], f["extra_dims"] > 0)
        if key in seen and not (f["extra_dims"] and ("x", key) not in seen):
            continue
        seen.add(key)
        if f["extra_dims"]:
            seen.add(("x", key))
        path = os.path.join(tmp, "m.las")
        with open(path, "wb") as fh:
            fh.write(f["raw"])
        cur = f["raw"]
        n = f["n"]
        try:
            with laspy.mmap(path) as m:
                names = list(m.point_format.dimension_names)
                pf = m.point_format
                scaled_extra = {d.name for d in pf.extra_dimensions if d.scales is not None or d.offsets is not None}
        except Exception as ex:  # noqa
            out.append({"file": f["label"], "raw_before": cur, "dim": None, "route": None, "err": f"{type(ex).__name__}: {ex}"[:200]})
            continue
        dt = pf.dtype()
        jobs = []
        routes = list(WHOLE_ROUTES + PART_ROUTES)
        rng.shuffle(routes)
        for j, name in enumerate(names):
            jobs.append((name, routes[j % len(routes)]))
            if ctx.thorough() or rng.random() < 0.35:
                jobs.append((name, rng.choice(WHOLE_ROUTES[:3])))
        for name in ("x", "y", "z"):
            jobs.append((name, rng.choice(["attr", "item", "record", "view[:]", "view[i]", "view[a:b]"])))
        jobs.append(("x", "attr"))
        jobs.append(("xyz", "attr"))
        for (name, route) in jobs:
            whole = route in WHOLE_ROUTES
            if whole:
                sel, idx = None, list(range(n))
            elif route == "view[i]":
                sel = rng.randrange(n)
                idx = [sel]
            elif route == "view[a:b]":
                a = rng.randrange(n)
                b = rng.randrange(a, n + 1)
                sel, idx = slice(a, b), list(range(a, b))
            else:
                mk = np.array([rng.random() < 0.5 for _ in range(n)])
                sel, idx = mk, [i for i in range(n) if mk[i]]
            ed = {"file": f["label"], "raw_before": cur, "dim": name, "route": route, "sel": repr(sel) if not isinstance(sel, np.ndarray) else [bool(x) for x in sel],
                  "off": f["off"], "ps": f["ps"], "n": n}
            try:
                if name in ("x", "y", "z", "xyz"):
                    # scaled: new stored integers, given as the coordinates they stand for
                    raw_names = [name.upper()] if name != "xyz" else ["X", "Y", "Z"]
                    if route == "record.array":
                        continue
                    with laspy.mmap(path) as m0:
                        sc, of = np.array(m0.header.scales), np.array(m0.header.offsets)
                    ints = np.array([[rng.choice([0, 1, -1, 1000, -123456, rng.randrange(-2 ** 20, 2 ** 20)]) for _ in raw_names] for _ in idx],
                                    dtype=np.int64).reshape((len(idx), len(raw_names)))
                    k = "xyz".index(name) if name != "xyz" else None
                    vals = ints * (sc if k is None else sc[k]) + (of if k is None else of[k])
                    values = vals if name == "xyz" else vals[:, 0]
                    if route == "view[i]":
                        values = float(values[0]) if name != "xyz" else values[0]
                    fields = [(dt.fields[r][1], dt.fields[r][0].itemsize) for r in raw_names]
                    ed["value"] = [lasio.f64bits(x) for x in np.ravel(values)]
                    exact = None
                else:
                    comp, foff, width, mask = field_of(pf, name)
                    fdt = dt.fields[comp][0]
                    fields = [(foff, width)]
                    use_array = name in scaled_extra or route == "record.array"
                    if route == "record.array" and mask is not None:
                        continue        # the record array has no sub-field columns
                    if fdt.shape:       # array-valued extra dimension
                        nel = int(np.prod(fdt.shape))
                        values = np.array([[new_value(rng, fdt, None) for _ in range(nel)] for _ in idx], dtype=fdt.base).reshape((len(idx),) + fdt.shape)
                    else:
                        values = np.array([new_value(rng, fdt, mask) for _ in idx], dtype=(fdt if mask is None else np.uint8))
                    exact = {}
                    for t, i in enumerate(idx):
                        p = f["off"] + i * f["ps"] + foff
                        if mask is None:
                            exact[i] = np.asarray(values[t], dtype=fdt.base).tobytes()
                        else:
                            shift = (mask & -mask).bit_length() - 1
                            old = int.from_bytes(cur[p:p + width], "little")
                            exact[i] = ((old & ~mask) | (int(values[t]) << shift)).to_bytes(width, "little")
                    ed["value"] = np.asarray(values).tolist()
                    if route == "view[i]":
                        values = values[0]
                    if name in scaled_extra and route != "record.array":
                        # the stored integers are assigned through the record array (scaled extra dimensions are C11's)
                        route_eff = "record.array" if whole else None
                    else:
                        route_eff = route
                ed["fields"] = fields

                def do(las):
                    if name in ("x", "y", "z", "xyz"):
                        assign(las, route, name, values, sel)
                    elif route_eff is None:
                        las.points.array[name][sel] = values
                    else:
                        assign(las, route_eff, name, values, sel)
                twin = laspy.read(path)
                try:
                    do(twin)
                except Exception as ex:  # noqa: not an assignment laspy accepts on any LasData: nothing to say about the map
                    ctx.count(f"mmap edit route not applicable: {route} ({type(ex).__name__})")
                    continue
                ed["expect_points"] = lasio.rec_bytes(twin.points)
                ed["exact"] = exact
                with laspy.mmap(path) as m:
                    do(m)
                    ed["map_points"] = lasio.rec_bytes(m.points)
                    ed["map_len"] = len(m.points)
                with open(path, "rb") as fh:
                    cur = fh.read()
                ed["raw_after"] = cur
                back = laspy.read(path)
                ed["read_points"] = lasio.rec_bytes(back.points)
                ed["read_snapshot"] = snapshot(back)
            except Exception as ex:  # noqa
                ed["err"] = f"{type(ex).__name__}: {ex}"[:200]
                with open(path, "wb") as fh:       # start again from a clean file
                    fh.write(f["raw"])
                cur = f["raw"]
            out.append(ed)
    return out


# ---------------------------------------------------------------------------------
# model side
# ---------------------------------------------------------------------------------
def caps_of(kind):
    """(can seek, has readinto)"""
    kind = base_kind(kind)
    for lab, sk, ri, hs in DOUBLES:
        if lab == kind:
            return sk, ri
    if kind == PIPE or kind in RAW:
        return False, True
    return True, True


def has_close(kind):
    """False for the bare doubles: no seekable method, no close (opened with closefd=False)"""
    kind = base_kind(kind)
    for lab, sk, ri, hs in DOUBLES:
        if lab == kind:
            return hs
    return True


def tf(b):
    return "T" if b else "F"


def etok(e):
    return "D" if e is None else tf(e)


def parse_model(line):
    """-> dict(ok=..., log=[..], nst=bool, oo=bool) for `via`/`consume`/`open`; dict(ok=...) for mmap/file"""
    parts = line.split(" | ")
    head = parts[0].split(" ")
    out = {}
    if head[0] == "ok":
        a = lasio.parse_assoc(head[1])
        out["ok"] = {"assoc": a, "vlrs": lasio.parse_vlrs(head[2]),
                     "evlrs": None if head[3] == "none" else lasio.parse_vlrs(head[3][5:]),
                     "fmt": int(head[4]), "psize": int(head[5]), "offset": int(head[6]), "count": int(head[7]),
                     "points": common.unhex(head[8]).hex()}
    elif head[0] == "err":
        out["err"] = head[1]
    else:
        out["err"] = "driver:" + line[:80]
    if len(parts) > 1:
        out["log"] = [] if parts[1] == "-" else parts[1].split(",")
        out["nst"] = parts[2] == "T"
        out["oo"] = len(parts) > 3 and parts[3] == "T"
    elif head[0] not in ("ok", "err"):
        out["log"], out["nst"], out["oo"] = ["?"], False, False
    return out


def expected_format(fmt, psize, vlrs):
    """the point format a header shows, from what the MODEL read: the format id, the record size and the VLRs - the extra dimensions
    are those described by the first Extra Bytes record (LASF_Spec / 4, a whole number of 192-byte descriptors) among the VLRs,
    unless the record size leaves no room for extra bytes; bytes that nothing describes are one opaque dimension. Neither the
    EVLRs nor the source take part. None: not a format laspy can build (the implementation's own outcome stands)"""
    import laspy
    from laspy.vlrs.known import ExtraBytesVlr
    from laspy.point import dims
    try:
        pf = laspy.PointFormat(fmt)
        eb = [p for (u, r, d, p) in vlrs if u.split(b"\0")[0] == b"LASF_Spec" and r == 4 and len(p) % 192 == 0]
        if eb and psize != pf.size:
            v = ExtraBytesVlr()
            v.parse_record_data(eb[0])
            for prm in v.type_of_extra_dims():
                pf.add_extra_dimension(prm)
        if psize > pf.size:
            k = psize - pf.size
            pf.dimensions.append(dims.DimensionInfo(name="ExtraBytes", kind=dims.DimensionKind.UnsignedInteger, num_bits=8 * k, num_elements=k,
                                                    is_standard=False, description="Un-registered ExtraBytes"))
        elif psize < pf.size:
            return None
        return repr(lasio.format_key(pf))
    except Exception:  # noqa
        return None


def differs(model, impl, points=True):
    """compares a parsed model result with an implementation observation; returns a description or None"""
    if "err" in model or "err" in impl:
        if model.get("err") != impl.get("err"):
            return "outcome", model.get("err", "ok"), impl.get("err", "ok") + " " + impl.get("msg", "")
        return None
    m, s = model["ok"], impl["ok"]
    for k in HDR_KEYS:
        mv = m["assoc"].get(k, 0 if k not in ("uuid", "system_identifier", "generating_software", "extra_header_bytes", "extra_vlr_bytes") else b"")
        mv = mv.hex() if isinstance(mv, (bytes, bytearray)) else int(mv)
        if mv != s["header"][k]:
            return "header." + k, mv, s["header"][k]
    if m["fmt"] != s["fmt_id"]:
        return "format id", m["fmt"], s["fmt_id"]
    want = expected_format(m["fmt"], m["psize"], m["vlrs"])
    if want is not None and want != s["format"]:
        return "point format (extra dimensions: from the VLRs the model read)", want, s["format"]
    mv = [[u.hex(), r, d.hex(), p.hex()] for (u, r, d, p) in m["vlrs"]]
    if mv != s["vlrs"]:
        return "vlrs", len(mv), len(s["vlrs"])
    me = None if m["evlrs"] is None else [[u.hex(), r, d.hex(), p.hex()] for (u, r, d, p) in m["evlrs"]]
    if me != s["evlrs"]:
        return "evlrs", me if me is None else len(me), s["evlrs"] if s["evlrs"] is None else len(s["evlrs"])
    if points and m["points"] != s["points"]:
        return "records", m["count"], s["count"]
    return None


def log_ok(model, impl_log, both_err):
    # the model reads a whole EVLR header before it reports a user id that is not ASCII; the library stops earlier
    return model["log"][:len(impl_log)] == impl_log if both_err else model["log"] == impl_log


def edit_fields(ed):
    """the bytes each record must hold after the edit in the assigned field(s): [(foff, width, concatenated bytes)]"""
    k, n = ed["ps"], ed["n"]
    out = []
    for (foff, width) in ed["fields"]:
        out.append((foff, width, b"".join(ed["expect_points"][i * k + foff:i * k + foff + width] for i in range(n))))
    return out


def read_exact_py(src, n, into):
    """asks the source again until n bytes are there or a call gives nothing — what Model/Access.v calls read_exact"""
    if into:
        buf = bytearray(n)
        view, got = memoryview(buf), 0
        while got < n:
            k = src.readinto(view[got:])
            if not k:
                break
            got += k
        return bytes(buf[:got])
    out = b""
    while len(out) < n:
        d = src.read(n - len(out))
        if not d:
            break
        out += d
    return out


def short_double_cases(ctx):
    """the short-count doubles of the search are short-count sources of the model: one call, and the loop that asks again,
    on random byte strings: [(model command, what the double did)]"""
    rng = random.Random(ctx.seed * 31 + 5)
    out = []
    for _ in range(ctx.n(150, 1500)):
        raw = bytes(rng.randrange(256) for _ in range(rng.choice([0, 1, 10, 60, 300, 300, 700, 700])))
        pos = rng.choice([0, 0, 1, len(raw) // 2, len(raw), len(raw) + 2])
        n = rng.choice([0, 1, 7, 60, 61, 299, 300, 301, 650, 699, 700, 701, 1000])
        into = rng.random() < 0.5
        policy = rng.choice([p for p in SHORT_POLICIES if p != "k65536"])
        d = ShortDouble(raw, True, True, True, policy, rng.randrange(1000))
        d._b.seek(pos)
        if rng.random() < 0.4:
            data = (lambda b: bytes(b[:d.readinto(b)]))(bytearray(n)) if into else d.read(n)
            cap = d.caps_used[0] if d.caps_used else n
            out.append((f"shortcall {tf(into)} {cap} {n} {pos} {common.hexb(raw)}", (data, d._b.tell(), list(d.log)), policy))
        else:
            data = read_exact_py(d, n, into)
            caps = ",".join(str(c) for c in d.caps_used) or "-"
            out.append((f"exact {tf(into)} {caps} {n} {pos} {common.hexb(raw)}", (data, d._b.tell(), list(d.log)), policy))
    return out


def run_model_par(cmds, k=6):
    """common.run_model on k processes: the driver keeps no state between lines, the commands are cut into k runs of about the
    same number of bytes and the answers put together in order"""
    if len(cmds) < 4 * k:
        return common.run_model(cmds, name=DRIVER)
    total = sum(len(c) for c in cmds)
    parts, cur, acc = [], [], 0
    for c in cmds:
        cur.append(c)
        acc += len(c)
        if acc >= total / k and len(parts) < k - 1:
            parts.append(cur)
            cur, acc = [], 0
    if cur:
        parts.append(cur)
    with ThreadPoolExecutor(max_workers=k) as ex:
        outs = list(ex.map(lambda part: common.run_model(part, name=DRIVER), parts))
    return [line for part in outs for line in part]


def correspond(ctx):
    ctx.extra["rule"] = (
        "files written by laspy for every (version, format) x point counts {0,1,2,7,..} x {no EVLR, 1-3 EVLRs} (1.4), 25% with extra "
        "dimensions, random VLRs/header fields; variants with trailing bytes, with a GAP between the last point and the first EVLR, CUT "
        "inside the point block after a whole number of records, and a malformed stream (cuts inside records/EVLRs/header, point count "
        "up/down, more EVLRs than stored, EVLRs elsewhere, non-ASCII user id, bad signature, empty/short source, offset < 227). Each file is "
        "read through path, pathlib.Path, bytes, BytesIO, buffered and unbuffered file, an OS pipe and six logging doubles (seekable x "
        "readinto, and two that offer read() [+ readinto] and nothing else) x read_evlrs {True, False, not given} x ways of consuming the "
        "reader (nothing, chunk iterators, read_points, mixtures; sampled in the quick tier), observed right after laspy.open, after the "
        "consumption and when everything is read (records kept by the caller and looked at after the last read), through laspy.read, and "
        "through laspy.mmap; every dimension (and x, y, z, xyz) of one file per format is assigned through the map by every route (whole "
        "dimension by attribute / item / record / record array / full slice, element, slice and mask of the view). non-trivial = the file "
        "has points or EVLRs; distinct by (file label, source kind, read_evlrs, plan). In every run 11 (thorough: 36) files in which a record "
        "of a known type sits in the other list (Extra Bytes record as EVLR / twice / in both lists; classification lookup, WKT, GeoTIFF, "
        "waveform descriptor, laszip records as EVLRs, VLRs, both, adjacent), 0-7 points; the point format (every dimension, the dtype) is "
        "part of what is compared; 6 more files per run hold one record of every known type (laszip included) among the VLRs (1.4, older) / "
        "the EVLRs, with no point and with points. The result and the records handed out are then edited (writeable flag, one dimension "
        "of every kind by rotating assignment routes) and compared with the same edits by path. Search only: per run 11 data sets (seeded recipes) "
        "of which one part is just over 8 KiB / 64 KiB / 1 MiB / k * io.DEFAULT_BUFFER_SIZE (point block, header + VLR block, one VLR "
        "payload of up to 65535 bytes, one EVLR payload, the gap between the last point and the first EVLR, 255-300 VLRs or EVLRs) or over 8 MiB (two point blocks per run; 16-64 MiB in "
        "the thorough tier), read in one call and by boundary-crossing chunks through the 13 source kinds, laspy.read and laspy.mmap; and "
        "on every file 2-3 runs (thorough: 20) through short-count sources: the six doubles with read/readinto capped by a policy (1, 7, "
        "227, 4096, 65536 bytes, half, all but one, random, every other call) and a raw pipe / socket fed in random pieces; and 2 (21) runs "
        "through laspy.LasReader(stream) / laspy.open(source, 'r') / with numpy int64 / intp counts and a numpy bool as read_evlrs; and on every file and every size-boundary data set 3 (thorough: 54) runs "
        "plus 1-2 (27) laspy.read through sources WRITTEN IN PYTHON: the doubles with a readinto that stores the bytes by b[:n] = data / "
        "b[:] = data / memoryview(b)[:n] = data / memoryview(b).cast('B')[:n] = data / pieces of 4096 bytes / element by element / "
        "b[:n] = bytearray(data) and returns n (seekable, not seekable, bare), and the read()-only doubles, read() returning bytes or a "
        "bytearray; read whole and by chunks / read_points. 150 (1500) "
        "calls and ask-again loops of the short-count doubles are compared with the model's s_read_short / read_exact")
    obs = observe(ctx)
    cmds, meta = [], []
    for fi, f in enumerate(obs["files"]):
        x = common.hexb(f["raw"])
        opened = set()
        for ri, ((kind, e, plan), _) in enumerate(f["runs"]):
            sk, rinto = caps_of(kind)
            hs = has_close(kind)
            cmds.append(f"via {tf(sk)} {tf(rinto)} {tf(hs)} {etok(e)} {plan_tok(plan)} {x}")
            meta.append(("via", fi, ri))
            if plan:        # nothing consumed: the reader is as laspy.open left it (the `open` line)
                cmds.append(f"consume {tf(sk)} {tf(rinto)} {tf(hs)} {etok(e)} {plan_tok(plan)} {x}")
                meta.append(("consume", fi, ri))
            if (sk, rinto, hs, e) not in opened:        # laspy.open alone: once per capabilities, compared with every run
                opened.add((sk, rinto, hs, e))
                cmds.append(f"open {tf(sk)} {tf(rinto)} {tf(hs)} {etok(e)} {x}")
                meta.append(("open", fi, (sk, rinto, hs, e)))
        for ri, (kind, _) in enumerate(f["reads"]):
            sk, rinto = caps_of(kind)
            cmds.append(f"via {tf(sk)} {tf(rinto)} {tf(has_close(kind))} D - {x}")
            meta.append(("read", fi, ri))
        cmds.append("mmap " + x)
        meta.append(("mmap", fi, None))
    for ei, ed in enumerate(obs["edits"]):
        if "err" in ed:
            continue
        # the edit as whole-dimension assignments of the model: every record gets the bytes the in-memory copy holds
        cur = common.hexb(ed["raw_before"])
        flds = edit_fields(ed)
        cmds.append("setdim " + " ".join([cur, str(ed["off"]), str(ed["ps"]), str(flds[0][0]), str(flds[0][1]), common.hexb(flds[0][2])]))
        meta.append(("setdim", ei, len(flds)))
        cmds.append("file " + common.hexb(ed["raw_after"]))
        meta.append(("file", ei, None))
    shorts = short_double_cases(ctx)
    for si, (cmd, _, _) in enumerate(shorts):
        cmds.append(cmd)
        meta.append(("short", si, None))
    cmds.append("default")
    meta.append(("default", None, None))
    outs = run_model_par(cmds)
    # edits of several fields (xyz): chain the remaining fields on the model's output
    more, more_meta = [], []
    for (what, a, b), line in zip(meta, outs):
        if what == "setdim" and b > 1:
            more_meta.append(a)
    chained = {}
    for ei in more_meta:
        ed = obs["edits"][ei]
        flds = edit_fields(ed)
        cur = outs[[i for i, m in enumerate(meta) if m[0] == "setdim" and m[1] == ei][0]]
        for (foff, width, bs) in flds[1:]:
            cur = common.run_model([f"setdim {cur} {ed['off']} {ed['ps']} {foff} {width} {common.hexb(bs)}"], name=DRIVER)[0]
        chained[ei] = cur
    dis = []

    def add(kind, inp, model, impl):
        if len(dis) < 40:
            dis.append({"kind": kind, "input": inp, "model": model, "impl": impl})
    for (what, a, b), line in zip(meta, outs):
        if what in ("via", "consume", "read"):
            f = obs["files"][a]
            if what == "read":
                kind, impl = f["reads"][b]
                e, plan = None, []
            else:
                (kind, e, plan), impl = f["runs"][b]
            model = parse_model(line)
            ctx.traces += 1
            inp = {"file": f["label"], "class": f["cls"], "kind": kind, "read_evlrs": e, "plan": plan_tok(plan), "file_hex": f["raw"].hex()}
            if what == "via":
                ctx.count("class:" + f["cls"])
                ctx.count("kind:" + kind)
                ctx.count("read_evlrs:" + ("not given" if e is None else str(e)))
                ctx.count("plan:" + ("read() only" if not plan else "+".join(sorted({t for t, _ in plan})).replace("c", "chunk_iterator").replace("p", "read_points")))
                ctx.count("outcome:" + (model.get("err") or "ok"))
                ctx.case((f["label"], kind, e, plan_tok(plan)), nontrivial=(f["n"] > 0 or f["nev"] > 0),
                         sample={"file": f["label"], "kind": kind, "read_evlrs": e, "plan": plan_tok(plan), "model_log": ",".join(model.get("log", []))[:120]})
            if what == "read":
                inp["route"] = "laspy.read"
                ctx.count("route:laspy.read")
            if what == "consume":
                inp["stage"] = "consumed"
                if "consumed" in impl:
                    io_ = {"ok": impl["consumed"]}
                elif "opened" in impl:
                    io_ = {"err": impl.get("err", "?"), "msg": impl.get("msg", "")}
                else:
                    io_ = {"err": impl.get("err", "?"), "msg": impl.get("msg", "")}
                ilog = impl.get("log_consumed", impl.get("log"))
            else:
                io_ = impl
                ilog = impl.get("log")
            d = differs(model, io_)
            small = f["label"].endswith("/small_offset") and kind in ("path", "pathlib", "buffered_file", "unbuffered_file", PIPE) and "err" in model and "err" in io_
            if d and small:
                d = None    # read(n < -1): a file object raises ValueError where BytesIO reads everything; the open fails either way
            if d:
                add(f"{'result' if what != 'consume' else 'before read()'} {d[0]} ({f['cls']})", inp, str(d[1])[:120], str(d[2])[:160])
            if ilog is not None and "log" in model:
                if not log_ok(model, ilog, "err" in model and "err" in io_):
                    add(f"call log{'' if what != 'consume' else ' before read()'} ({f['cls']})", inp, ",".join(model["log"])[:300], ",".join(ilog)[:300])
                sk, _ = caps_of(kind)
                if not sk and not model["nst"]:
                    add("model log of a non-seekable source has seek/tell", inp, ",".join(model["log"])[:300], "")
                if not model["oo"]:
                    add("model log has a call the source does not offer", inp, ",".join(model["log"])[:300], "")
                if what == "via" and not has_close(kind) and impl["asked"] and set(impl["asked"]) - {"readinto", "seekable", "seek", "tell"}:
                    ctx.count("bare source asked for: " + ",".join(sorted(set(impl["asked"]))))
        elif what == "open":
            f = obs["files"][a]
            model = parse_model(line)
            for (kind, e, plan), impl in f["runs"]:
                if caps_of(kind) + (has_close(kind), e) != b:
                    continue
                ctx.traces += 1
                ctx.count("open stage:" + (model.get("err") or ("evlrs " + ("deferred" if model["ok"]["evlrs"] is None else "loaded"))))
                inp = {"file": f["label"], "class": f["cls"], "kind": kind, "read_evlrs": e, "plan": plan_tok(plan), "stage": "opened", "file_hex": f["raw"].hex()}
                io_ = {"ok": impl["opened"]} if "opened" in impl else {"err": impl.get("err", "?"), "msg": impl.get("msg", "")}
                d = differs(model, io_, points=False)
                if d and f["label"].endswith("/small_offset") and kind in ("path", "pathlib", "buffered_file", "unbuffered_file", PIPE) and "err" in model and "err" in io_:
                    d = None
                if d:
                    add(f"just opened: {d[0]} ({f['cls']})", inp, str(d[1])[:120], str(d[2])[:160])
                if "log" in impl:
                    ilog = impl.get("log_open", impl["log"])
                    if not log_ok(model, ilog, "err" in model and "err" in io_):
                        add(f"call log of laspy.open ({f['cls']})", inp, ",".join(model["log"])[:300], ",".join(ilog)[:300])
        elif what == "mmap":
            f = obs["files"][a]
            model = parse_model(line)
            ctx.traces += 1
            ctx.count("kind:mmap")
            ctx.case((f["label"], "mmap"), nontrivial=(f["n"] > 0 or f["nev"] > 0))
            d = differs(model, f["mmap"])
            if d:
                add(f"mmap {d[0]} ({f['cls']})", {"file": f["label"], "class": f["cls"], "kind": "mmap", "file_hex": f["raw"].hex()},
                    str(d[1])[:120], str(d[2])[:160])
        elif what == "setdim":
            ed = obs["edits"][a]
            ctx.traces += 1
            ctx.count("kind:mmap-edit")
            ctx.count("mmap edit route:" + ed["route"])
            ctx.case((ed["file"], "edit", ed["dim"], ed["route"], str(ed["sel"])), nontrivial=True)
            got = chained.get(a, line)
            if got != common.hexb(ed["raw_after"]):
                add("mmap edit: file bytes", {"file": ed["file"], "dim": ed["dim"], "route": ed["route"], "sel": ed["sel"], "value": ed["value"]},
                    got[:80], common.hexb(ed["raw_after"])[:80])
        elif what == "file":
            ed = obs["edits"][a]
            model = parse_model(line)
            ctx.traces += 1
            d = differs(model, {"ok": ed["read_snapshot"]})
            if d:
                add("read after mmap edit: " + d[0], {"file": ed["file"], "dim": ed["dim"], "route": ed["route"]}, str(d[1])[:120], str(d[2])[:120])
        elif what == "short":
            cmd, (data, pos, log), policy = shorts[a]
            ctx.traces += 1
            ctx.count("short-count double vs model: " + cmd.split(" ")[0] + "/" + policy)
            ctx.case(("short", cmd), nontrivial=len(data) > 0)
            parts = line.split(" | ")
            impl = f"{common.hexb(data)} | {pos} | {','.join(log) or '-'}"
            mine = " | ".join(parts[:3])
            if mine != impl:
                add("short-count double: one call" if cmd.startswith("shortcall") else "short-count double: asking again until the bytes are there",
                    {"command": cmd[:300]}, mine[:200], impl[:200])
            elif cmd.startswith("exact") and parts[3:] != ["T"]:
                add("model: asking again differs from the one call of a source that is never short", {"command": cmd[:300]}, line[:200], "")
        elif what == "default":
            ctx.traces += 1
            ctx.extra["default_read_evlrs_in_model"] = line
    return dis


# ---------------------------------------------------------------------------------
# oracle
# ---------------------------------------------------------------------------------
def same_read(ref, got):
    """the property's comparison between two access paths; returns the first differing part or None"""
    if "err" in ref or "err" in got:
        if ref.get("err") != got.get("err"):
            return f"outcome: {ref.get('err', 'ok')} by path, {got.get('err', 'ok')} {got.get('msg', '')}"
        return None
    a, b = ref["ok"], got["ok"]
    for k in ("header", "format", "format_full", "record_format", "vlrs", "evlrs", "vlr_types", "evlr_types", "points", "pscales"):
        if a[k] != b[k]:
            if k in ("vlr_types", "evlr_types"):
                return f"{k[:-6]}s: the records are objects of the classes {b[k]} here, {a[k]} by path (same ids, same bytes)"
            if k == "format":
                return f"format: header.point_format (id, extra dimensions) is {b[k][:400]} here, {a[k][:400]} by path"
            if k in ("format_full", "record_format"):
                return f"format: {'header.point_format' if k == 'format_full' else 'the point format / dtype of the records'} is {b[k][:400]} here, {a[k][:400]} by path"
            if k == "header":
                ks = [x for x in HDR_KEYS if a[k][x] != b[k][x]]
                return f"header fields {ks}"
            if k == "evlrs":
                return f"evlrs: {None if a[k] is None else len(a[k])} by path, {None if b[k] is None else len(b[k])} here"
            if k == "vlrs":
                ids = lambda l: [f"{bytes.fromhex(u).decode('latin-1')}/{r}" for (u, r, dd, p_) in l]
                return f"vlrs: {len(a[k])} by path {ids(a[k])[:10]}, {len(b[k])} here {ids(b[k])[:10]} (or other payloads)"
            if k == "points":
                return f"records: {a['count']} by path, {b['count']} here (or other bytes)"
            return k
    return None


def needs_evlrs(raw):
    """the header announces EVLRs (LAS 1.4+): the only case in which the library has to know whether the source seeks"""
    return len(raw) >= 247 and raw[25] >= 4 and int.from_bytes(raw[243:247], "little") > 0


def src_name(kind):
    if is_py(kind):
        if base_kind(kind) == "double_bare_readinto":
            return "a source that offers only read() and readinto," + py_text(kind).replace(" whose readinto is", " readinto")
        return src_name(base_kind(kind)) + py_text(kind)
    sk, _ = caps_of(kind)
    if not has_close(kind):
        return "a source that offers only read()"
    if base_kind(kind) in RAW:
        return "an unbuffered pipe / socket"
    if kind == PIPE:
        return "a pipe"
    if kind in CREATED:
        return "seekable source made by laspy"
    return "seekable source" if sk else "non-seekable source"


def ln(x):
    return None if x is None else len(x)


def judge(raw, cls, kind, e, plan, ref, ref_same, got):
    """the property on one access path: (kind of failure, what was observed) pairs; `ref` is the whole read by path with
    EVLRs loaded at opening, `ref_same` the run by path with the same read_evlrs and the same plan"""
    sk, _ = caps_of(kind)
    src = src_name(kind)
    out = []
    needs = needs_evlrs(raw)
    arg = "not given" if e is None else e
    # 1. everything read (a gap between the last point and the first EVLR included: a source that cannot seek reads and drops it)
    d = same_read(ref, got)
    if d:
        part = d.split(":")[0].split(" ")[0]
        out.append((f"{part} differ from the path read: {src}, {cls} file", d))
    # 2. what was handed out does not change afterwards
    if "ok" in got:
        if "now" in got and got["now"] != got["ok"]["points"]:
            if got["now"].startswith(("the first", "0 bytes")) or " bytes, as written" in got["now"]:
                k = f"handed out: {got['now']}; once everything is read: {got['ok']['points']}"
            else:
                k = "byte %d of the records differs once everything is read" % (
                    next((i for i in range(0, len(got["now"]), 2) if got["now"][i:i + 2] != got["ok"]["points"][i:i + 2]), 0) // 2)
            out.append((f"records handed out by an earlier read changed when later ones were read: {'source with readinto' if caps_of(kind)[1] else 'source without readinto'}",
                        f"chunks of {str(got.get('chunks'))[:120]} bytes kept by the caller; {k}"))
        if "late" in got and got["late"] != got["ok"]["points"]:
            out.append(("records changed when the reader was closed", "the records of the result differ after leaving the with-block"))
    # 3. just opened, and consumed without read(): the same header; EVLRs as by path, or left for read() when the source
    #    cannot seek to them; the same records handed out
    for stage, title in (("opened", "just opened"), ("consumed", "before read()")):
        if stage not in got or ref_same is None or stage not in ref_same:
            continue
        a, b = ref_same[stage], got[stage]
        bad = False
        for k in ("header", "format", "format_full", "vlrs", "vlr_types"):
            if a[k] != b[k]:
                what = [x for x in HDR_KEYS if a[k][x] != b[k][x]] if k == "header" else k
                if k in ("format", "format_full"):
                    what = f"header.point_format is {b[k][:300]} here, {a[k][:300]} by path"
                    k = "format"
                out.append((f"{title}: {k} differs from the path's: {src}, {cls} file", f"{what}"))
                bad = True
                break
        if bad:
            continue
        want = a["evlrs"] if (sk or not needs) else None
        if b["evlrs"] != want:
            out.append((f"{title}: evlrs differ from the path's: {src}, {cls} file, read_evlrs {'not given' if e is None else 'given'}",
                        f"header.evlrs after open(read_evlrs {arg}) and plan {plan_tok(plan)}: {ln(b['evlrs'])} here, {ln(a['evlrs'])} by path"
                        + ("" if want is a["evlrs"] else " (None expected: left for read())")))
        elif want is not None and b["evlr_types"] != a["evlr_types"]:
            out.append((f"{title}: evlrs differ from the path's (classes of the records): {src}, {cls} file", f"{b['evlr_types']} here, {a['evlr_types']} by path"))
        if stage == "consumed":
            if b["evlrs_attr"] != ln(b["evlrs"]):
                out.append((f"{title}: reader.evlrs is not header.evlrs", f"{b['evlrs_attr']} / {ln(b['evlrs'])}"))
            if a.get("chunk_formats") != b.get("chunk_formats"):
                out.append((f"{title}: point format of the records handed out differs from the path's: {src}, {cls} file",
                            f"plan {plan_tok(plan)}: {str(b.get('chunk_formats'))[:300]} here, {str(a.get('chunk_formats'))[:300]} by path"))
            if a["points"] != b["points"]:
                out.append((f"{title}: records handed out differ from the path's: {src}, {cls} file",
                            f"plan {plan_tok(plan)}: {b['count']} records here, {a['count']} by path (or other bytes)"))
    # 4. what was read can be USED alike: the result of read() and the records handed out may be written to, and the same edits
    #    (one dimension of every kind, by the assignment routes in turn) have the same outcome and give the same records
    if ref_same is not None and "usable" in ref_same and "usable" in got:
        d = usable_diff(ref_same["usable"], got["usable"])
        if d:
            out.append((f"what was read cannot be edited like what is read by path: {src}{'' if caps_of(kind)[1] else ' without readinto'}, {cls} file",
                        f"open(read_evlrs {arg}), plan {plan_tok(plan)}: {d}"))
    return out


def judge_edit(ed):
    """the property on one assignment through the memory map: (kind, observed) pairs"""
    out = []
    how = f"{ed['route']}"
    if "err" in ed:
        return [(f"mmap edit raised ({how}): " + ed["err"].split(":")[0], ed["err"])]
    a, b = ed["raw_before"], ed["raw_after"]
    k, n, off = ed["ps"], ed["n"], ed["off"]
    if len(a) != len(b):
        return [("mmap edit changed the file length", f"{len(a)} -> {len(b)}")]
    if ed["map_len"] != n:
        out.append((f"mmap edit changed the number of records of the map ({how})", f"{ed['map_len']} records, the file has {n}"))
    allowed = set()
    for i in range(n):
        for (foff, width) in ed["fields"]:
            allowed.update(range(off + i * k + foff, off + i * k + foff + width))
    outside = [j for j in range(len(a)) if a[j] != b[j] and j not in allowed]
    if outside:
        out.append((f"mmap edit changed bytes outside the assigned dimension ({how})", f"dimension bytes {ed['fields']} of each record, changed {outside[:8]}"))
    exp = ed["expect_points"]
    if ed["map_points"][:n * k] != exp:
        out.append((f"the memory map does not show the assigned values ({how})", "records of the map differ from those of an in-memory copy after the same assignment"))
    if b[off:off + n * k] != exp:
        j = next(i for i in range(n * k) if b[off + i] != exp[i])
        out.append((f"mmap edit did not reach the file ({how})",
                    f"record {j // k} byte {j % k}: file has {b[off + j]:#04x}, the same assignment on an in-memory copy gives {exp[j]:#04x}"
                    + ("; the map itself shows the new value" if ed["map_points"][:n * k] == exp else "")))
    if ed.get("exact"):
        for i, bs in ed["exact"].items():
            foff, width = ed["fields"][0]
            if b[off + i * k + foff:off + i * k + foff + width] != bs:
                out.append((f"mmap edit did not store the value ({how})", f"record {i}: bytes {b[off + i * k + foff:off + i * k + foff + width].hex()} expected {bs.hex()}"))
                break
    if ed["read_points"] != b[off:off + n * k] or ed["read_points"] != exp:
        out.append((f"mmap edit not visible to a subsequent read ({how})", "laspy.read after the edit shows other records than the assigned ones"))
    return out


def file_input(f, **kw):
    """the part of a failing input that says which file: its bytes, or (data sets of several MiB) the recipe that makes it"""
    d = {"file": f["label"], "class": f["cls"]}
    d.update(kw)
    if "recipe" in f:
        d["recipe"] = f["recipe"]
    else:
        d["file_hex"] = f["raw"].hex()
    return d


def judge_file(ctx, f, add, add_short):
    """the property on everything that was observed on one file"""
    ref = f["ref"]
    head = f.get("head", f.get("raw"))
    sized = "recipe" in f
    full = f["cls"] != "malformed"      # valid, trailing, gap, truncated: the result must not depend on the source
    if full:
        if "err" in ref and f["cls"] not in ("truncated", RELOCATED):    # (a known record in an unusual place may be refused: by every path alike)
            add("a file written by laspy cannot be read by path", file_input(f), ref.get("msg"))
            return
    if full and "ok" in ref:
        t = f["truth"]
        tp = t["points"] if f["cls"] != "truncated" else t["points"][:2 * f["stored"] * f["ps"]]
        te = t["evlrs"] if f["cls"] != "truncated" else ref["ok"]["evlrs"]
        tv = t.get("vlr_list", ref["ok"]["vlrs"])
        if ref["ok"]["points"] != tp or ref["ok"]["evlrs"] != te or len(ref["ok"]["vlrs"]) != t["vlrs"] or ref["ok"]["vlrs"] != tv:
            gone = [f"{bytes.fromhex(u).decode('latin-1')}/{r}" for (u, r, dd, p_) in tv if [u, r, dd, p_] not in ref["ok"]["vlrs"]]
            add("the path read differs from what was written" + (f" ({'no' if f['n'] == 0 else 'some'} points, VLRs)" if gone or len(ref["ok"]["vlrs"]) != t["vlrs"] else ""),
                file_input(f, kind="path"),
                f"records equal: {ref['ok']['points'] == tp} ({ref['ok']['count']} read, {f.get('stored', f['n'])} stored); "
                f"evlrs equal: {ref['ok']['evlrs'] == te}; vlrs {len(ref['ok']['vlrs'])} read, {t['vlrs']} written" + (f"; not read: {gone[:4]}" if gone else ""))
        if f["cls"] != "truncated" and ref["opened"]["evlrs"] != t["evlrs"]:
            add("just opened by path (read_evlrs=True): evlrs differ from what was written",
                file_input(f, kind="path", read_evlrs=True, plan="-", stage="opened"), f"{ref['opened']['evlrs']!r}"[:200])
    ref_same = {}
    for (kind, e, plan), got in f["runs"]:
        if kind == "path":
            ref_same[(e, plan_tok(plan))] = got
    # whatever the file, well formed or not: on a source that can seek, loading the EVLRs when the file is opened or leaving them
    # to read() gives the same outcome (the same function runs, sooner or later); judged on the path, which runs every
    # (read_evlrs, plan)
    for (e, ptok), got in sorted(ref_same.items(), key=repr):
        other = ref_same.get((True, ptok))
        if e is True or other is None:
            continue
        if ("err" in got) != ("err" in other):
            d = f"outcome: {other.get('err', 'ok')} {other.get('msg', '')} with read_evlrs=True, {got.get('err', 'ok')} {got.get('msg', '')} here"
        else:
            d = same_read(other, got)
        if d:
            add(f"by path, {'a malformed' if not full else 'a ' + f['cls']} file: read_evlrs={'not given' if e is None else e} changes what read_evlrs=True gives ({d.split(':')[0].split(' ')[0]})",
                file_input(f, kind="path", read_evlrs=e, plan=ptok, timing=True), d)
    for short, runs in ((False, f["runs"]), (True, f.get("short_runs", [])), (False, f.get("alt_runs", [])), (False, f.get("py_runs", []))):
        for (kind, e, plan), got in runs:
            sk, _ = caps_of(kind)
            inp = file_input(f, kind=kind, read_evlrs=e, plan=plan_tok(plan))
            variant = variant_of(kind)
            put = add_short if short else add
            if variant:
                # every failure of another entry point / of numpy arguments has a kind that starts with what it is
                def put(k, i, w, _t=alt_text(variant)):
                    add_short(_t + ": " + k, i, w, bucket="alt")
            if is_py(kind):
                # a source written in Python: the kind of every failure says so (src_name); they come after the others
                def put(k, i, w, _t=py_text(kind)):
                    add_short(k if "Python" in k else k + " [a source" + _t + "]", i, w, bucket="py")
                ctx.count("python source: " + (PY_SPELLINGS[kind.split("/")[1]] if base_kind(kind) in PY_BASES else "read() only")
                          + ", read() returns " + kind.split("/")[2])
                ctx.count("python source: " + ("whole" if not plan else "by parts"))
            if short or sized or variant or is_py(kind):
                # these runs are not compared with the model: they are counted here
                ctx.count("kind:" + ("short counts/" + base_kind(kind) if short else kind if not is_py(kind) else "python/" + base_kind(kind)) + (" (size boundary)" if sized else ""))
                if short:
                    ctx.count("short counts: " + kind.split("/")[1] + (": no call came back short" if got.get("short_calls") == 0 else ""))
                ctx.case((f["label"], kind, e, plan_tok(plan)), nontrivial=(f["n"] > 0 or f["nev"] > 0))
            if full:
                for (k, why) in judge(head, f["cls"], kind, e, plan, ref, ref_same.get((e, plan_tok(plan))), got):
                    put(k, inp, why)
            elif sk and kind != "path" and not (f["label"].endswith("/small_offset")):
                # a malformed file: every source that can seek must do what the path does, at every stage
                rs = ref_same.get((e, plan_tok(plan)))
                if rs is not None:
                    d = same_read(rs, got)
                    if d:
                        put(f"{d.split(':')[0].split(' ')[0]} differ from the path read: {src_name(kind)}, malformed file", inp, d)
                    elif "usable" in rs and "usable" in got and usable_diff(rs["usable"], got["usable"]):
                        put(f"what was read cannot be edited like what is read by path: {src_name(kind)}{'' if caps_of(kind)[1] else ' without readinto'}, malformed file",
                            inp, usable_diff(rs["usable"], got["usable"]))
            # whatever the file: a source that does not say it can seek is never asked to seek or tell, and a source is
            # only asked for what it offers
            if "log" in got and not sk:
                bad = [t for t in got["log"] if t[0] in "st"] + [a for a in got["asked"] if a in ("seek", "tell")]
                if bad:
                    put(f"non-seekable source asked to seek/tell ({f['cls'] if f['cls'] in ('malformed', 'truncated') else 'valid'} file)", inp,
                        f"calls {bad[:6]} in {got['log'][:12]}; outcome {got.get('err', 'ok')} {got.get('msg', '')}")
            if "asked" in got and not has_close(kind):
                extra = sorted(set(got["asked"]) - {"readinto", "seekable"})
                if extra:
                    put("a source that offers only read() was asked for something else", inp, f"attributes {extra}; outcome {got.get('err', 'ok')} {got.get('msg', '')}")
    if full:
        for kind, got in f["reads"] + f.get("py_reads", []):
            if is_py(kind):
                ctx.count("python source: laspy.read")
            if sized or is_py(kind):
                ctx.count("route:laspy.read (size boundary)")
                ctx.case((f["label"], kind, "laspy.read"), nontrivial=True)
            d = same_read(ref, got)
            if d:
                add(f"laspy.read: {d.split(':')[0].split(' ')[0]} differ from the path read: {src_name(kind)}, {f['cls']} file",
                    file_input(f, kind=kind, route="laspy.read"), d)
            elif "usable" in ref and "usable" in got and usable_diff(ref["usable"], got["usable"]):
                add(f"laspy.read: what was read cannot be edited like what is read by path: {src_name(kind)}{'' if caps_of(kind)[1] else ' without readinto'}, {f['cls']} file",
                    file_input(f, kind=kind, route="laspy.read"), usable_diff(ref["usable"], got["usable"]))
            if "log" in got and not caps_of(kind)[0]:
                bad = [t for t in got["log"] if t[0] in "st"] + [a for a in got["asked"] if a in ("seek", "tell")]
                if bad:
                    add("non-seekable source asked to seek/tell (laspy.read)", file_input(f, kind=kind, route="laspy.read"), f"calls {bad[:6]}")
    if f["cls"] in ("valid", "trailing", "gap", RELOCATED):
        if sized:
            ctx.count("kind:mmap (size boundary)")
            ctx.case((f["label"], "mmap"), nontrivial=True)
        d = same_read(ref, f["mmap"])
        if d:
            add(f"{d.split(':')[0].split(' ')[0]} differ from the path read: mmap, {f['cls']} file", file_input(f, kind="mmap"), d)
        elif "ok" in f["mmap"] and f["mmap"]["ok"]["count"] != f["n"]:
            add("mmap record count differs from the header's", file_input(f, kind="mmap"),
                f"{f['mmap']['ok']['count']} records, header says {f['n']}")


def search(ctx, seeds):
    obs = observe(ctx)
    failing, seen = [], set()
    later = {"alt": [], "short": [], "py": []}

    def add(kind, inp, why):
        if kind not in seen and len(failing) < 8:
            seen.add(kind)
            failing.append({"kind": kind, "input": inp, "observed": why})

    def add_short(kind, inp, why, bucket="short"):
        # every failure on a source that returns short counts has a kind that starts with SHORT_PREFIX (and nothing else has),
        # every failure of another entry point / of numpy arguments one that starts with its name; they come after the others,
        # three of each
        if bucket == "short":
            kind = SHORT_PREFIX + kind
        if kind not in seen and len(later[bucket]) < 3:
            seen.add(kind)
            later[bucket].append({"kind": kind, "input": inp, "observed": why})
    for f in obs["files"]:          # the small files first: the first failing input of a kind is the one that is kept
        judge_file(ctx, f, add, add_short)
    for f in obs["sized"]:
        ctx.count("size boundary: " + f["recipe"]["part"] + " over " + str(f["recipe"]["bound"]))
        judge_file(ctx, f, add, add_short)
    for ed in obs["edits"]:
        inp = {"file": ed["file"], "kind": "mmap-edit", "dim": ed["dim"], "route": ed["route"], "sel": ed.get("sel"), "value": ed.get("value"),
               "file_hex": ed["raw_before"].hex()}
        for (k, why) in judge_edit(ed):
            add(k, inp, why)
    return failing + later["py"] + later["alt"] + later["short"]


def replay_edit(inp):
    """re-does one assignment through laspy.mmap on the file of the failing input"""
    import laspy
    raw = bytes.fromhex(inp["file_hex"])
    tmp = tempfile.mkdtemp(prefix="c17_", dir="/var/tmp")
    try:
        path = os.path.join(tmp, "m.las")
        with open(path, "wb") as fh:
            fh.write(raw)
        name, route = inp["dim"], inp["route"]
        twin = laspy.read(path)
        n = len(twin.points)
        sel = inp.get("sel")
        if isinstance(sel, list):
            sel = np.array(sel)
        elif isinstance(sel, str):
            sel = eval(sel, {"slice": slice, "None": None})      # repr of None / int / slice written by this module
        if name in ("x", "y", "z", "xyz"):
            vals = np.array([lasio.bits_f64(b) for b in inp["value"]])
            values = vals.reshape((-1, 3)) if name == "xyz" else (float(vals[0]) if route == "view[i]" else vals)
        else:
            values = np.array(inp["value"], dtype=twin.points.array.dtype.fields[field_of(twin.point_format, name)[0]][0].base
                              if field_of(twin.point_format, name)[3] is None else np.uint8)
            if route == "view[i]":
                values = values[0]

        def do(las):
            try:
                assign(las, route, name, values, sel)
            except Exception:  # noqa: scaled extra dimension: through the record array
                las.points.array[name][sel] = values
        do(twin)
        with laspy.mmap(path) as m:
            do(m)
        after = open(path, "rb").read()
        back = laspy.read(path)
        off, k = int.from_bytes(raw[96:100], "little"), twin.point_format.size
        bad = []
        if after[off:off + n * k] != lasio.rec_bytes(twin.points):
            bad.append("the file does not hold what the same assignment gives on an in-memory copy")
        if lasio.rec_bytes(back.points) != lasio.rec_bytes(twin.points):
            bad.append("a subsequent laspy.read does not show the assigned values")
        print("REPRODUCED:" if bad else "not reproduced", bad)
        return 1 if bad else 0
    finally:
        shutil.rmtree(tmp, ignore_errors=True)


def parse_plan(tok):
    return [] if tok in (None, "-", "") else [(t[0], int(t[1:])) for t in tok.split(",")]


def replay(ctx, data):
    inp = data.get("failing_input", {}).get("input") or {}
    if ("file_hex" not in inp and "recipe" not in inp) or ("kind" not in inp and "recipe" not in inp):
        print("replay: re-run ./check C17 with the same VERIF_SEED; the failing case is described in the file")
        return 0
    if inp.get("kind") == "mmap-edit":
        return replay_edit(inp)
    enc = hx
    if "recipe" in inp:
        f = make_sized(inp["recipe"])
        raw, enc = f["raw"], truth_enc(f["truth_bytes"])
    else:
        raw = bytes.fromhex(inp["file_hex"])
    kind = inp.get("kind", "path")
    tmp = tempfile.mkdtemp(prefix="c17_", dir="/var/tmp")
    try:
        path = os.path.join(tmp, "f.las")
        with open(path, "wb") as fh:
            fh.write(raw)
        ref = read_through("path", raw, path, True, [], enc=enc)
        bad = []
        if "recipe" in inp:
            if "err" in ref:
                bad.append("by path: " + ref.get("msg", ref["err"]))
            elif ref["ok"]["points"] != enc(f["truth_bytes"]) or ref["ok"]["evlrs"] != f["truth"]["evlrs"]:
                bad.append("the path read differs from what was written: " + ref["ok"]["points"])
        if kind == "mmap":
            got = read_mmap(path, enc=enc)
            bad += [d for d in [same_read(ref, got)] if d]
        elif inp.get("route") == "laspy.read":
            got = read_through(kind, raw, path, None, [], route="read", enc=enc)
            bad += [d for d in [same_read(ref, got)] if d]
            if "usable" in ref and "usable" in got:
                bad += [d for d in [usable_diff(ref["usable"], got["usable"])] if d]
        else:
            e, plan = inp.get("read_evlrs", True), parse_plan(inp.get("plan"))
            got = read_through(kind, raw, path, e, plan, enc=enc)
            ref_same = read_through("path", raw, path, e, plan, enc=enc)
            if inp.get("timing"):
                other = read_through(kind, raw, path, True, plan, enc=enc)
                if ("err" in got) != ("err" in other):
                    bad.append(f"outcome: {other.get('err', 'ok')} with read_evlrs=True, {got.get('err', 'ok')} {got.get('msg', '')} with {e}")
                else:
                    bad += [d for d in [same_read(other, got)] if d]
            elif inp.get("class") == "malformed":
                bad += [d for d in [same_read(ref_same, got)] if d] if caps_of(kind)[0] else []
                if caps_of(kind)[0] and "usable" in ref_same and "usable" in got:
                    bad += [d for d in [usable_diff(ref_same["usable"], got["usable"])] if d]
            else:
                bad += judge(raw[:400], inp.get("class", "valid"), kind, e, plan, ref, ref_same, got)
            if not caps_of(kind)[0]:
                bad += [t for t in got.get("log", []) if t[0] in "st"] + [a for a in got.get("asked", []) if a in ("seek", "tell")]
            if not has_close(kind):
                bad += sorted(set(got.get("asked", [])) - {"readinto", "seekable"})
        print("REPRODUCED:" if bad else "not reproduced", str(bad)[:1500], str(got.get("log"))[:400])
        return 1 if bad else 0
    finally:
        shutil.rmtree(tmp, ignore_errors=True)
