"""C17 — the access path does not change what is read.
Model: coq/Model/Access.v (`read_via caps read_evlrs chunk bytes` -> result + call log, `read_mmap`, `mmap_set`).
Correspondence: the extracted model and laspy on the same bytes: result (header fields, VLRs, EVLRs, records) for ten
source kinds x read_evlrs x whole/chunked reading, the header shown right after laspy.open (before anything is read), and
the exact sequence of stream methods called on the logging doubles (two of which offer read() and NOTHING else: no
seekable, no close); memory map: result, and the file bytes after every edit. A malformed stream (truncations, gaps read
sequentially, misplaced/over-counted EVLRs, bad signatures) is compared too.
Search (no model): every access path against laspy.read(path), at two moments (just opened / everything read); the chunks
of a chunked read are KEPT and looked at only after the last read (and the result once more after the reader is closed):
records handed out earlier must not change; logs of non-seekable doubles; memory-map edits by byte diff."""
import io
import os
import shutil
import struct
import tempfile

import numpy as np

from harness import common, lasio

DRIVER = "c17"
ASSUMPTIONS = [
    "uncompressed point data (no LAZ backend is installed; compressed sources are outside the model)",
    "a source's read(n) returns all n bytes when they exist (short reads only at the end of the data), as files, BytesIO and the doubles do",
    "a source that offers only read() (no seekable method, no close) is opened with closefd=False; for a LAS 1.4 file that announces EVLRs the "
    "library has to ask seekable(): such a source then raises AttributeError, at opening or in read() (modelled: C17_bare_source_needs_seekable; "
    "accepted by the oracle, counted in input_distribution) - every other file must read through it exactly as by path",
    "the memory map is written back by mmap.close() (OS write-back of a shared mapping is not modelled)",
    "independence is proved for files whose points are all present and, for non-seekable sources, whose first EVLR starts right after the "
    "last point (C17_written_files_are_laid_out: every file the writer model produces); other files are only compared model vs implementation",
]

# (label, seekable() answers, has readinto, has a seekable method (and close) at all)
DOUBLES = [("double_read_only", False, False, True), ("double_nonseekable_readinto", False, True, True),
           ("double_no_readinto", True, False, True), ("double_full", True, True, True),
           ("double_bare", False, False, False), ("double_bare_readinto", False, True, False)]
REAL = ["path", "bytes", "BytesIO", "buffered_file"]


class Double:
    """A stream double over a byte string. It has read; seekable and close unless it is `bare` (a stream that offers
    only read(): it is then opened with closefd=False); readinto and seek/tell only when the capability is given.
    Every method called is logged, and so is every other attribute the library asks for."""

    def __init__(self, raw, seekable, readinto, has_seekable=True):
        self._b = io.BytesIO(raw)
        self._sk = seekable and has_seekable
        self._ri = readinto
        self._hs = has_seekable
        self.log = []
        self.asked = []

    def read(self, n=-1):
        self.log.append("r%d" % n)
        return self._b.read(n)

    def _seekable(self):
        self.log.append("k")
        return self._sk

    def _close(self):
        pass

    def _readinto(self, buf):
        self.log.append("i%d" % len(buf))
        return self._b.readinto(buf)

    def _seek(self, pos, whence=0):
        self.log.append("s%d" % pos if whence == 0 else "s%d/%d" % (pos, whence))
        return self._b.seek(pos, whence)

    def _tell(self):
        self.log.append("t")
        return self._b.tell()

    def __getattr__(self, name):
        if name == "seekable" and self._hs:
            return self._seekable
        if name == "close" and self._hs:
            return self._close
        if name == "readinto" and self._ri:
            return self._readinto
        if name == "seek" and self._sk:
            return self._seek
        if name == "tell" and self._sk:
            return self._tell
        if not name.startswith("__"):
            self.asked.append(name)
        raise AttributeError(name)


# ---------------------------------------------------------------------------------
# observations
# ---------------------------------------------------------------------------------
HDR_KEYS = ["file_source_id", "global_encoding", "uuid", "version.major", "version.minor", "system_identifier",
            "generating_software", "offset_to_point_data", "point_size", "point_count", "start_of_waveform",
            "start_of_first_evlr", "number_of_evlrs", "extra_header_bytes", "extra_vlr_bytes"] + lasio.BY_RET + \
           [f"{nm}[{i}]" for nm in ("scales", "offsets", "maxs", "mins") for i in range(3)]


def hx(b):
    return bytes(b).hex()


def snapshot_header(h):
    """the header part of a snapshot (also what a reader shows before anything is read)"""
    d = lasio.header_assoc(h)
    hd = {k: (hx(d[k]) if isinstance(d[k], (bytes, bytearray)) else int(d[k])) for k in HDR_KEYS}
    if h.version.minor < 4:
        hd["start_of_first_evlr"] = hd["number_of_evlrs"] = 0
    if h.version.minor < 3:
        hd["start_of_waveform"] = 0
    return {"header": hd, "format": repr(lasio.format_key(h.point_format)), "fmt_id": h.point_format.id,
            "vlrs": [[hx(u), r, hx(dd), hx(p)] for (u, r, dd, p) in map(lasio.vlr_tuple, h.vlrs)],
            "evlrs": None if h.evlrs is None else [[hx(u), r, hx(dd), hx(p)] for (u, r, dd, p) in map(lasio.vlr_tuple, h.evlrs)]}


def snapshot(las, extra_points=b""):
    """everything the property compares, JSON-able"""
    h = las.header
    out = snapshot_header(h)
    pts = extra_points + lasio.rec_bytes(las.points)
    out.update({
            "vlrs": [[hx(u), r, hx(dd), hx(p)] for (u, r, dd, p) in map(lasio.vlr_tuple, las.vlrs)],
            "evlrs": None if las.evlrs is None else [[hx(u), r, hx(dd), hx(p)] for (u, r, dd, p) in map(lasio.vlr_tuple, las.evlrs)],
            "points": hx(pts), "count": len(pts) // max(1, h.point_format.size),
            "pscales": [lasio.f64bits(x) for x in getattr(las.points, "scales", [])] + [lasio.f64bits(x) for x in getattr(las.points, "offsets", [])]})
    return out


def make_source(kind, raw, path):
    """returns (source object, double or None, closer)"""
    if kind == "path":
        return path, None, None
    if kind == "bytes":
        return raw, None, None
    if kind == "BytesIO":
        return io.BytesIO(raw), None, None
    if kind == "buffered_file":
        f = open(path, "rb")
        return f, None, f
    for lab, sk, ri, hs in DOUBLES:
        if lab == kind:
            d = Double(raw, sk, ri, hs)
            return d, d, None
    raise ValueError(kind)


def read_through(kind, raw, path, read_evlrs, chunk):
    """laspy.open(source, read_evlrs=..) then read() (chunk None) or iterate by `chunk` points and then read().
    The chunks are kept as the caller got them and turned into bytes only after read() (`ok`), next to the bytes each had
    when it was handed out (`now`); the records of the result are looked at again after the reader is closed (`late`).
    returns {"opened": header snapshot right after open, "ok": snapshot} or {"err": kind}, plus the double's log"""
    import laspy
    src, dbl, closer = make_source(kind, raw, path)
    out = {}
    las = None
    try:
        kw = {} if has_close(kind) else {"closefd": False}
        with laspy.open(src, read_evlrs=read_evlrs, **kw) as rd:
            out["opened"] = snapshot_header(rd.header)
            if dbl is not None:
                out["log_open"] = list(dbl.log)
            kept, now = [], []
            if chunk is not None:
                for pts in rd.chunk_iterator(chunk):
                    kept.append(pts)
                    now.append(lasio.rec_bytes(pts))
            las = rd.read()
            pre = b"".join(lasio.rec_bytes(p) for p in kept)
            out["ok"] = snapshot(las, pre)
            if kept:
                out["now"] = hx(b"".join(now) + lasio.rec_bytes(las.points))
                out["chunks"] = [len(x) for x in now]
        out["late"] = hx(pre + lasio.rec_bytes(las.points))
    except Exception as ex:  # noqa
        out.pop("ok", None)
        out["err"] = common.exc_kind(ex)
        out["msg"] = f"{type(ex).__name__}: {ex}"[:200]
        if out["err"] == "EOther:AttributeError" and "seekable" in out["msg"] and not has_close(kind):
            out["err"] = "EOther"       # the model's name for: a source without a seekable method was asked
    finally:
        if closer is not None:
            closer.close()
    if dbl is not None:
        out["log"] = list(dbl.log)
        out["asked"] = list(dbl.asked)
    return out


def read_mmap(path):
    import laspy
    try:
        with laspy.mmap(path) as m:
            return {"ok": snapshot(m)}
    except Exception as ex:  # noqa
        return {"err": common.exc_kind(ex), "msg": f"{type(ex).__name__}: {ex}"[:200]}


# ---------------------------------------------------------------------------------
# files
# ---------------------------------------------------------------------------------
def patch_u(raw, pos, width, value):
    return raw[:pos] + int(value).to_bytes(width, "little") + raw[pos + width:]


def evaluable(raw):
    """False when reading `raw` asks a stream for 2^20 bytes or more at once (an EVLR length read from garbage): the
    extracted model counts bytes in unary and cannot follow; such candidates are not generated"""
    import laspy
    if len(raw) >= 247 and raw[25] >= 4:
        # the seek-based chain, whatever the user ids are (the model decodes a record header whole)
        p, k = int.from_bytes(raw[235:243], "little"), int.from_bytes(raw[243:247], "little")
        if p >= 1 << 20:
            return False
        while k > 0 and p < len(raw):
            ln = int.from_bytes(raw[p + 20:p + 28], "little")
            if ln >= 1 << 20:
                return False
            p, k = p + 60 + ln, k - 1
    for sk in (True, False):
        d = Double(raw, sk, False)
        try:
            with laspy.open(d, read_evlrs=True) as rd:
                rd.read()
        except Exception:  # noqa
            pass
        if any(t[0] in "ris" and abs(int(t[1:].split("/")[0])) >= 1 << 20 for t in d.log):
            return False
    return True


def make_files(ctx):
    """valid files: every (version, format) x point counts x +-EVLRs (+ extra dimensions, + trailing bytes); then the
    same with a GAP between the last point and the first EVLR; then a malformed stream."""
    import laspy
    rng = ctx.rng
    files = []
    pairs = [(v, f) for v in lasio.VERSIONS for f in lasio.COMPAT[v]]
    counts_all = [0, 1, 2, 7] if not ctx.thorough() else [0, 1, 2, 3, 7, 33]
    for (version, fmt) in pairs:
        counts = counts_all if ctx.thorough() else [0, rng.choice([1, 2]), rng.choice([2, 7])]
        for n in counts:
            evl_opts = [0]
            if version == "1.4":
                evl_opts = [0, rng.choice([1, 2, 3])] if not ctx.thorough() else [0, 1, 3]
            for nev in evl_opts:
                h = lasio.rand_header(rng, version=version, fmt=fmt, nvlrs=rng.choice([0, 1, 2]))
                if rng.random() < 0.25:
                    lasio.add_extra_dims(rng, h, k=rng.choice([1, 2]))
                pts = lasio.rand_points(rng, h, n)
                evl = laspy.vlrs.vlrlist.VLRList([lasio.rand_vlr(rng, max_payload=rng.choice([0, 5, 120])) for _ in range(nev)])
                raw = lasio.write_las(h, pts, evl)
                ps = h.point_format.size
                off = int.from_bytes(raw[96:100], "little")
                base = {"version": version, "fmt": fmt, "n": n, "nev": nev, "ps": ps, "off": off,
                        "extra_dims": len(list(h.point_format.extra_dimensions)),
                        "truth": {"points": hx(lasio.rec_bytes(pts)), "vlrs": len(h.vlrs),
                                  "evlrs": None if version != "1.4" else [[hx(u), r, hx(dd), hx(p)] for (u, r, dd, p) in map(lasio.vlr_tuple, evl)]}}
                files.append(dict(base, cls="valid", raw=raw, label=f"{version}/fmt{fmt}/n{n}/evlrs{nev}/valid"))
                if rng.random() < 0.3:
                    files.append(dict(base, cls="trailing", raw=raw + bytes(rng.randrange(256) for _ in range(rng.choice([1, 7, ps]))),
                                      label=f"{version}/fmt{fmt}/n{n}/evlrs{nev}/trailing"))
                if nev:
                    g = rng.choice([1, 2, ps, 61])
                    start = off + n * ps
                    gap = raw[:start] + bytes(rng.randrange(256) for _ in range(g)) + raw[start:]
                    gap = patch_u(gap, 235, 8, start + g)
                    if evaluable(gap):
                        files.append(dict(base, cls="gap", raw=gap, label=f"{version}/fmt{fmt}/n{n}/evlrs{nev}/gap{g}"))
    # malformed stream (model vs implementation only)
    valid = [f for f in files if f["cls"] == "valid"]
    for _ in range(ctx.n(60, 600)):
        f = rng.choice(valid)
        raw, off, ps, n, nev = f["raw"], f["off"], f["ps"], f["n"], f["nev"]
        how = rng.choice(["cut_points", "cut_record", "cut_evlr", "cut_header", "count_up", "count_down", "evlr_more", "evlr_elsewhere",
                          "evlr_non_ascii", "bad_signature", "empty", "short", "small_offset", "evlr_count_on_empty"])
        bad = None
        if how == "cut_points" and n:
            bad = raw[:off + rng.randrange(0, n) * ps]
        elif how == "cut_record" and n:
            bad = raw[:off + rng.randrange(0, n) * ps + rng.randrange(1, ps)]
        elif how == "cut_evlr" and nev:
            bad = raw[:off + n * ps + rng.randrange(0, len(raw) - off - n * ps)]
        elif how == "cut_header":
            bad = raw[:rng.choice([1, 3, 4, 100, 226, 227, 228, max(228, off - 1)])]
        elif how == "count_up":
            pos, w = (247, 8) if f["version"] == "1.4" else (107, 4)
            bad = patch_u(raw, pos, w, n + rng.choice([1, 2, 50]))
        elif how == "count_down" and n:
            pos, w = (247, 8) if f["version"] == "1.4" else (107, 4)
            bad = patch_u(raw, pos, w, rng.randrange(0, n))
        elif how == "evlr_more" and f["version"] == "1.4":
            bad = patch_u(raw, 243, 4, nev + rng.choice([1, 2]))
            if not nev:
                bad = patch_u(bad, 235, 8, rng.choice([off + n * ps, off, len(raw) + 3]))
        elif how == "evlr_elsewhere" and nev:
            bad = patch_u(raw, 235, 8, rng.choice([0, off, off + n * ps + 1, len(raw), len(raw) + 5, max(0, off + n * ps - 1)]))
        elif how == "evlr_non_ascii" and nev:
            p = off + n * ps + 2 + rng.randrange(0, 3)
            bad = raw[:p] + bytes([rng.choice([0x80, 0xFF, 0xC3])]) + raw[p + 1:]
        elif how == "bad_signature":
            bad = rng.choice([b"LASX", b"lasf", b"\0\0\0\0"]) + raw[4:]
        elif how == "empty":
            bad = b""
        elif how == "short":
            bad = raw[:rng.choice([2, 4, 50])]
        elif how == "small_offset":
            bad = patch_u(raw, 96, 4, rng.choice([0, 1, 100, 226]))
        elif how == "evlr_count_on_empty" and f["version"] == "1.4" and not nev:
            bad = patch_u(patch_u(raw, 243, 4, 1), 235, 8, off + n * ps)
        if bad is None or not evaluable(bad):
            continue
        files.append(dict(f, cls="malformed", raw=bad, label=f["label"].rsplit("/", 1)[0] + "/" + how))
    return files


def configs(ctx, f):
    """(kind, read_evlrs, chunk) to run on file f"""
    rng = ctx.rng
    n = f["n"]
    chunks = [None, rng.choice([1, 2, 3, max(1, n), n + 5])]
    if ctx.thorough():
        chunks = [None, 1, 2, max(1, n), n + 5]
    kinds = REAL + [d[0] for d in DOUBLES]
    if f["cls"] == "malformed" and not ctx.thorough():
        kinds = [d[0] for d in DOUBLES] + [rng.choice(REAL)]
    out = []
    for kind in kinds:
        for e in (True, False):
            for c in chunks:
                out.append((kind, e, c))
    return out


_OBS = None


def observe(ctx):
    """run the implementation once; shared by correspond and search"""
    global _OBS
    if _OBS is not None:
        return _OBS
    import laspy
    tmp = tempfile.mkdtemp(prefix="c17_", dir="/var/tmp")
    obs = {"files": [], "edits": []}
    try:
        files = make_files(ctx)
        path = os.path.join(tmp, "f.las")
        for f in files:
            with open(path, "wb") as fh:
                fh.write(f["raw"])
            rec = dict(f, runs=[])
            rec["ref"] = read_through("path", f["raw"], path, True, None)
            for (kind, e, c) in configs(ctx, f):
                rec["runs"].append(((kind, e, c), read_through(kind, f["raw"], path, e, c)))
            rec["mmap"] = read_mmap(path)
            obs["files"].append(rec)
        obs["edits"] = observe_edits(ctx, files, tmp)
    finally:
        shutil.rmtree(tmp, ignore_errors=True)
    _OBS = obs
    return obs


# ---------------------------------------------------------------------------------
# memory map edits
# ---------------------------------------------------------------------------------
def field_of(pf, name):
    """(field name in the record dtype, byte offset in the record, byte width, mask or None)"""
    from laspy.point import dims
    dt = pf.dtype()
    if name in dt.fields:
        fdt, off = dt.fields[name][0], dt.fields[name][1]
        return name, off, fdt.itemsize, None
    for comp, subs in dims.COMPOSED_FIELDS[pf.id].items():
        for s in subs:
            if s.name == name:
                fdt, off = dt.fields[comp][0], dt.fields[comp][1]
                return comp, off, fdt.itemsize, int(s.mask)
    raise KeyError(name)


def new_value(rng, fdt, mask):
    """a value for one element, and whether it is a float"""
    if mask is not None:
        shift = (mask & -mask).bit_length() - 1
        return rng.randrange(0, (mask >> shift) + 1)
    base = fdt.base
    if base.kind == "f":
        return rng.choice([0.0, -1.5, 1e10, 3.25, rng.uniform(-1e6, 1e6)])
    info = np.iinfo(base)
    return rng.choice([info.min, info.max, 0, 1, rng.randrange(info.min, info.max + 1)])


def observe_edits(ctx, files, tmp):
    """for one file per (version, format) with points: assign every dimension through laspy.mmap, one session per
    assignment; record the bytes before/after, and what laspy.read shows afterwards"""
    import laspy
    rng = ctx.rng
    out = []
    seen = set()
    cand = [f for f in files if f["cls"] in ("valid", "trailing") and f["n"] >= 1]
    rng.shuffle(cand)
    cand.sort(key=lambda f: -f["nev"])     # files with EVLR bytes after the points first
    for f in cand:
        key = (f["version"], f["fmt"]) if not ctx.thorough() else (f["version"], f["fmt"], f["n"], f["nev"], f["extra_dims"] > 0)
        if key in seen and not (f["extra_dims"] and ("x", key) not in seen):
            continue
        seen.add(key)
        if f["extra_dims"]:
            seen.add(("x", key))
        path = os.path.join(tmp, "m.las")
        with open(path, "wb") as fh:
            fh.write(f["raw"])
        cur = f["raw"]
        try:
            with laspy.mmap(path) as m:
                names = list(m.point_format.dimension_names)
                pf = m.point_format
                scaled_extra = {d.name for d in pf.extra_dimensions if d.scales is not None or d.offsets is not None}
        except Exception as ex:  # noqa
            out.append({"file": f["label"], "raw_before": cur, "dim": None, "i": None, "err": f"{type(ex).__name__}: {ex}"[:200]})
            continue
        for name in names:
            comp, foff, width, mask = field_of(pf, name)
            fdt = pf.dtype().fields[comp][0]
            i = rng.randrange(f["n"])
            ed = {"file": f["label"], "raw_before": cur, "dim": name, "i": i, "off": f["off"], "ps": f["ps"], "foff": foff, "width": width,
                  "mask": mask, "n": f["n"], "scaled": name in scaled_extra}
            try:
                with laspy.mmap(path) as m:
                    if fdt.shape:       # array-valued extra dimension
                        val = [new_value(rng, fdt, None) for _ in range(int(np.prod(fdt.shape)))]
                        arr = np.array(val, dtype=fdt.base).reshape(fdt.shape)
                        if name in scaled_extra:
                            m.points.array[name][i] = arr
                        else:
                            m[name][i] = arr
                        ed["expect"] = arr.tobytes()
                    else:
                        val = new_value(rng, fdt, mask)
                        if name in scaled_extra:
                            m.points.array[name][i] = val
                        else:
                            m[name][i] = val
                        if mask is None:
                            ed["expect"] = np.array(val, dtype=fdt).tobytes()
                        else:
                            shift = (mask & -mask).bit_length() - 1
                            p = f["off"] + i * f["ps"] + foff
                            old = int.from_bytes(cur[p:p + width], "little")
                            ed["expect"] = ((old & ~mask) | (val << shift)).to_bytes(width, "little")
                    ed["value"] = val if not isinstance(val, list) else list(val)
                with open(path, "rb") as fh:
                    cur = fh.read()
                ed["raw_after"] = cur
                back = laspy.read(path)
                ed["read_points"] = lasio.rec_bytes(back.points)
                got = back.points.array[comp][i]
                ed["read_field"] = np.asarray(got).tobytes()
                ed["read_snapshot"] = snapshot(back)
                if mask is not None:
                    ed["read_sub"] = int(np.asarray(back[name])[i])
            except Exception as ex:  # noqa
                ed["err"] = f"{type(ex).__name__}: {ex}"[:200]
            out.append(ed)
    return out


# ---------------------------------------------------------------------------------
# model side
# ---------------------------------------------------------------------------------
def caps_of(kind):
    """(can seek, has readinto)"""
    for lab, sk, ri, hs in DOUBLES:
        if lab == kind:
            return sk, ri
    return True, True


def has_close(kind):
    """False for the bare doubles: no seekable method, no close (opened with closefd=False)"""
    for lab, sk, ri, hs in DOUBLES:
        if lab == kind:
            return hs
    return True


def tf(b):
    return "T" if b else "F"


def parse_model(line):
    """-> dict(ok=..., log=[..], nst=bool) for `via`; dict(ok=...) for mmap/file"""
    parts = line.split(" | ")
    head = parts[0].split(" ")
    out = {}
    if head[0] == "ok":
        a = lasio.parse_assoc(head[1])
        out["ok"] = {"assoc": a, "vlrs": lasio.parse_vlrs(head[2]),
                     "evlrs": None if head[3] == "none" else lasio.parse_vlrs(head[3][5:]),
                     "fmt": int(head[4]), "psize": int(head[5]), "offset": int(head[6]), "count": int(head[7]),
                     "points": common.unhex(head[8]).hex()}
    elif head[0] == "err":
        out["err"] = head[1]
    else:
        out["err"] = "driver:" + line[:80]
    if len(parts) > 1:
        out["log"] = [] if parts[1] == "-" else parts[1].split(",")
        out["nst"] = parts[2] == "T"
    elif head[0] not in ("ok", "err"):
        out["log"], out["nst"] = ["?"], False
    return out


def differs(model, impl, points=True):
    """compares a parsed model result with an implementation observation; returns a description or None"""
    if "err" in model or "err" in impl:
        if model.get("err") != impl.get("err"):
            return "outcome", model.get("err", "ok"), impl.get("err", "ok") + " " + impl.get("msg", "")
        return None
    m, s = model["ok"], impl["ok"]
    for k in HDR_KEYS:
        mv = m["assoc"].get(k, 0 if k not in ("uuid", "system_identifier", "generating_software", "extra_header_bytes", "extra_vlr_bytes") else b"")
        mv = mv.hex() if isinstance(mv, (bytes, bytearray)) else int(mv)
        if mv != s["header"][k]:
            return "header." + k, mv, s["header"][k]
    if m["fmt"] != s["fmt_id"]:
        return "format id", m["fmt"], s["fmt_id"]
    mv = [[u.hex(), r, d.hex(), p.hex()] for (u, r, d, p) in m["vlrs"]]
    if mv != s["vlrs"]:
        return "vlrs", len(mv), len(s["vlrs"])
    me = None if m["evlrs"] is None else [[u.hex(), r, d.hex(), p.hex()] for (u, r, d, p) in m["evlrs"]]
    if me != s["evlrs"]:
        return "evlrs", me if me is None else len(me), s["evlrs"] if s["evlrs"] is None else len(s["evlrs"])
    if points and m["points"] != s["points"]:
        return "records", m["count"], s["count"]
    return None


def correspond(ctx):
    ctx.extra["rule"] = (
        "files written by laspy for every (version, format) x point counts {0,1,2,7,..} x {no EVLR, 1-3 EVLRs} (1.4), 25% with extra "
        "dimensions, random VLRs/header fields; variants with trailing bytes, with a GAP between the last point and the first EVLR, and a "
        "malformed stream (cuts inside points/records/EVLRs/header, point count up/down, more EVLRs than stored, EVLRs elsewhere, non-ASCII "
        "user id, bad signature, empty/short source, offset < 227). Each file is read through path, bytes, BytesIO, buffered file and six "
        "logging doubles (seekable x readinto, and two that offer read() [+ readinto] and nothing else) x read_evlrs x {read(), chunk iterator "
        "+ read()}, observed right after laspy.open and when everything is read (chunks kept by the caller and looked at after the last read), "
        "and through laspy.mmap; every dimension of one file per format is assigned through the map. non-trivial = the file has points or EVLRs; distinct by (file label, source kind, "
        "read_evlrs, chunk size)")
    obs = observe(ctx)
    cmds, meta = [], []
    for fi, f in enumerate(obs["files"]):
        x = common.hexb(f["raw"])
        opened = set()
        for ri, ((kind, e, c), _) in enumerate(f["runs"]):
            sk, rinto = caps_of(kind)
            hs = has_close(kind)
            cmds.append(f"via {tf(sk)} {tf(rinto)} {tf(hs)} {tf(e)} {'-' if c is None else c} {x}")
            meta.append(("via", fi, ri))
            if (sk, rinto, hs, e) not in opened:        # laspy.open alone: once per capabilities, compared with every run
                opened.add((sk, rinto, hs, e))
                cmds.append(f"open {tf(sk)} {tf(rinto)} {tf(hs)} {tf(e)} {x}")
                meta.append(("open", fi, (sk, rinto, hs, e)))
        cmds.append("mmap " + x)
        meta.append(("mmap", fi, None))
    for ei, ed in enumerate(obs["edits"]):
        if "err" in ed:
            continue
        cmds.append(f"set {common.hexb(ed['raw_before'])} {ed['off']} {ed['ps']} {ed['i']} {ed['foff']} {common.hexb(ed['expect'])}")
        meta.append(("set", ei, None))
        cmds.append("file " + common.hexb(ed["raw_after"]))
        meta.append(("file", ei, None))
    outs = common.run_model(cmds, name=DRIVER)
    dis = []

    def add(kind, inp, model, impl):
        if len(dis) < 40:
            dis.append({"kind": kind, "input": inp, "model": model, "impl": impl})
    for (what, a, b), line in zip(meta, outs):
        if what == "via":
            f = obs["files"][a]
            (kind, e, c), impl = f["runs"][b]
            model = parse_model(line)
            ctx.traces += 1
            ctx.count("class:" + f["cls"])
            ctx.count("kind:" + kind)
            ctx.count("outcome:" + (model.get("err") or "ok"))
            ctx.case((f["label"], kind, e, c), nontrivial=(f["n"] > 0 or f["nev"] > 0),
                     sample={"file": f["label"], "kind": kind, "read_evlrs": e, "chunk": c, "model_log": ",".join(model.get("log", []))[:120]})
            inp = {"file": f["label"], "class": f["cls"], "kind": kind, "read_evlrs": e, "chunk": c, "file_hex": f["raw"].hex()}
            d = differs(model, impl)
            if d and f["label"].endswith("/small_offset") and kind in ("path", "buffered_file") and "err" in model and "err" in impl:
                d = None    # read(n < -1): a buffered file raises ValueError where BytesIO reads everything; the open fails either way
            if d:
                add(f"result {d[0]} ({f['cls']})", inp, str(d[1])[:120], str(d[2])[:160])
            if "log" in impl:
                if "err" in model and "err" in impl:
                    # the model reads a whole EVLR header before it reports a user id that is not ASCII; the library stops earlier
                    ok = model["log"][:len(impl["log"])] == impl["log"]
                else:
                    ok = model["log"] == impl["log"]
                if not ok:
                    add(f"call log ({f['cls']})", inp, ",".join(model["log"])[:300], ",".join(impl["log"])[:300])
                sk, _ = caps_of(kind)
                if not sk and not model["nst"]:
                    add("model log of a non-seekable source has seek/tell", inp, ",".join(model["log"])[:300], "")
                if not has_close(kind) and impl["asked"] and set(impl["asked"]) - {"readinto", "seekable", "seek", "tell"}:
                    ctx.count("bare source asked for: " + ",".join(sorted(set(impl["asked"]))))
        elif what == "open":
            f = obs["files"][a]
            model = parse_model(line)
            for (kind, e, c), impl in f["runs"]:
                if caps_of(kind) + (has_close(kind), e) != b:
                    continue
                ctx.traces += 1
                ctx.count("open stage:" + (model.get("err") or ("evlrs " + ("deferred" if model["ok"]["evlrs"] is None else "loaded"))))
                inp = {"file": f["label"], "class": f["cls"], "kind": kind, "read_evlrs": e, "chunk": c, "stage": "opened", "file_hex": f["raw"].hex()}
                io_ = {"ok": impl["opened"]} if "opened" in impl else {"err": impl.get("err", "?"), "msg": impl.get("msg", "")}
                d = differs(model, io_, points=False)
                if d and f["label"].endswith("/small_offset") and kind in ("path", "buffered_file") and "err" in model and "err" in io_:
                    d = None
                if d:
                    add(f"just opened: {d[0]} ({f['cls']})", inp, str(d[1])[:120], str(d[2])[:160])
                if "log" in impl:
                    ilog = impl.get("log_open", impl["log"])
                    ok = model["log"][:len(ilog)] == ilog if ("err" in model and "err" in io_) else model["log"] == ilog
                    if not ok:
                        add(f"call log of laspy.open ({f['cls']})", inp, ",".join(model["log"])[:300], ",".join(ilog)[:300])
        elif what == "mmap":
            f = obs["files"][a]
            model = parse_model(line)
            ctx.traces += 1
            ctx.count("kind:mmap")
            ctx.case((f["label"], "mmap"), nontrivial=(f["n"] > 0 or f["nev"] > 0))
            d = differs(model, f["mmap"])
            if d:
                add(f"mmap {d[0]} ({f['cls']})", {"file": f["label"], "class": f["cls"], "kind": "mmap", "file_hex": f["raw"].hex()},
                    str(d[1])[:120], str(d[2])[:160])
        elif what == "set":
            ed = obs["edits"][a]
            ctx.traces += 1
            ctx.count("kind:mmap-edit")
            ctx.case((ed["file"], "edit", ed["dim"], ed["i"]), nontrivial=True)
            if line != common.hexb(ed["raw_after"]):
                add("mmap edit: file bytes", {"file": ed["file"], "dim": ed["dim"], "i": ed["i"], "value": ed["value"]}, line[:80], common.hexb(ed["raw_after"])[:80])
        else:
            ed = obs["edits"][a]
            model = parse_model(line)
            ctx.traces += 1
            d = differs(model, {"ok": ed["read_snapshot"]})
            if d:
                add("read after mmap edit: " + d[0], {"file": ed["file"], "dim": ed["dim"], "i": ed["i"]}, str(d[1])[:120], str(d[2])[:120])
    return dis


# ---------------------------------------------------------------------------------
# oracle
# ---------------------------------------------------------------------------------
def same_read(ref, got):
    """the property's comparison between two access paths; returns the first differing part or None"""
    if "err" in ref or "err" in got:
        if ref.get("err") != got.get("err"):
            return f"outcome: {ref.get('err', 'ok')} by path, {got.get('err', 'ok')} {got.get('msg', '')}"
        return None
    a, b = ref["ok"], got["ok"]
    for k in ("header", "format", "vlrs", "evlrs", "points", "pscales"):
        if a[k] != b[k]:
            if k == "header":
                ks = [x for x in HDR_KEYS if a[k][x] != b[k][x]]
                return f"header fields {ks}"
            if k == "evlrs":
                return f"evlrs: {None if a[k] is None else len(a[k])} by path, {None if b[k] is None else len(b[k])} here"
            if k == "points":
                return f"records: {a['count']} by path, {b['count']} here (or other bytes)"
            return k
    return None


def needs_evlrs(raw):
    """the header announces EVLRs (LAS 1.4+): the only case in which the library has to know whether the source seeks"""
    return len(raw) >= 247 and raw[25] >= 4 and int.from_bytes(raw[243:247], "little") > 0


def judge(raw, cls, kind, e, c, ref, ref_open, got):
    """the property on one access path: (kind of failure, what was observed) pairs; `ref` is the whole read by path,
    `ref_open` what the reader of the path shows right after laspy.open with the same read_evlrs"""
    sk, _ = caps_of(kind)
    bare = not has_close(kind)
    src = ("a source that offers only read()" if bare else "seekable source" if sk else "non-seekable source")
    out = []
    needs = needs_evlrs(raw)
    if bare and needs and got.get("err") == "EOther":
        return [("accepted", "AttributeError: a source without a seekable method, a file with EVLRs")]
    # 1. everything read
    if cls != "gap" or sk:
        d = same_read(ref, got)
        if d:
            part = d.split(":")[0].split(" ")[0]
            out.append((f"{part} differ from the path read: {src}, {cls} file", d))
    # 2. what was handed out does not change afterwards
    if "ok" in got:
        if "now" in got and got["now"] != got["ok"]["points"]:
            k = next((i for i in range(0, len(got["now"]), 2) if got["now"][i:i + 2] != got["ok"]["points"][i:i + 2]), 0) // 2
            out.append((f"records handed out by an earlier read changed when later ones were read: {'source with readinto' if caps_of(kind)[1] else 'source without readinto'}",
                        f"chunks of {got.get('chunks')} bytes kept by the caller; byte {k} of the records differs once everything is read"))
        if "late" in got and got["late"] != got["ok"]["points"]:
            out.append(("records changed when the reader was closed", "the records of the result differ after leaving the with-block"))
    # 3. just opened: the same header; EVLRs as by path, or left for read() when the source cannot seek to them
    if "opened" in got and ref_open is not None and "opened" in ref_open:
        a, b = ref_open["opened"], got["opened"]
        for k in ("header", "format", "vlrs"):
            if a[k] != b[k]:
                what = [x for x in HDR_KEYS if a[k][x] != b[k][x]] if k == "header" else k
                out.append((f"just opened: {k} differs from the path's: {src}, {cls} file", f"{what}"))
                break
        want = a["evlrs"] if (sk or not needs) else None
        if b["evlrs"] != want:
            def ln(x):
                return None if x is None else len(x)
            out.append((f"just opened: evlrs differ from the path's: {src}, {cls} file",
                        f"header.evlrs right after open(read_evlrs={e}): {ln(b['evlrs'])} here, {ln(a['evlrs'])} by path"
                        + ("" if want is a["evlrs"] else " (None expected: left for read())")))
    return out


def search(ctx, seeds):
    obs = observe(ctx)
    failing, seen = [], set()

    def add(kind, inp, why):
        if kind not in seen and len(failing) < 8:
            seen.add(kind)
            failing.append({"kind": kind, "input": inp, "observed": why})
    for f in obs["files"]:
        if f["cls"] == "malformed":
            continue
        ref = f["ref"]
        if "err" in ref:
            add("a file written by laspy cannot be read by path", {"file": f["label"], "file_hex": f["raw"].hex()}, ref.get("msg"))
            continue
        t = f["truth"]
        if ref["ok"]["points"] != t["points"] or ref["ok"]["evlrs"] != t["evlrs"] or len(ref["ok"]["vlrs"]) != t["vlrs"]:
            add("the path read differs from what was written", {"file": f["label"], "class": f["cls"], "kind": "path", "file_hex": f["raw"].hex()},
                f"records equal: {ref['ok']['points'] == t['points']} ({ref['ok']['count']} read, {f['n']} written); "
                f"evlrs equal: {ref['ok']['evlrs'] == t['evlrs']}; vlrs {len(ref['ok']['vlrs'])} read, {t['vlrs']} written")
        if ref["opened"]["evlrs"] != t["evlrs"]:
            add("just opened by path (read_evlrs=True): evlrs differ from what was written", {"file": f["label"], "class": f["cls"], "kind": "path",
                "read_evlrs": True, "chunk": None, "stage": "opened", "file_hex": f["raw"].hex()}, f"{ref['opened']['evlrs']!r}"[:200])
        ref_open = {}
        for (kind, e, c), got in f["runs"]:
            if kind == "path" and e not in ref_open:
                ref_open[e] = got
        for (kind, e, c), got in f["runs"]:
            sk, _ = caps_of(kind)
            inp = {"file": f["label"], "class": f["cls"], "kind": kind, "read_evlrs": e, "chunk": c, "file_hex": f["raw"].hex()}
            for (k, why) in judge(f["raw"], f["cls"], kind, e, c, ref, ref_open.get(e), got):
                if k == "accepted":
                    ctx.count("bare source, file with EVLRs: AttributeError (accepted, see assumptions)")
                else:
                    add(k, inp, why)
            if "log" in got and not sk:
                bad = [t for t in got["log"] if t[0] in "st"] + [a for a in got["asked"] if a in ("seek", "tell")]
                if bad:
                    add("non-seekable source asked to seek/tell", inp, f"calls {bad[:6]} in {got['log'][:12]}")
        d = same_read(ref, f["mmap"])
        if d:
            add(f"{d.split(':')[0].split(' ')[0]} differ from the path read: mmap, {f['cls']} file",
                {"file": f["label"], "class": f["cls"], "kind": "mmap", "file_hex": f["raw"].hex()}, d)
        elif "ok" in f["mmap"] and f["mmap"]["ok"]["count"] != f["n"]:
            add("mmap record count differs from the header's", {"file": f["label"], "kind": "mmap", "file_hex": f["raw"].hex()},
                f"{f['mmap']['ok']['count']} records, header says {f['n']}")
    for ed in obs["edits"]:
        inp = {"file": ed["file"], "dim": ed["dim"], "i": ed["i"], "value": ed.get("value"), "file_hex": ed["raw_before"].hex()}
        if "err" in ed:
            add("mmap edit raised: " + ed["err"].split(":")[0], inp, ed["err"])
            continue
        a, b = ed["raw_before"], ed["raw_after"]
        lo = ed["off"] + ed["i"] * ed["ps"] + ed["foff"]
        hi = lo + ed["width"]
        if len(a) != len(b):
            add("mmap edit changed the file length", inp, f"{len(a)} -> {len(b)}")
            continue
        outside = [j for j in range(len(a)) if a[j] != b[j] and not lo <= j < hi]
        if outside:
            add("mmap edit changed bytes outside the assigned dimension", inp, f"dimension bytes [{lo},{hi}), changed {outside[:8]}")
        if b[lo:hi] != ed["expect"]:
            add("mmap edit did not store the value", inp, f"bytes {b[lo:hi].hex()} expected {ed['expect'].hex()}")
        if ed["read_field"] != ed["expect"] or ("read_sub" in ed and ed["read_sub"] != ed["value"]):
            add("mmap edit not visible to a subsequent read", inp, f"read {ed['read_field'].hex()} / {ed.get('read_sub')} expected {ed['expect'].hex()} / {ed['value']}")
        k = ed["ps"]
        exp_pts = a[ed["off"]:ed["off"] + ed["n"] * k]
        exp_pts = exp_pts[:ed["i"] * k + ed["foff"]] + ed["expect"] + exp_pts[ed["i"] * k + ed["foff"] + ed["width"]:]
        if ed["read_points"] != exp_pts:
            add("records read after an mmap edit differ elsewhere", inp, "other record bytes changed")
    return failing


def replay(ctx, data):
    inp = data.get("failing_input", {}).get("input") or {}
    if "file_hex" not in inp or "kind" not in inp:
        print("replay: re-run ./check C17 with the same VERIF_SEED; the failing case is described in the file")
        return 0
    raw = bytes.fromhex(inp["file_hex"])
    tmp = tempfile.mkdtemp(prefix="c17_", dir="/var/tmp")
    try:
        path = os.path.join(tmp, "f.las")
        with open(path, "wb") as fh:
            fh.write(raw)
        ref = read_through("path", raw, path, True, None)
        if inp["kind"] == "mmap":
            got = read_mmap(path)
            bad = [d for d in [same_read(ref, got)] if d]
        else:
            e, c = inp.get("read_evlrs", True), inp.get("chunk")
            got = read_through(inp["kind"], raw, path, e, c)
            ref_open = read_through("path", raw, path, e, None)
            bad = [x for x in judge(raw, inp.get("class", "valid"), inp["kind"], e, c, ref, ref_open, got) if x[0] != "accepted"]
            if not caps_of(inp["kind"])[0]:
                bad += [t for t in got.get("log", []) if t[0] in "st"]
        print("REPRODUCED:" if bad else "not reproduced", bad, got.get("log"))
        return 1 if bad else 0
    finally:
        shutil.rmtree(tmp, ignore_errors=True)
