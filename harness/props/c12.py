"""C12 — point-format conversion preserves shared dimensions or fails loudly.
Model: Model/Convert.v (zeroed target record + copy by dimension name through the checked setters, tables of Gen/GenDims.v;
version rule of Model/HeaderOps.v; extra dimensions, VLR/EVLR lists). Correspondence: laspy.convert on real LasData objects vs
the extracted `convert`, all 121 format pairs x explicit/implicit versions x contents; dimension-name lists and
lost_dimensions for every format / pair. Search: the property stated on the implementation (no model involved)."""
import copy
import io
import random
import struct

import numpy as np

from harness import common, lasio

DRIVER = "c12"
ASSUMPTIONS = [
    "extra-dimension names are pairwise distinct and differ from every standard dimension, packed-field and legacy alias name "
    "(OLD_LASPY_NAMES); numpy rejects duplicates when the source record is built",
    "numpy assignment between arrays of the same dtype copies the bytes (floating point fields are compared by bit pattern)",
    "the source is a LasData whose header version and point format are compatible and whose header format is the record's format",
    "EVLR objects of a >= 1.4 result are the source's objects (the list is new): object-level edits of an EVLR are outside the claim",
]

FMTS = list(range(11))
VERS = ["1.1", "1.2", "1.3", "1.4"]
PREFERRED = {0: "1.2", 1: "1.2", 2: "1.2", 3: "1.2", 4: "1.3", 5: "1.3", 6: "1.4", 7: "1.4", 8: "1.4", 9: "1.4", 10: "1.4"}
# LAS specification: widths of the bit fields of formats 0-5 (formats 6-10: 4 + 4 bits, 8-bit classification)
NARROW = {"return_number": 7, "number_of_returns": 7, "classification": 31}
RULE = ("every (source, target) pair of the 11 formats x target version {implicit, 1.1, 1.2, 1.3, 1.4} (+ target None, unknown formats and "
        "versions), source version drawn from the versions compatible with the source format; records of 0..7 points with random / 0xFF / "
        "extreme byte patterns; for narrowing pairs (6-10 -> 0-5) three modes: every value fits, exactly one value too large "
        "(classification 32..255, return number / number of returns 8..15), unconstrained; 0..3 extra dimensions (30 element types, "
        "scaled, 64-bit, float, opaque arrays), 0..5 VLRs plus one appended after the extra-bytes VLR, EVLRs present / empty / None, "
        "sources built in memory or re-read from a written file. non-trivial = at least one point or extra dimension or VLR; distinct "
        "by (pair, versions, mode, record bytes, extra-dimension layout, VLR lists)")


# ---------------------------------------------------------------------------------
# encoding of LasData objects in the driver's vocabulary
# ---------------------------------------------------------------------------------
def vlr_flat(v):
    u, r, d, p = lasio.vlr_tuple(v)
    return u.ljust(16, b"\0") + struct.pack("<H", r) + d.ljust(32, b"\0") + p


def is_eb(v):
    return type(v).__name__ == "ExtraBytesVlr"


def descriptors(pf):
    """the 192-byte ExtraBytesStruct of every extra dimension of a point format, as laspy serialises them"""
    import laspy
    extra = list(pf.extra_dimensions)
    if not extra:
        return []
    tmp_pf = laspy.PointFormat(6)
    tmp_pf.dimensions.extend(extra)
    h = laspy.LasHeader(version="1.4", point_format=6)
    h.point_format = tmp_pf
    data = h._vlrs.get("ExtraBytesVlr")[0].record_data_bytes()
    assert len(data) == 192 * len(extra)
    return [data[192 * i:192 * (i + 1)] for i in range(len(extra))]


def enc_las(las):
    """-> tokens [ver, fmt, edims, pts, vlrs, evlrs]"""
    h = las.header
    pf = las.point_format
    arr = las.points.array
    extra = list(pf.extra_dimensions)
    descs = descriptors(pf)
    ed = "|".join(f"{d.name}:{common.hexb(ds)}:{d.num_bits // 8}" for d, ds in zip(extra, descs)) or "-"
    enames = [d.name for d in extra]
    std = [n for n in arr.dtype.names if n not in enames]
    cols = {}
    for n in std:
        a = arr[n]
        if a.dtype.kind == "f":
            a = a.view(f"u{a.dtype.itemsize}")
        cols[n] = [int(x) for x in np.atleast_1d(a)]
    ecols = {n: np.atleast_1d(arr[n]) for n in enames}
    pts = []
    for i in range(len(las.points)):
        s = ",".join(f"{n}={cols[n][i]}" for n in std)
        e = "/".join(common.hexb(np.ascontiguousarray(ecols[n][i]).tobytes()) for n in enames) or "-"
        pts.append(s + "#" + e)
    vl = "|".join(("T:" + common.hexb(v.record_data_bytes())) if is_eb(v) else ("F:" + common.hexb(vlr_flat(v))) for v in h.vlrs) or "-"
    if h.evlrs is None:
        ev = "none"
    else:
        ev = "some:" + ("|".join(common.hexb(vlr_flat(v)) for v in h.evlrs) or "-")
    return [f"{h.version.major}.{h.version.minor}", str(pf.id), ed, ";".join(pts) or "-", vl, ev]


def snapshot(las):
    """everything observable of a LasData, by value"""
    h = las.header
    arr = las.points.array
    return (
        bytes(np.ascontiguousarray(arr).tobytes()), str(arr.dtype.descr), len(las.points),
        tuple(lasio.f64bits(x) for x in las.points.scales), tuple(lasio.f64bits(x) for x in las.points.offsets),
        tuple(sorted((k, v) for k, v in lasio.header_assoc(h).items())),
        tuple((type(v).__name__, bytes(v.record_data_bytes()) if is_eb(v) else vlr_flat(v)) for v in h.vlrs),
        None if h.evlrs is None else tuple(vlr_flat(v) for v in h.evlrs),
        lasio.format_key(las.point_format), lasio.format_key(h.point_format),
        tuple((d.name, d.description) for d in las.point_format.dimensions),
        las.points.point_format is h.point_format,
    )


def serialised(las):
    """bytes of the LAS file a deep copy of the object writes (the copy, because writing updates the header)"""
    try:
        import laspy
        buf = io.BytesIO()
        dup = laspy.LasData(copy.deepcopy(las.header), laspy.PackedPointRecord(las.points.array.copy(), copy.deepcopy(las.points.point_format)))
        dup.write(buf)
        return buf.getvalue()
    except Exception as ex:
        return "unwritable " + type(ex).__name__


# ---------------------------------------------------------------------------------
# generators
# ---------------------------------------------------------------------------------
PROBLEMS = {}


def build_source(spec):
    """spec (JSON-able dict) -> LasData; every random choice comes from Random(spec['seed'])"""
    import laspy
    from laspy.vlrs.vlrlist import VLRList
    rng = random.Random(spec["seed"])
    h = lasio.rand_header(rng, version=spec["sver"], fmt=spec["src"], nvlrs=spec["nvlrs"])
    lasio.add_extra_dims(rng, h, spec["nextra"])
    if spec["vlr_after_eb"]:
        h.vlrs.append(lasio.rand_vlr(rng, max_payload=40))
    n = spec["n"]
    rec = lasio.rand_points(rng, h, n, spec["pattern"])
    names = rec.array.dtype.names
    if n and spec["src"] >= 6:
        mode = spec["mode"]
        if mode in ("fit", "onebad"):
            rec.array["bit_fields"] &= 0x77
            rec.array["classification"] &= 31
            if rng.random() < 0.5:
                rec.array["classification"][rng.randrange(n)] = 31
                rec.array["bit_fields"][rng.randrange(n)] |= 0x77
        if mode == "onebad":
            i = rng.randrange(n)
            which = spec.get("bad") or rng.choice(["classification", "return_number", "number_of_returns"])
            if which == "classification":
                rec.array["classification"][i] = rng.choice([32, 255, rng.randrange(32, 256)])
            elif which == "return_number":
                rec.array["bit_fields"][i] = (int(rec.array["bit_fields"][i]) & 0xF0) | rng.choice([8, 15, rng.randrange(8, 16)])
            else:
                rec.array["bit_fields"][i] = (int(rec.array["bit_fields"][i]) & 0x0F) | (rng.choice([8, 15, rng.randrange(8, 16)]) << 4)
    if n and rng.random() < 0.5:
        i = rng.randrange(n)
        for c in ("X", "Y", "Z"):
            rec.array[c][i] = rng.choice([-2 ** 31, 2 ** 31 - 1, 0, -1])
        if "gps_time" in names:
            rec.array["gps_time"].view(np.uint64)[i] = rng.choice([0x7FF8000000000001, 0x7FF0000000000001, 0xFFF0000000000000, 1 << 63, 1])
        for d in h.point_format.extra_dimensions:
            a = rec.array[d.name]
            if a.dtype.base.kind in "iu" and a.dtype.base.itemsize == 8 and a.ndim == 1:
                a[i] = rng.choice([2 ** 60 + 1, 2 ** 53 + 1, -(2 ** 62) - 1 if a.dtype.base.kind == "i" else 2 ** 64 - 1])
    las = laspy.LasData(h, rec)
    ev = spec["evlrs"]
    if ev == "some":
        las.evlrs = VLRList([lasio.rand_vlr(rng, max_payload=30) for _ in range(rng.choice([1, 2]))])
    elif ev == "empty":
        las.evlrs = VLRList()
    if spec.get("via_file"):
        try:
            buf = io.BytesIO()
            las.write(buf)
            buf.seek(0)
            las = laspy.read(buf)
        except Exception:      # writing / reading is not this property's subject: keep the in-memory object
            PROBLEMS["file round trip of the source failed"] = PROBLEMS.get("file round trip of the source failed", 0) + 1
    return las


def case_specs(ctx):
    rng = ctx.rng
    specs = []

    def add(src, tgt, ver, mode="wide", **kw):
        sver = kw.pop("sver", None) or rng.choice([v for v in VERS if src in lasio.COMPAT[v]])
        ev = kw.pop("evlrs", None) or (rng.choice(["some", "some", "empty", "none"]) if sver == "1.4" else rng.choice(["none", "none", "none", "some"]))
        nextra = kw.pop("nextra", None)
        nextra = rng.choice([0, 0, 1, 2, 3]) if nextra is None else nextra
        s = dict(seed=rng.getrandbits(48), src=src, tgt=tgt, ver=ver, sver=sver, mode=mode, n=rng.choice([0, 1, 2, 3, 7]),
                 pattern=rng.choice(["random", "random", "ones", "small", "extremes"]), nextra=nextra,
                 nvlrs=rng.choice([0, 0, 1, 2, 5]), vlr_after_eb=bool(nextra) and rng.random() < 0.6, evlrs=ev,
                 via_file=rng.random() < 0.15)
        s.update(kw)
        specs.append(s)

    vers = [None] + VERS
    reps = ctx.n(2, 20)
    for _ in range(reps):
        for src in FMTS:
            for tgt in FMTS:
                for ver in vers:
                    if src >= 6 and tgt <= 5:
                        for mode in ("fit", "onebad", "wide"):
                            add(src, tgt, ver, mode)
                    else:
                        add(src, tgt, ver)
            for ver in vers:
                add(src, None, ver)
    # one violating value in each narrow field, a single point, nothing else in the way
    for src in range(6, 11):
        for tgt in range(6):
            for bad in ("classification", "return_number", "number_of_returns"):
                add(src, tgt, None, "onebad", bad=bad, n=1, pattern="small")
    # unknown formats and versions
    for src in (0, 3, 6):
        for tgt in (11, -1, 64, 131, 255):
            for ver in (None, "1.2", "1.4"):
                add(src, tgt, ver, n=1)
        for ver in ("1.0", "1.5", "2.0", "0.9", "1.10"):
            add(src, rng.choice(FMTS), ver, n=1)
    return specs


# ---------------------------------------------------------------------------------
# the property on the implementation
# ---------------------------------------------------------------------------------
def vkey(s):
    a, b = s.split(".")
    return (int(a), int(b))


def values_of(las, name):
    """values of a dimension as python ints (floats by bit pattern), whatever the view class"""
    a = np.asarray(las.points[name])
    if a.dtype.kind == "f":
        a = np.ascontiguousarray(a).view(f"u{a.dtype.itemsize}")
    return [int(x) for x in a.reshape(-1)]


def std_dim_names(fmt):
    import laspy
    return list(laspy.PointFormat(fmt).dimension_names)


def oracle(spec, las, before, outcome, res, ser_before=None):
    """list of (kind, observed) violations of C12 on this case; outcome = 'ok' | exception kind"""
    bad = []
    src, tgt, ver = spec["src"], spec["tgt"], spec["ver"]
    t = src if tgt is None else tgt
    after = snapshot(las)
    if after != before:
        which = [i for i, (x, y) in enumerate(zip(before, after)) if x != y]
        bad.append(("source modified", f"snapshot components {which} of the source differ after convert ({outcome})"))
    elif ser_before is not None:
        ser_after = serialised(las)
        if ser_after != ser_before:
            bad.append(("source modified", f"the file written from the source differs after convert ({outcome})"))
    known_t = t in FMTS
    sv = (las.header.version.major, las.header.version.minor)
    if ver is not None:
        compat = ver in lasio.COMPAT and known_t and t in lasio.COMPAT[ver]
        want_v = vkey(ver) if compat else None
    else:
        compat = known_t
        want_v = max(sv, vkey(PREFERRED[t])) if compat else None
    if not compat:
        if outcome != "ELaspy":
            bad.append(("incompatible request accepted", f"format {t} with version {ver}: {outcome}, expected LaspyException"))
        return bad
    # expected narrowing
    over = []
    if src >= 6 and t <= 5 and len(las.points):
        for nm, mx in NARROW.items():
            vals = values_of(las, nm)
            if max(vals) > mx:
                over.append((nm, max(vals), mx))
    if over:
        if outcome != "EOverflow":
            nm, v, mx = over[0]
            if outcome == "ok":
                got = values_of(res, nm)
                bad.append((f"narrowing not refused {nm}", f"{nm} holds {v} (> {mx}) in the source; convert {src}->{t} returned a record with {nm} = {got[:8]}"))
            else:
                bad.append((f"narrowing wrong error {nm}", f"{nm} holds {v} (> {mx}): {outcome}, expected OverflowError"))
        return bad
    if outcome != "ok":
        bad.append(("conversion refused", f"convert {src}->{t} version {ver}: {outcome} although every value fits"))
        return bad
    r = res
    if len(r.points) != len(las.points):
        bad.append(("point count", f"{len(r.points)} points, source has {len(las.points)}"))
        return bad
    if r.point_format.id != t or r.header.point_format.id != t:
        bad.append(("target format", f"result format {r.point_format.id}, requested {t}"))
    rv = (r.header.version.major, r.header.version.minor)
    if rv != want_v:
        bad.append(("version rule " + ("explicit" if ver else "implicit"), f"result version {rv}, expected {want_v} (source {sv}, requested {ver})"))
    if ver is None and rv < sv:
        bad.append(("version lowered", f"{sv} -> {rv}"))
    if t not in lasio.COMPAT.get(f"{rv[0]}.{rv[1]}", ()):
        bad.append(("incompatible result", f"version {rv} with format {t}"))
    sn, tn = std_dim_names(src), std_dim_names(t)
    for nm in ["X", "Y", "Z"] + [x for x in tn if x in sn and x not in ("X", "Y", "Z")]:
        a, b = values_of(las, nm), values_of(r, nm)
        if a != b:
            i = next(k for k in range(len(a)) if a[k] != b[k])
            bad.append((f"dimension {nm}", f"point {i}: {nm} = {b[i]} after convert {src}->{t}, source holds {a[i]}"))
    # extra dimensions
    ks, kr = lasio.format_key(las.point_format)[1], lasio.format_key(r.point_format)[1]
    if ks != kr:
        bad.append(("extra dimension layout", f"{kr} vs source {ks}"))
    else:
        for d in las.point_format.extra_dimensions:
            a = np.ascontiguousarray(las.points.array[d.name]).tobytes()
            b = np.ascontiguousarray(r.points.array[d.name]).tobytes()
            if a != b:
                bad.append(("extra dimension bytes", f"{d.name} ({d.type_str()}, scaled={d.is_scaled}): {b[:16].hex()} vs source {a[:16].hex()}"))
            sd = [x for x in r.point_format.extra_dimensions if x.name == d.name][0]
            if sd.description != d.description:
                bad.append(("extra dimension description", f"{d.name}: {sd.description!r} vs {d.description!r}"))
    # VLRs
    us = [vlr_flat(v) for v in las.header.vlrs if not is_eb(v)]
    ur = [vlr_flat(v) for v in r.header.vlrs if not is_eb(v)]
    if us != ur:
        bad.append(("vlrs", f"{len(ur)} user VLRs after convert, {len(us)} in the source (or contents / order differ)"))
    ebs = [v for v in r.header.vlrs if is_eb(v)]
    if len(ebs) != (1 if ks else 0):
        bad.append(("extra bytes vlr", f"{len(ebs)} ExtraBytesVlr for {len(ks)} extra dimensions"))
    elif ebs:
        got = [(p.name, np.dtype(p.type).str, None if p.scales is None else tuple(map(float, p.scales)),
                None if p.offsets is None else tuple(map(float, p.offsets)), p.description) for p in ebs[0].type_of_extra_dims()]
        want = [(d.name, np.dtype(d.type_str()).str if d.num_elements == 1 else None, None if d.scales is None else tuple(map(float, d.scales)),
                 None if d.offsets is None else tuple(map(float, d.offsets)), d.description) for d in las.point_format.extra_dimensions]
        for g, w in zip(got, want):
            if g[0] != w[0] or (w[1] is not None and g[1] != w[1]) or g[2:] != w[2:]:
                bad.append(("extra bytes vlr", f"descriptor {g} vs source dimension {w}"))
                break
    # EVLRs
    if rv >= (1, 4):
        es = None if las.header.evlrs is None else [vlr_flat(v) for v in las.header.evlrs]
        er = None if r.header.evlrs is None else [vlr_flat(v) for v in r.header.evlrs]
        if es != er and not (not es and not er):
            bad.append(("evlrs", f"{None if er is None else len(er)} EVLRs after convert to {rv}, source has {None if es is None else len(es)}"))
    # shared state: edits of the result must not show in the source
    if np.shares_memory(r.points.array, las.points.array):
        bad.append(("shared state array", "result and source records share memory"))
    try:
        mutate(r)
    except Exception as ex:  # the result must be an ordinary, editable LasData
        bad.append(("result not editable", f"{type(ex).__name__}: {ex}"))
    after2 = snapshot(las)
    if after2 != before:
        which = [i for i, (x, y) in enumerate(zip(before, after2)) if x != y]
        bad.append(("shared state", f"editing the result changed snapshot components {which} of the source"))
    return bad


def mutate(r):
    import laspy
    if len(r.points):
        r.points.array.view(np.uint8)[...] ^= 0xFF
    h = r.header
    h.file_source_id ^= 1
    h.global_encoding.value ^= 1
    h.system_identifier = "changed"
    for nm in ("scales", "offsets", "mins", "maxs"):
        getattr(h, nm)[0] += 1.5
    h.number_of_points_by_return[0] += 1
    h.point_count += 1
    h.extra_header_bytes = b"zz"
    r.points.scales[1] += 2.0
    r.points.offsets[1] += 2.0
    for v in r.vlrs:
        if not is_eb(v):
            v.record_data = b"edited"
            break
    r.vlrs.append(laspy.VLR("verif", 1, "appended", b"x"))
    if len(r.vlrs) > 1:
        r.vlrs.pop(0)
    if r.evlrs is not None:
        r.evlrs.append(laspy.VLR("verif", 2, "appended", b"y"))
        r.evlrs.pop(0)
    r.add_extra_dim(laspy.ExtraBytesParams("verif_added", "uint8"))


def run_case(spec):
    """-> dict(model_cmd, impl token, oracle violations, stats)"""
    import laspy
    las = build_source(spec)
    before = snapshot(las)
    ser_before = serialised(las)
    src_tokens = enc_las(las)
    kw = {}
    if spec["tgt"] is not None:
        kw["point_format_id"] = spec["tgt"]
    if spec["ver"] is not None:
        kw["file_version"] = spec["ver"]
    try:
        res = laspy.convert(las, **kw)
        outcome = "ok"
    except Exception as ex:
        res, outcome = None, common.exc_kind(ex)
    if outcome == "ok":
        try:
            impl = "ok " + " ".join(enc_las(res)) + " " + ("T" if snapshot(las) == before else "F")
        except Exception as ex:
            impl = f"ok unreadable-result {type(ex).__name__}: {ex}"
    else:
        impl = "err " + outcome
    try:
        viol = oracle(spec, las, before, outcome, res, ser_before)
    except Exception as ex:     # the result (or the source afterwards) cannot even be inspected through the public API
        viol = [("result unusable", f"inspecting the result of convert {spec['src']}->{spec['tgt']} raised {type(ex).__name__}: {str(ex)[:120]}")]
    cmd = "convert {} {} {} {} {} {} {} {}".format(src_tokens[0], src_tokens[1], "-" if spec["tgt"] is None else spec["tgt"],
                                                     spec["ver"] or "-", *src_tokens[2:])
    return dict(cmd=cmd, impl=impl, viol=viol, outcome=outcome, digest=hash((src_tokens[3], src_tokens[2], src_tokens[4], src_tokens[5])),
                n=len(las.points), nontrivial=bool(len(las.points) or src_tokens[2] != "-" or src_tokens[4] != "-"))


_CASES = None


def all_cases(ctx):
    global _CASES
    if _CASES is None:
        ctx.extra["rule"] = RULE
        out = []
        for spec in case_specs(ctx):
            try:
                c = run_case(spec)
            except Exception as ex:    # the case could not be evaluated at all (not a verdict about the property)
                k = f"case not evaluated: {type(ex).__name__}: {str(ex)[:80]}"
                PROBLEMS[k] = PROBLEMS.get(k, 0) + 1
                continue
            c["spec"] = spec
            out.append(c)
            narrowing = spec["src"] >= 6 and (spec["tgt"] is not None and 0 <= spec["tgt"] <= 5)
            ctx.count("pair:" + ("narrowing" if narrowing else "unknown-target" if spec["tgt"] not in FMTS + [None] else "same-format" if spec["tgt"] in (None, spec["src"]) else "other"))
            ctx.count("version:" + ("implicit" if spec["ver"] is None else "explicit"))
            ctx.count("outcome:" + c["outcome"])
            if narrowing:
                ctx.count("mode:" + spec["mode"])
            ctx.count("extra-dims:" + str(spec["nextra"]))
            ctx.case((spec["src"], spec["tgt"], spec["ver"], spec["sver"], spec["mode"], c["digest"]), nontrivial=c["nontrivial"],
                     sample={"source_format": spec["src"], "target": spec["tgt"], "version": spec["ver"], "points": c["n"], "outcome": c["outcome"]})
        _CASES = out
        for k, v in PROBLEMS.items():
            ctx.notes.append(f"{k} ({v} cases)")
        if len(out) < 100:
            raise RuntimeError(f"only {len(out)} cases could be evaluated: {PROBLEMS}")
    return _CASES


def table_checks():
    """dimension names and lost_dimensions of the implementation, all formats / pairs: [(cmd, impl token)]"""
    from laspy.point.format import lost_dimensions
    out = []
    for f in FMTS:
        out.append((f"dims {f}", "|".join(std_dim_names(f)), False))
    for a in FMTS:
        for b in FMTS:
            out.append((f"lost {a} {b}", lost_dimensions(a, b), True))
    return out


def correspond(ctx):
    dis = []
    cases = all_cases(ctx)
    outs = common.run_model([c["cmd"] for c in cases], name=DRIVER)
    for c, mo in zip(cases, outs):
        ctx.traces += 1
        if mo != c["impl"]:
            s = c["spec"]
            if mo.startswith("err") or c["impl"].startswith("err"):
                what = f"outcome {mo.split()[1] if mo.startswith('err') else 'ok'} vs {c['impl'].split()[1] if c['impl'].startswith('err') else 'ok'}"
            else:
                a, b = mo.split(" "), c["impl"].split(" ")
                parts = ["version", "format", "extra dims", "points", "vlrs", "evlrs", "source unchanged"]
                what = "result differs in " + ",".join(p for p, x, y in zip(parts, a[1:], b[1:]) if x != y)
            dis.append({"kind": what, "input": s, "model": mo[:300], "impl": c["impl"][:300]})
    tabs = table_checks()
    outs = common.run_model([t[0] for t in tabs], name=DRIVER)
    for (cmd, impl, as_set), mo in zip(tabs, outs):
        ctx.traces += 1
        ctx.case(cmd, nontrivial=True)
        ctx.count("table:" + cmd.split()[0])
        m = [] if mo == "-" else mo.split("|")
        if as_set:
            ok = sorted(m) == sorted(impl) and len(set(impl)) == len(impl)
        else:
            ok = mo == impl
        if not ok:
            dis.append({"kind": "table " + cmd.split()[0], "input": {"cmd": cmd}, "model": mo, "impl": str(impl)})
    return dis


def lost_oracle():
    from laspy.point.format import lost_dimensions
    bad = []
    for a in FMTS:
        for b in FMTS:
            got = lost_dimensions(a, b)
            want = set(std_dim_names(a)) - set(std_dim_names(b))
            if set(got) != want or len(got) != len(set(got)):
                bad.append({"kind": "lost dimensions", "input": {"lost": [a, b]},
                            "observed": f"lost_dimensions({a}, {b}) = {sorted(got)}, dimensions of {a} absent from {b}: {sorted(want)}"})
                return bad
    return bad


def search(ctx, seeds):
    failing, seen = [], set()
    for c in all_cases(ctx):
        for kind, why in c["viol"]:
            if kind not in seen:
                seen.add(kind)
                failing.append({"kind": kind, "input": c["spec"], "observed": why})
    failing += lost_oracle()
    return failing[:8]


def replay(ctx, data):
    inp = data.get("failing_input", {}).get("input")
    if not inp:
        print("nothing to replay")
        return 0
    if "lost" in inp:
        bad = lost_oracle()
        print("REPRODUCED: " + bad[0]["observed"] if bad else "not reproduced")
        return 1 if bad else 0
    c = run_case(inp)
    for kind, why in c["viol"]:
        print(f"REPRODUCED: {kind}: {why}")
    if not c["viol"]:
        print("not reproduced")
    return 1 if c["viol"] else 0
