"""C12 — point-format conversion preserves shared dimensions or fails loudly.
Model: Model/Convert.v (zeroed target record + copy by dimension name through the checked setters, tables of Gen/GenDims.v;
version rule of Model/HeaderOps.v; extra dimensions, VLR/EVLR lists; resolution of every listed name against the result's format). Correspondence: laspy.convert on real LasData objects vs
the extracted `convert`, all 121 format pairs x explicit/implicit versions x contents; dimension-name lists and
lost_dimensions for every format / pair. Search: the property stated on the implementation (no model involved).

Round 5: (1) NAMES - the extra dimensions are no longer assumed to carry fresh names: names of packed fields / sub-fields of the
target, of the source, of other formats, legacy aliases (OLD_LASPY_NAMES), scaled coordinates, case variants, in the case stream
(model + oracle) and in a sweep of every such name x all 121 pairs; (2) SIZE - conversions of records just over 2^16 and 2^20
(thorough: 2^21 + k) points, every value non-zero and position dependent, compared field by field; (3) STATE - every call is
made twice, the caller editing what the first call returned (result object, lists, sets, arrays) in between.

Round 6: (4) USE - the result is not only compared field by field through its raw array: every dimension of the result is read through
every public route (las[name], las.name, las.points[name], las.points.name; x / y / z; scaled extra dimensions as presented values),
the point format of the result is asked by every holder (dimension_by_name / [name] for every listed name, names, sizes, dtype, extra
dimension descriptors) and every dimension is ASSIGNED through six routes, the same assignment being made on a twin of the source
(same presented values, same stored bytes afterwards); this in the case stream, the name sweep and the large records;
(5) VLR KINDS - sources carrying every record laspy knows by class (waveform packet descriptors 100..355, classification lookup,
GeoTIFF keys / doubles / ascii, WKT, laszip, text area, superseded, copc) as raw VLRs, as parsed known classes (vlr_factory) or re-read
from a file, as VLRs or EVLRs, adjacent or around the extra-bytes record, for all 121 pairs; the result's lists are also asked by
class and by id."""
import copy
import hashlib
import io
import random
import struct

import numpy as np

from harness import common, lasio

DRIVER = "c12"
ASSUMPTIONS = [
    "the source exists as a numpy record: the field names of its dtype (packed fields of its format followed by its extra "
    "dimensions) are pairwise distinct - numpy refuses anything else when the record is built; nothing else is assumed of the "
    "names of the extra dimensions",
    "name rule of the model (Model/Convert.v): an extra dimension named like a packed field of the target is refused with "
    "ValueError (numpy, as /repo does); otherwise standard dimensions are copied from standard dimensions and extra dimensions "
    "from extra dimensions of the same name - the behaviour of the minimal repair of PackedPointRecord.copy_fields_from, which in "
    "/repo resolves a name shared by an extra dimension and a sub-field / legacy alias / scaled coordinate to the standard one",
    "numpy assignment between arrays of the same dtype copies the bytes (floating point fields are compared by bit pattern)",
    "the source is a LasData whose header version and point format are compatible and whose header format is the record's format",
    "name resolution (Model/Convert.v `resolve`, LAS specification + laspy's documented aliases): on a format-f record a name means, in this "
    "order, a legacy alias, a scaled coordinate x / y / z, a standard dimension of f, else the extra dimension of that name; the use oracle "
    "compares an extra dimension through the public routes only when its name means the extra dimension on both sides",
    "a scaled extra dimension is presented as stored * scale + offset computed in float64 (LAS specification 1.4 R15, extra bytes), and takes "
    "round((v - offset) / scale); the exact stored value after an assignment is only required for integer types of at most 32 bits",
    "EVLR objects of a >= 1.4 result are the source's objects (the list is new): object-level edits of an EVLR are outside the claim",
]

FMTS = list(range(11))
VERS = ["1.1", "1.2", "1.3", "1.4"]
PREFERRED = {0: "1.2", 1: "1.2", 2: "1.2", 3: "1.2", 4: "1.3", 5: "1.3", 6: "1.4", 7: "1.4", 8: "1.4", 9: "1.4", 10: "1.4"}
# LAS specification: widths of the bit fields of formats 0-5 (formats 6-10: 4 + 4 bits, 8-bit classification)
NARROW = {"return_number": 7, "number_of_returns": 7, "classification": 31}
RULE = ("every (source, target) pair of the 11 formats x target version {implicit, 1.1, 1.2, 1.3, 1.4} (+ target None, unknown formats and "
        "versions), source version drawn from the versions compatible with the source format; records of 0..7 points with random / 0xFF / "
        "extreme byte patterns; for narrowing pairs (6-10 -> 0-5) three modes: every value fits, exactly one value too large "
        "(classification 32..255, return number / number of returns 8..15), unconstrained; 0..3 extra dimensions (30 element types, "
        "scaled, 64-bit, float, opaque arrays), 0..5 VLRs plus one appended after the extra-bytes VLR, EVLRs present / empty / None, "
        "sources built in memory or re-read from a written file; half of the sources with extra dimensions name them after a packed "
        "field / sub-field of the target or source format, a legacy alias, a scaled coordinate, a dimension of a third format or a case "
        "variant (non-zero values, types wider / narrower than the standard field); every conversion is made twice, the first result "
        "being edited in between; plus: every clash name x every (source, target) pair with a small record (sweep), records of "
        "2^16 + k and 2^20 + k points (thorough 2^21 + k, exact multiples) with position-dependent non-zero values, and the table "
        "functions (lost_dimensions, PointFormat, supported_*) called twice with the first answer edited by the caller; one case per "
        "(source, target) pair (and one ordinary case in five) whose source carries 1..11 records laspy knows by class - waveform packet "
        "descriptors (1..3, ids 100..355), classification lookup, GeoTIFF keys / doubles / ascii, WKT math transform / coordinate system, "
        "text area, superseded, laszip, copc - as raw VLR objects, as the parsed classes (vlr_factory) or re-read from a written file, "
        "as VLRs (any position around the extra-bytes record) or EVLRs; every successful result is USED: each dimension read through "
        "las[name] / las.name / las.points[name] / las.points.name (scaled extra dimensions as presented values, x y z), the point format "
        "asked through its three holders (listings, sizes, dtype, dimension_by_name / [name] / [index] of every listed name), each dimension "
        "assigned through six routes next to the same assignment on a twin of the source, an extra dimension removed, the result converted "
        "back to the source format, its VLR lists asked by class and by id. "
        "non-trivial = at least one point or extra dimension or VLR; distinct by (pair, versions, mode, record bytes, extra-dimension "
        "layout, VLR lists)")

# LAS specification: the packed fields of a point record of each format (a numpy record cannot hold two fields of one name)
_BASE0 = ["X", "Y", "Z", "intensity", "bit_fields", "raw_classification", "scan_angle_rank", "user_data", "point_source_id"]
_BASE6 = ["X", "Y", "Z", "intensity", "bit_fields", "classification_flags", "classification", "user_data", "scan_angle",
          "point_source_id", "gps_time"]
_RGB = ["red", "green", "blue"]
_WAVE = ["wavepacket_index", "wavepacket_offset", "wavepacket_size", "return_point_wave_location", "x_t", "y_t", "z_t"]
SPEC_FIELDS = {0: _BASE0, 1: _BASE0 + ["gps_time"], 2: _BASE0 + _RGB, 3: _BASE0 + ["gps_time"] + _RGB,
               4: _BASE0 + ["gps_time"] + _WAVE, 5: _BASE0 + ["gps_time"] + _RGB + _WAVE, 6: _BASE6, 7: _BASE6 + _RGB,
               8: _BASE6 + _RGB + ["nir"], 9: _BASE6 + _WAVE, 10: _BASE6 + _RGB + ["nir"] + _WAVE}
CLASSES = ["target-field", "target-sub-field", "source-sub-field", "alias", "coordinate", "other-format", "variant"]


# ---------------------------------------------------------------------------------
# encoding of LasData objects in the driver's vocabulary
# ---------------------------------------------------------------------------------
def vlr_flat(v):
    u, r, d, p = lasio.vlr_tuple(v)
    return u.ljust(16, b"\0") + struct.pack("<H", r) + d.ljust(32, b"\0") + p


def is_eb(v):
    return type(v).__name__ == "ExtraBytesVlr"


def descriptors(pf):
    """the 192-byte ExtraBytesStruct of every extra dimension of a point format, as laspy serialises them"""
    import laspy
    extra = list(pf.extra_dimensions)
    if not extra:
        return []
    tmp_pf = laspy.PointFormat(pf.id)      # the format the dimensions live next to: no name of theirs repeats one of its fields
    tmp_pf.dimensions.extend(extra)
    h = laspy.LasHeader(version="1.4", point_format=pf.id)
    h.point_format = tmp_pf
    data = h._vlrs.get("ExtraBytesVlr")[0].record_data_bytes()
    assert len(data) == 192 * len(extra)
    return [data[192 * i:192 * (i + 1)] for i in range(len(extra))]


def enc_las(las):
    """-> tokens [ver, fmt, edims, pts, vlrs, evlrs]"""
    h = las.header
    pf = las.point_format
    arr = las.points.array
    extra = list(pf.extra_dimensions)
    descs = descriptors(pf)
    ed = "|".join(f"{d.name}:{common.hexb(ds)}:{d.num_bits // 8}" for d, ds in zip(extra, descs)) or "-"
    enames = [d.name for d in extra]
    std = [n for n in arr.dtype.names if n not in enames]
    cols = {}
    for n in std:
        a = arr[n]
        if a.dtype.kind == "f":
            a = a.view(f"u{a.dtype.itemsize}")
        cols[n] = [int(x) for x in np.atleast_1d(a)]
    ecols = {n: np.atleast_1d(arr[n]) for n in enames}
    pts = []
    for i in range(len(las.points)):
        s = ",".join(f"{n}={cols[n][i]}" for n in std)
        e = "/".join(common.hexb(np.ascontiguousarray(ecols[n][i]).tobytes()) for n in enames) or "-"
        pts.append(s + "#" + e)
    vl = "|".join(("T:" + common.hexb(v.record_data_bytes())) if is_eb(v) else ("F:" + common.hexb(vlr_flat(v))) for v in h.vlrs) or "-"
    if h.evlrs is None:
        ev = "none"
    else:
        ev = "some:" + ("|".join(common.hexb(vlr_flat(v)) for v in h.evlrs) or "-")
    return [f"{h.version.major}.{h.version.minor}", str(pf.id), ed, ";".join(pts) or "-", vl, ev]


def enc_resolution(las):
    """every name the point format lists, with what dimension_by_name finds under it: name=S | name=E:<descriptor> | name=!"""
    pf = las.point_format
    extra = list(pf.extra_dimensions)
    descs = descriptors(pf)
    toks = []
    for nm in pf.dimension_names:
        try:
            d = pf.dimension_by_name(nm)
        except Exception:
            toks.append(f"{nm}=!")
            continue
        if d.is_standard:
            toks.append(f"{nm}=S")
        else:
            j = [i for i, x in enumerate(extra) if x is d] or [i for i, x in enumerate(extra) if dim_key(x) == dim_key(d)]
            toks.append(f"{nm}=E:" + (common.hexb(descs[j[0]]) if j else "?"))
    return "|".join(toks) or "-"


def snapshot(las):
    """everything observable of a LasData, by value"""
    h = las.header
    arr = las.points.array
    return (
        bytes(np.ascontiguousarray(arr).tobytes()), str(arr.dtype.descr), len(las.points),
        tuple(lasio.f64bits(x) for x in las.points.scales), tuple(lasio.f64bits(x) for x in las.points.offsets),
        tuple(sorted((k, v) for k, v in lasio.header_assoc(h).items())),
        tuple((type(v).__name__, bytes(v.record_data_bytes()) if is_eb(v) else vlr_flat(v)) for v in h.vlrs),
        None if h.evlrs is None else tuple(vlr_flat(v) for v in h.evlrs),
        lasio.format_key(las.point_format), lasio.format_key(h.point_format),
        tuple((d.name, d.description) for d in las.point_format.dimensions),
        las.points.point_format is h.point_format,
    )


def serialised(las):
    """bytes of the LAS file a deep copy of the object writes (the copy, because writing updates the header)"""
    try:
        import laspy
        buf = io.BytesIO()
        dup = laspy.LasData(copy.deepcopy(las.header), laspy.PackedPointRecord(las.points.array.copy(), copy.deepcopy(las.points.point_format)))
        dup.write(buf)
        return buf.getvalue()
    except Exception as ex:
        return "unwritable " + type(ex).__name__


# ---------------------------------------------------------------------------------
# generators
# ---------------------------------------------------------------------------------
PROBLEMS = {}
USED = {}       # how often each way of using a result was exercised (reported in the input distribution)
_POOL = None


def used(key, k=1):
    USED[key] = USED.get(key, 0) + k


_SUBS, _CANDS = {}, {}


def sub_field_names(fmt):
    """names that record[name] resolves to a bit-packed sub-field of format fmt (only used to LABEL names, computed once)"""
    if fmt not in _SUBS:
        _SUBS[fmt] = [n for n in std_dim_names(fmt) if n not in SPEC_FIELDS[fmt]]
    return _SUBS[fmt]


def name_pool():
    """every name laspy gives a meaning to, and near misses: {name: 'field' | 'sub' | 'alias' | 'coordinate' | 'variant'}"""
    global _POOL
    if _POOL is None:
        from laspy.point import dims
        pool = {}
        for f in FMTS:
            for n in SPEC_FIELDS[f]:
                pool[n] = "field"
        for f in FMTS:
            for n in sub_field_names(f):
                pool.setdefault(n, "sub")
        for k, v in dims.OLD_LASPY_NAMES.items():
            pool.setdefault(k, "alias")
        for n in ("x", "y", "z"):
            pool.setdefault(n, "coordinate")
        for n in list(pool):
            for v in (n.upper(), n.capitalize(), n + "_", "_" + n, n[:-1], n + "2"):
                if v and v not in pool:
                    pool[v] = "variant"
        _POOL = pool
    return _POOL


def name_class(name, src, tgt):
    """how the name of an extra dimension of a format-src record relates to the names laspy knows, for a conversion to tgt"""
    pool = name_pool()
    t = src if tgt is None else tgt
    if t in FMTS and name in SPEC_FIELDS[t]:
        return "target-field"
    if t in FMTS and name in sub_field_names(t):
        return "target-sub-field"
    if src in FMTS and name in sub_field_names(src):
        return "source-sub-field"
    k = pool.get(name)
    if k in ("alias", "coordinate", "variant"):
        return k
    if k in ("field", "sub"):
        return "other-format"
    return "fresh"


def worst_class(las, src, tgt, only=None):
    """the most confusable class among the names of the extra dimensions (of the one named `only`)"""
    cl = [name_class(d.name, src, tgt) for d in las.point_format.extra_dimensions if only is None or d.name == only]
    for c in CLASSES:
        if c in cl:
            return c
    return "fresh"


def tag(kind, cls):
    return kind if cls == "fresh" else f"{kind} [name clash: {cls}]"


def clash_candidates(src, tgt):
    """{class: [names]} of the names an extra dimension of a format-src record may carry (numpy refuses the packed fields of src)"""
    if (src, tgt) not in _CANDS:
        out = {}
        for n in sorted(name_pool()):
            if n in SPEC_FIELDS[src]:
                continue
            out.setdefault(name_class(n, src, tgt), []).append(n)
        _CANDS[(src, tgt)] = out
    return _CANDS[(src, tgt)]


BASE_TYPES = ["u1", "i1", "u2", "i2", "u4", "i4", "u8", "i8", "f4", "f8"]


def add_clash_dims(rng, h, k, src, tgt):
    """k extra dimensions named after things laspy knows (own copy of lasio.add_extra_dims for the types / scaling)"""
    import laspy
    cands = clash_candidates(src, tgt if tgt in FMTS else src)
    used = set()
    for j in range(k):
        classes = [c for c in CLASSES if cands.get(c)]
        c = rng.choice(classes + [x for x in ("target-field", "target-sub-field", "alias") if x in classes])
        free = [n for n in cands[c] if n not in used]
        if not free:
            continue
        name = rng.choice(free)
        used.add(name)
        n = rng.choice([1, 1, 1, 2, 3])
        t = (str(n) if n > 1 else "") + rng.choice(BASE_TYPES)
        kw = {}
        if rng.random() < 0.25:
            kw = dict(scales=np.array([rng.choice([0.5, 0.01, 2.0]) for _ in range(n)]),
                      offsets=np.array([rng.choice([0.0, 10.0, -3.5]) for _ in range(n)]))
        h.add_extra_dim(laspy.ExtraBytesParams(name, t, description=lasio.rand_ascii(rng, rng.choice([0, 3, 32]), list(range(65, 91))), **kw))
    if k and rng.random() < 0.4:
        h.vlrs.append(lasio.rand_vlr(rng))
    return h


def fill_clash_values(rng, rec, src, tgt):
    """clash-named extra dimensions hold non-zero values: all ones (fit any field) or values above the ranges of standard fields"""
    n = len(rec.array)
    if not n:
        return
    ones = rng.random() < 0.5
    for d in rec.point_format.extra_dimensions:
        if name_class(d.name, src, tgt) == "fresh":
            continue
        a = rec.array[d.name]
        base = a.dtype.base
        if base.kind in "iu":
            info = np.iinfo(base)
            vals = [1] if ones else [1, min(70000, int(info.max)), int(info.max), 3]
        else:
            vals = [1.0] if ones else [1.0, 70000.25, 2.5]
        a[...] = np.array([rng.choice(vals) for _ in range(a.size)], dtype=base).reshape(a.shape)


# every record laspy gives a class (or a meaning) to; LAS specification: user id, record id, payload layout
KNOWN_KINDS = ["waveform", "lookup", "geokeys", "geodouble", "geoascii", "wktmath", "wktcs", "text", "superseded", "laszip", "copc"]


def known_vlr(rng, kind, used):
    """a raw laspy.VLR whose (user id, record id, payload) is a well-formed record of the given kind"""
    import laspy
    desc = lasio.rand_ascii(rng, rng.choice([0, 5, 31, 32]), list(range(65, 91)))
    if kind == "waveform":
        free = [i for i in (100, 101, 355, rng.randrange(100, 356), rng.randrange(100, 356)) if i not in used] or [i for i in range(100, 356) if i not in used]
        rid = rng.choice(free)
        used.add(rid)
        return laspy.VLR("LASF_Spec", rid, desc, struct.pack("<BBIIdd", rng.choice([8, 16, 32]), rng.choice([0, 1]), rng.choice([0, 1, 88, 2 ** 32 - 1]),
                                                            rng.choice([1, 500, 2 ** 32 - 1]), rng.choice([1.0, 0.5, -2.25]), rng.choice([0.0, 10.5])))
    if kind == "lookup":
        ids = rng.sample(range(256), rng.choice([1, 3, 3, 17, 17, 256]))
        return laspy.VLR("LASF_Spec", 0, desc, b"".join(struct.pack("<B15s", i, lasio.rand_ascii(rng, rng.choice([0, 4, 15]), list(range(97, 123))).encode()) for i in ids))
    if kind == "geokeys":
        k = rng.choice([0, 1, 4])
        return laspy.VLR("LASF_Projection", 34735, desc, struct.pack("<4H", 1, 1, 0, k) + b"".join(
            struct.pack("<4H", rng.choice([1024, 2048, 3072, 4099]), rng.choice([0, 34736, 34737]), 1, rng.choice([1, 4326, 32633, 65535])) for _ in range(k)))
    if kind == "geodouble":
        return laspy.VLR("LASF_Projection", 34736, desc, b"".join(struct.pack("<d", rng.choice([0.0, 1.5, -6378137.0, 298.257223563])) for _ in range(rng.choice([1, 2, 5]))))
    if kind == "geoascii":
        return laspy.VLR("LASF_Projection", 34737, desc, b"\0".join(lasio.rand_ascii(rng, rng.choice([1, 9, 40]), list(range(65, 91))).encode() + b"|" for _ in range(rng.choice([1, 2]))) + b"\0")
    if kind in ("wktmath", "wktcs"):
        txt = rng.choice(['GEOGCS["WGS 84",DATUM["WGS_1984",SPHEROID["WGS 84",6378137,298.257223563]]]', 'PARAM_MT["Affine",PARAMETER["num_row",3]]', "LOCAL_CS[]", ""])
        return laspy.VLR("LASF_Projection", 2111 if kind == "wktmath" else 2112, desc, txt.encode() + b"\0")
    if kind == "text":
        return laspy.VLR("LASF_Spec", 3, desc, lasio.rand_ascii(rng, rng.choice([0, 1, 120])).encode())
    if kind == "superseded":
        return laspy.VLR("LASF_Spec", 7, desc, b"")
    if kind == "laszip":
        return laspy.VLR("laszip encoded", 22204, desc, bytes(rng.randrange(256) for _ in range(rng.choice([34, 52]))))
    return laspy.VLR("copc", rng.choice([1, 1000]), desc, bytes(rng.randrange(256) for _ in range(rng.choice([160, 32]))))


def add_known_vlrs(spec, h):
    """the records of spec['kvlrs'] = [[kind, 'vlr' | 'evlr'], ...]: the 'vlr' ones inserted into h.vlrs (any position: before / after the
    extra-bytes record, next to each other), the 'evlr' ones returned; spec['kparse'] = 'raw' (plain VLR objects, as a user appends them)
    | 'factory' (the classes a reader would build). Own random stream: the sources of earlier rounds are unchanged."""
    rng = random.Random(spec["seed"] ^ 0x6B766C72)
    used, ev = set(), []
    for kind, place in spec["kvlrs"]:
        v = known_vlr(rng, kind, used)
        if spec.get("kparse") == "factory" and kind != "copc":      # the parsed COPC records cannot be serialised (laspy does not write COPC)
            try:
                from laspy.vlrs.known import vlr_factory
                v = vlr_factory(v)
            except Exception:
                PROBLEMS["vlr_factory unusable"] = PROBLEMS.get("vlr_factory unusable", 0) + 1
        if place == "evlr":
            ev.append(v)
        else:
            h.vlrs.insert(rng.randrange(len(h.vlrs) + 1), v)
    return ev


def build_source(spec):
    """spec (JSON-able dict) -> LasData; every random choice comes from Random(spec['seed'])"""
    import laspy
    from laspy.vlrs.vlrlist import VLRList
    rng = random.Random(spec["seed"])
    h = lasio.rand_header(rng, version=spec["sver"], fmt=spec["src"], nvlrs=spec["nvlrs"])
    if spec.get("clash"):
        add_clash_dims(rng, h, spec["nextra"], spec["src"], spec["tgt"])
    else:
        lasio.add_extra_dims(rng, h, spec["nextra"])
    if spec["vlr_after_eb"]:
        h.vlrs.append(lasio.rand_vlr(rng, max_payload=40))
    kev = add_known_vlrs(spec, h) if spec.get("kvlrs") else []
    n = spec["n"]
    rec = lasio.rand_points(rng, h, n, spec["pattern"])
    if spec.get("clash"):
        fill_clash_values(rng, rec, spec["src"], spec["tgt"])
    names = rec.array.dtype.names
    if n and spec["src"] >= 6:
        mode = spec["mode"]
        if mode in ("fit", "onebad"):
            rec.array["bit_fields"] &= 0x77
            rec.array["classification"] &= 31
            if rng.random() < 0.5:
                rec.array["classification"][rng.randrange(n)] = 31
                rec.array["bit_fields"][rng.randrange(n)] |= 0x77
        if mode == "onebad":
            i = rng.randrange(n)
            which = spec.get("bad") or rng.choice(["classification", "return_number", "number_of_returns"])
            if which == "classification":
                rec.array["classification"][i] = rng.choice([32, 255, rng.randrange(32, 256)])
            elif which == "return_number":
                rec.array["bit_fields"][i] = (int(rec.array["bit_fields"][i]) & 0xF0) | rng.choice([8, 15, rng.randrange(8, 16)])
            else:
                rec.array["bit_fields"][i] = (int(rec.array["bit_fields"][i]) & 0x0F) | (rng.choice([8, 15, rng.randrange(8, 16)]) << 4)
    if n and rng.random() < 0.5:
        i = rng.randrange(n)
        for c in ("X", "Y", "Z"):
            rec.array[c][i] = rng.choice([-2 ** 31, 2 ** 31 - 1, 0, -1])
        if "gps_time" in names and "gps_time" in SPEC_FIELDS.get(spec["src"], ()):      # the standard field, not an extra dimension of that name
            rec.array["gps_time"].view(np.uint64)[i] = rng.choice([0x7FF8000000000001, 0x7FF0000000000001, 0xFFF0000000000000, 1 << 63, 1])
        for d in h.point_format.extra_dimensions:
            a = rec.array[d.name]
            if a.dtype.base.kind in "iu" and a.dtype.base.itemsize == 8 and a.ndim == 1:
                a[i] = rng.choice([2 ** 60 + 1, 2 ** 53 + 1, -(2 ** 62) - 1 if a.dtype.base.kind == "i" else 2 ** 64 - 1])
    las = laspy.LasData(h, rec)
    ev = spec["evlrs"]
    if ev == "some":
        las.evlrs = VLRList([lasio.rand_vlr(rng, max_payload=30) for _ in range(rng.choice([1, 2]))])
    elif ev == "empty":
        las.evlrs = VLRList()
    if kev:
        las.evlrs = VLRList(kev[:1] + list(las.evlrs or []) + kev[1:])
    if spec.get("via_file"):
        try:
            buf = io.BytesIO()
            las.write(buf)
            buf.seek(0)
            las = laspy.read(buf)
        except Exception:      # writing / reading is not this property's subject: keep the in-memory object
            PROBLEMS["file round trip of the source failed"] = PROBLEMS.get("file round trip of the source failed", 0) + 1
    return las


def known_choice(rng, src, full=False, evlr_ok=True):
    """[[kind, place], ...]: 1..4 kinds (all of them when full), waveform descriptors (1..3 of them) most of the time when the source
    format has wave packets and sometimes when it has not; each as VLR or (one in four) as EVLR"""
    kinds = list(KNOWN_KINDS) if full else rng.sample(KNOWN_KINDS, rng.choice([1, 2, 4]))
    if "waveform" not in kinds and rng.random() < (0.8 if src in (4, 5, 9, 10) else 0.2):
        kinds.append("waveform")
    if "waveform" in kinds:
        kinds += ["waveform"] * rng.choice([0, 1, 2])
    rng.shuffle(kinds)
    return [[k, "evlr" if evlr_ok and rng.random() < 0.25 else "vlr"] for k in kinds]


def case_specs(ctx):
    rng = ctx.rng
    specs = []

    def add(src, tgt, ver, mode="wide", **kw):
        sver = kw.pop("sver", None) or rng.choice([v for v in VERS if src in lasio.COMPAT[v]])
        ev = kw.pop("evlrs", None) or (rng.choice(["some", "some", "empty", "none"]) if sver == "1.4" else rng.choice(["none", "none", "none", "some"]))
        nextra = kw.pop("nextra", None)
        nextra = rng.choice([0, 0, 1, 2, 3]) if nextra is None else nextra
        if nextra and "clash" not in kw and src in FMTS and rng.random() < 0.5:
            kw["clash"] = True
            kw.setdefault("n", rng.choice([1, 2, 3, 7]))
        s = dict(seed=rng.getrandbits(48), src=src, tgt=tgt, ver=ver, sver=sver, mode=mode, n=rng.choice([0, 1, 2, 3, 7]),
                 pattern=rng.choice(["random", "random", "ones", "small", "extremes"]), nextra=nextra,
                 nvlrs=rng.choice([0, 0, 1, 2, 5]), vlr_after_eb=bool(nextra) and rng.random() < 0.6, evlrs=ev,
                 via_file=rng.random() < 0.15)
        s.update(kw)
        if "kvlrs" not in s and src in FMTS and rng.random() < 0.2:      # records laspy knows by class, in any ordinary case
            s["kvlrs"] = known_choice(rng, src)
            s["kparse"] = rng.choice(["raw", "factory", "factory"])
        if s.get("via_file") and s.get("kvlrs"):      # a COPC record read from a file is a class laspy cannot serialise: nothing to compare
            s["kvlrs"] = [kp for kp in s["kvlrs"] if kp[0] != "copc"]
        specs.append(s)

    vers = [None] + VERS
    reps = ctx.n(2, 20)
    for _ in range(reps):
        for src in FMTS:
            for tgt in FMTS:
                for ver in vers:
                    if src >= 6 and tgt <= 5:
                        for mode in ("fit", "onebad", "wide"):
                            add(src, tgt, ver, mode)
                    else:
                        add(src, tgt, ver)
            for ver in vers:
                add(src, None, ver)
    # names: every pair, one or two extra dimensions named after something laspy knows; every value of the standard fields fits
    for _ in range(ctx.n(1, 6)):
        for src in FMTS:
            for tgt in FMTS:
                add(src, tgt, rng.choice(vers), "fit", clash=True, nextra=rng.choice([1, 1, 2]), n=rng.choice([1, 2, 5]))
    # VLR kinds: every pair, the source carries records laspy knows by class (raw / parsed / re-read from a file; VLR / EVLR)
    for _ in range(ctx.n(1, 5)):
        for src in FMTS:
            for tgt in FMTS:
                parse = rng.choice(["raw", "factory", "factory", "file"])
                sver = rng.choice([v for v in VERS if src in lasio.COMPAT[v]])
                add(src, tgt, rng.choice(vers), "fit", kvlrs=known_choice(rng, src, full=rng.random() < 0.3, evlr_ok=(parse != "file" or sver == "1.4")),
                    kparse="raw" if parse == "file" else parse, via_file=parse == "file", sver=sver, n=rng.choice([0, 1, 3]), nextra=rng.choice([0, 0, 1]))
    # one violating value in each narrow field, a single point, nothing else in the way
    for src in range(6, 11):
        for tgt in range(6):
            for bad in ("classification", "return_number", "number_of_returns"):
                add(src, tgt, None, "onebad", bad=bad, n=1, pattern="small")
    # unknown formats and versions
    for src in (0, 3, 6):
        for tgt in (11, -1, 64, 131, 255):
            for ver in (None, "1.2", "1.4"):
                add(src, tgt, ver, n=1)
        for ver in ("1.0", "1.5", "2.0", "0.9", "1.10"):
            add(src, rng.choice(FMTS), ver, n=1)
    return specs


# ---------------------------------------------------------------------------------
# the property on the implementation
# ---------------------------------------------------------------------------------
def vkey(s):
    a, b = s.split(".")
    return (int(a), int(b))


def values_of(las, name):
    """values of a dimension as python ints (floats by bit pattern), whatever the view class"""
    a = np.asarray(las.points[name])
    if a.dtype.kind == "f":
        a = np.ascontiguousarray(a).view(f"u{a.dtype.itemsize}")
    return [int(x) for x in a.reshape(-1)]


def std_dim_names(fmt):
    import laspy
    return list(laspy.PointFormat(fmt).dimension_names)


def first_diff(a, b):
    """index of the first element in which two equally long arrays differ (floats by bit pattern), or None"""
    a, b = np.asarray(a), np.asarray(b)
    if a.dtype.kind == "f":
        a = np.ascontiguousarray(a).view(f"u{a.dtype.itemsize}")
    if b.dtype.kind == "f":
        b = np.ascontiguousarray(b).view(f"u{b.dtype.itemsize}")
    if a.shape != b.shape:
        return 0
    ne = np.nonzero(np.atleast_1d(a != b).reshape(len(a), -1).any(axis=1))[0] if a.size else []
    return int(ne[0]) if len(ne) else None


# ---------------------------------------------------------------------------------
# round 6: the result is USED - read and assigned through every public route, its point format asked by name
# ---------------------------------------------------------------------------------
GET_ROUTES = ["las[name]", "las.name", "las.points[name]", "las.points.name"]
SET_ROUTES = ["las[name] = v", "las.name = v", "las.points[name] = v", "las.points.name = v", "las[name][:] = v", "las.points[name][i] = v[i]"]
_STD_T = {}


def std_names(fmt):
    if fmt not in _STD_T:
        _STD_T[fmt] = tuple(std_dim_names(fmt))
    return _STD_T[fmt]


def route_get(obj, name, k):
    if k == 0:
        return obj[name]
    if k == 1:
        return getattr(obj, name)
    if k == 2:
        return obj.points[name]
    return getattr(obj.points, name)


def route_set(obj, name, k, val):
    if k == 0:
        obj[name] = val
    elif k == 1:
        setattr(obj, name, val)
    elif k == 2:
        obj.points[name] = val
    elif k == 3:
        setattr(obj.points, name, val)
    elif k == 4 or len(val) > 8:
        obj[name][:] = val
    else:
        view = obj.points[name]
        for i in range(len(val)):
            view[i] = val[i]


def shown(v):
    """what the user is handed: class of the view, dtype, shape and the values (bytes: floats by bit pattern)"""
    with np.errstate(all="ignore"):
        a = np.asarray(v)
    return (type(v).__name__, a.dtype.str, tuple(a.shape), np.ascontiguousarray(a).tobytes())


def shown_diff(a, b):
    if a[:3] != b[:3]:
        return f"{b[0]} of {b[1]}{list(b[2])}, the source gives {a[0]} of {a[1]}{list(a[2])}"
    x, y = np.frombuffer(a[3], dtype=a[1]).reshape(a[2]), np.frombuffer(b[3], dtype=b[1]).reshape(b[2])
    i = first_diff(x, y)
    i = 0 if i is None else i
    return f"point {i} of {len(x)}: {np.atleast_1d(y)[i].tolist()!r}, the source gives {np.atleast_1d(x)[i].tolist()!r}"


def ext_resolves(fmt, name):
    """record[name] of a format-fmt record means the EXTRA dimension of that name (LAS specification + the documented aliases):
    not a legacy alias, not a scaled coordinate, not a dimension or packed field of the format"""
    from laspy.point import dims
    return name not in dims.OLD_LASPY_NAMES and name not in ("x", "y", "z") and name not in std_names(fmt) and name not in SPEC_FIELDS[fmt]


def dim_key(d):
    bits = lambda a: None if a is None else tuple(lasio.f64bits(float(x)) for x in np.asarray(a).reshape(-1))
    return (d.name, d.kind.name, int(d.num_bits), int(d.num_elements), bool(d.is_standard), d.description, bits(d.scales), bits(d.offsets))


def use_format(las, r, src, t):
    """the point format of the result, asked through each of its holders: names, sizes, dtype, every listed name resolvable"""
    import laspy
    bad = []
    tn = list(std_names(t))
    sdims = list(las.point_format.extra_dimensions)
    enames = [d.name for d in sdims]
    wc = worst_class(las, src, t)
    ref = laspy.PointFormat(t)
    for hn, pf in (("las.point_format", r.point_format), ("las.header.point_format", r.header.point_format), ("las.points.point_format", r.points.point_format)):
        got = list(pf.dimension_names)
        lists = (got, list(pf.standard_dimension_names), list(pf.extra_dimension_names), [d.name for d in pf.dimensions],
                 [d.name for d in pf.standard_dimensions], [d.name for d in pf.extra_dimensions])
        if lists != (tn + enames, tn, enames, tn + enames, tn, enames):
            bad.append((tag("dimension listing", wc), f"convert {src}->{t}: {hn} lists dimensions {lists[0]}, standard {lists[1]}, extra {lists[2]}; "
                        f"format {t} has {tn} and the source the extra dimensions {enames}"))
            continue
        sizes = (int(pf.size), int(pf.num_standard_bytes), int(pf.num_extra_bytes), int(pf.dtype().itemsize), list(pf.dtype().names), bool(pf.has_waveform_packet))
        want = (int(ref.size + las.point_format.num_extra_bytes), int(ref.size), int(las.point_format.num_extra_bytes),
                int(r.points.array.dtype.itemsize), list(r.points.array.dtype.names), t in (4, 5, 9, 10))
        if sizes != want or pf.dtype() != r.points.array.dtype:
            bad.append((tag("format sizes", wc), f"convert {src}->{t}: {hn} (size, standard bytes, extra bytes, dtype size, dtype names, wave packets) = {sizes}, expected {want}"))
        listed = list(pf.dimensions)
        for i, nm in enumerate(got):
            try:
                found = (pf.dimension_by_name(nm), pf[nm], pf[i])
            except Exception as ex:
                bad.append((tag("dimension_by_name", name_class(nm, src, t) if nm in enames else "fresh"),
                            f"convert {src}->{t}: {hn} lists {nm!r} ({'extra' if i >= len(tn) else 'standard'} dimension) but asking for it by name raised "
                            f"{type(ex).__name__}: {ex}"))
                break
            first = [x for x in listed if x.name == nm][0]
            if dim_key(found[0]) != dim_key(first) or dim_key(found[1]) != dim_key(first) or dim_key(found[2]) != dim_key(listed[i]):
                bad.append((tag("dimension_by_name", name_class(nm, src, t) if nm in enames else "fresh"),
                            f"convert {src}->{t}: {hn}.dimension_by_name({nm!r}) = {dim_key(found[0])}, [{nm!r}] = {dim_key(found[1])}, listed: {dim_key(first)}"))
                break
        for d, sd in zip(pf.extra_dimensions, sdims):
            if dim_key(d) != dim_key(sd):
                bad.append((tag("extra dimension descriptor", name_class(sd.name, src, t)), f"convert {src}->{t}: {hn} describes {dim_key(d)}, the source {dim_key(sd)}"))
                break
        if bad:
            break
    return bad


def use_reads(las, r, src, t, routes=(0, 1, 2, 3)):
    """every dimension of the result read through the public routes: what the user is handed (view class, dtype, shape, values) is what
    the source hands for that name; a scaled extra dimension is presented as stored * scale + offset (LAS specification)"""
    bad = []
    sn, tn = std_names(src), std_names(t)
    for nm in ["x", "y", "z"] + [x for x in tn if x in sn]:
        for k in routes:
            try:
                a = shown(route_get(las, nm, k))
            except Exception:
                continue
            try:
                b = shown(route_get(r, nm, k))
            except Exception as ex:
                bad.append((f"dimension {nm} unreadable", f"convert {src}->{t}: {GET_ROUTES[k]} with name = {nm!r} raised {type(ex).__name__}: {str(ex)[:100]}"))
                break
            if a[1:] != b[1:]:      # the class of the view belongs to the format (a bit field here, a byte there)
                bad.append((f"dimension {nm} as presented", f"convert {src}->{t}: {GET_ROUTES[k]} with name = {nm!r}: {shown_diff(a, b)}"))
                break
    for d in las.point_format.extra_dimensions:
        nm = d.name
        if not (ext_resolves(src, nm) and ext_resolves(t, nm)):
            continue        # the name means something else on one side: the stored bytes are compared by compare_records
        what = ("scaled " if d.scales is not None else "") + "extra dimension"
        cls = name_class(nm, src, t)
        raw = np.asarray(r.points.array[nm])
        if d.scales is not None:
            sc, of = np.asarray(d.scales, dtype=np.float64).reshape(-1), np.asarray(d.offsets, dtype=np.float64).reshape(-1)
            if d.num_elements == 1:
                sc, of = sc[0], of[0]
            with np.errstate(all="ignore"):
                spec_val = (raw * sc) + of
            spec_shown = ("ScaledArrayView", spec_val.dtype.str, tuple(spec_val.shape), np.ascontiguousarray(spec_val).tobytes())
        else:
            spec_shown = ("ndarray", raw.dtype.str, tuple(raw.shape), np.ascontiguousarray(raw).tobytes())
        used("use:read " + what, len(routes))
        for k in routes:
            try:
                b = shown(route_get(r, nm, k))
            except Exception as ex:
                bad.append((tag(what + " unreadable", cls), f"convert {src}->{t}: {GET_ROUTES[k]} with name = {nm!r} ({d.type_str()}) raised {type(ex).__name__}: {str(ex)[:100]}"))
                break
            try:
                a = shown(route_get(las, nm, k))
            except Exception:
                a = b
            if a != b or b != spec_shown:
                bad.append((tag(what + " as presented", cls),
                            f"convert {src}->{t}: {GET_ROUTES[k]} with name = {nm!r} ({d.type_str()}, scales {None if d.scales is None else np.asarray(d.scales).tolist()}, "
                            f"offsets {None if d.offsets is None else np.asarray(d.offsets).tolist()}): {shown_diff(a if a != b else spec_shown, b)}"
                            + ("" if a != b else " (= stored * scale + offset)")))
                break
    return bad


def try_set(obj, nm, k, val):
    try:
        with np.errstate(all="ignore"):
            route_set(obj, nm, k, val)
        return "ok"
    except Exception as ex:
        return common.exc_kind(ex)


def use_assign(twin, r, src, t, salt=0):
    """every dimension of the result is assigned (the values of the source in reverse order: they fit), through a route that rotates
    with the dimension; the same assignment is made on a twin of the source: same outcome, and afterwards both present the same values
    and hold the same bytes; a dimension the source lacks takes ones. [(kind, observed)]"""
    bad = []
    n = len(twin.points)
    sn, tn = std_names(src), std_names(t)
    edims = {d.name: d for d in twin.point_format.extra_dimensions if ext_resolves(src, d.name) and ext_resolves(t, d.name)}
    names = ["x", "y", "z"] + [x for x in tn if x in sn] + list(edims)
    for j, nm in enumerate(names):
        k = (salt + j) % len(SET_ROUTES)
        try:
            with np.errstate(all="ignore"):
                val = np.array(route_get(twin, nm, 0))[::-1].copy()
            raw_before = np.asarray(twin.points.array[nm]).copy() if nm in edims else None
        except Exception:
            continue
        o1, o2 = try_set(twin, nm, k, val), try_set(r, nm, k, val)
        d = edims.get(nm)
        used("use:assign " + SET_ROUTES[k] + (" (refused)" if o1 != "ok" else ""))
        used("use:assigned " + ("standard dimension" if d is None else "scaled extra dimension" if d.scales is not None else "extra dimension"))
        what = "dimension" if d is None else ("scaled " if d.scales is not None else "") + "extra dimension"
        cls = "fresh" if d is None else name_class(nm, src, t)
        if o1 != o2:
            bad.append((tag(f"{what} assignment outcome", cls), f"convert {src}->{t}: {SET_ROUTES[k]} with name = {nm!r}, v = {val.reshape(n, -1)[:3].tolist()}...: "
                        f"{o2} on the result, {o1} on the source"))
            continue
        if o2 != "ok":
            continue
        try:
            a, b = shown(route_get(twin, nm, 0)), shown(route_get(r, nm, 0))
        except Exception as ex:
            bad.append((tag(f"{what} unreadable", cls), f"convert {src}->{t}: reading {nm!r} after {SET_ROUTES[k]} raised {type(ex).__name__}: {str(ex)[:100]}"))
            continue
        stored = None
        if d is not None:
            rr = np.asarray(r.points.array[nm])
            if d.scales is None:
                stored = val if rr.tobytes() != val.tobytes() else None
            elif rr.dtype.base.kind in "iu" and rr.dtype.base.itemsize <= 4:
                stored = raw_before[::-1] if rr.tobytes() != raw_before[::-1].tobytes() else None
        elif nm not in ("x", "y", "z") and b[3] != np.ascontiguousarray(val).tobytes():
            stored = val
        if d is None:
            a = (b[0],) + a[1:]
        if a != b or stored is not None:
            rr = np.asarray(r.points.array[nm]) if d is not None else np.frombuffer(b[3], dtype=b[1]).reshape(b[2])
            bad.append((tag(f"{what} assignment", cls), f"convert {src}->{t}: after {SET_ROUTES[k]} with name = {nm!r}, v = {val.reshape(n, -1)[:3].tolist()}... "
                        + (f"the result presents {shown_diff(a, b)} (after the same assignment)" if a != b else
                           f"the result stores {rr.reshape(n, -1)[:3].tolist()}..., expected {np.asarray(stored).reshape(n, -1)[:3].tolist()}...")))
    if not bad:
        bad += [(k + " (after assignments)", w) for k, w in compare_records(twin, r, src, t, routes=(salt % 4,), fmt=False)][:2]
    # dimensions the source format lacks: they are zero, they take ones, nothing else moves
    fresh = [x for x in tn if x not in sn]
    if fresh and not bad:
        for j, nm in enumerate(fresh):
            k = (salt + j) % len(SET_ROUTES)
            try:
                one = np.ones(n, dtype=np.asarray(route_get(r, nm, 0)).dtype)
            except Exception as ex:
                bad.append((f"dimension {nm} unreadable", f"convert {src}->{t}: las[{nm!r}] raised {type(ex).__name__}: {str(ex)[:100]}"))
                continue
            o = try_set(r, nm, k, one)
            got = None if o != "ok" else np.asarray(route_get(r, nm, 0))
            if o != "ok" or got.tobytes() != one.tobytes():
                bad.append((f"dimension {nm} assignment", f"convert {src}->{t}: {SET_ROUTES[k]} with name = {nm!r} (a dimension format {src} lacks), v = ones: "
                            + (o if o != "ok" else f"reads {got[:4].tolist()} afterwards")))
        if not bad:
            bad += [(k + " (after assignments)", w) for k, w in compare_records(twin, r, src, t, routes=(), fmt=False) if " not zero" not in k][:2]
    # structure: an extra dimension removed from the result (and from the twin): the others stay, listed and readable, with the same values
    if edims and not bad:
        gone = list(edims)[salt % len(edims)]
        o1, o2 = "ok", "ok"
        try:
            twin.remove_extra_dim(gone)
        except Exception as ex:
            o1 = common.exc_kind(ex)
        try:
            r.remove_extra_dim(gone)
        except Exception as ex:
            o2 = common.exc_kind(ex)
        used("use:remove_extra_dim")
        if o1 != o2:
            bad.append((tag("extra dimension removal outcome", name_class(gone, src, t)), f"convert {src}->{t}: remove_extra_dim({gone!r}) on the result: {o2}, on the source: {o1}"))
        elif o2 == "ok":
            bad += [(k + " (after remove_extra_dim)", w) for k, w in compare_records(twin, r, src, t, routes=(salt % 4,)) if " not zero" not in k][:2]
    return bad


def compare_records(las, r, src, t, tgt=None, routes=None, fmt=True):
    """the record part of C12 on a result r of convert(las -> format t): [(kind, observed)] (vectorised: any record size)"""
    bad = []
    if len(r.points) != len(las.points):
        return [("point count", f"{len(r.points)} points, source has {len(las.points)}")]
    if routes is None:
        routes = (0, 1, 2, 3) if len(las.points) <= 4096 else (len(las.points) % 4,)
    try:
        bad += (use_format(las, r, src, t) if fmt else []) + (use_reads(las, r, src, t, routes) if routes else [])
    except Exception as ex:
        bad.append(("result unusable", f"convert {src}->{t}: using the result raised {type(ex).__name__}: {str(ex)[:120]}"))
    sn, tn = std_dim_names(src), std_dim_names(t)
    for nm in ["X", "Y", "Z"] + [x for x in tn if x in sn and x not in ("X", "Y", "Z")]:
        a, b = np.asarray(las.points[nm]), np.asarray(r.points[nm])
        i = first_diff(a, b)
        if i is not None:
            cls = worst_class(las, src, t, only=nm)
            bad.append((tag(f"dimension {nm}", cls if cls != "fresh" else worst_class(las, src, t)),
                        f"point {i} of {len(a)}: {nm} = {b[i]!r} after convert {src}->{t}, source holds {a[i]!r}"))
    for nm in [x for x in tn if x not in sn]:
        b = np.asarray(r.points[nm])
        nz = np.nonzero(b)[0]
        if len(nz):
            bad.append((tag(f"dimension {nm} not zero", worst_class(las, src, t, only=nm)),
                        f"point {int(nz[0])}: {nm} = {b[nz[0]]!r} after convert {src}->{t}; format {src} has no such dimension"
                        + (f" (the source holds an EXTRA dimension of that name: {np.asarray(las.points.array[nm]).reshape(len(b), -1)[nz[0]].tolist()})"
                           if nm in (las.points.array.dtype.names or ()) else "")))
    ks, kr = lasio.format_key(las.point_format)[1], lasio.format_key(r.point_format)[1]
    if ks != kr:
        missing = [k[0] for k in ks if k[0] not in [x[0] for x in kr]]
        cls = worst_class(las, src, t, only=missing[0]) if missing else worst_class(las, src, t)
        bad.append((tag("extra dimension layout", cls), f"{kr} vs source {ks}" + (f": {missing} missing" if missing else "")))
    else:
        for d in las.point_format.extra_dimensions:
            a = np.asarray(las.points.array[d.name])
            b = np.asarray(r.points.array[d.name])
            if a.dtype != b.dtype or a.shape != b.shape or a.tobytes() != b.tobytes():
                i = first_diff(a, b) if a.dtype == b.dtype and a.shape == b.shape else 0
                i = 0 if i is None else i      # only the bytes differ (NaN payloads ...)
                bad.append((tag("extra dimension bytes", name_class(d.name, src, t)),
                            f"{d.name} ({d.type_str()}, scaled={d.is_scaled}) point {i} of {len(a)}: {np.atleast_1d(b)[i].tolist()!r} "
                            f"after convert {src}->{t}, source holds {np.atleast_1d(a)[i].tolist()!r}"))
            sd = [x for x in r.point_format.extra_dimensions if x.name == d.name][0]
            if sd.description != d.description:
                bad.append(("extra dimension description", f"{d.name}: {sd.description!r} vs {d.description!r}"))
    if np.shares_memory(r.points.array, las.points.array):
        bad.append(("shared state array", "result and source records share memory"))
    return bad


def compare_vlr_lists(what, src_list, res_list, src_vl, res_vl, ctxt):
    """all the records of the source, in order, by value (user id, record id, description, payload); then the list of the result asked
    the way a user looks a record up: by class name, by user id / record id. [(kind, observed)]"""
    label = lambda v: f"{type(v).__name__} {v.user_id}/{v.record_id}"
    us, ur = [vlr_flat(v) for v in src_list], [vlr_flat(v) for v in res_list]
    if us != ur:
        lost = [v for v, f in zip(src_list, us) if f not in ur]
        new = [v for v, f in zip(res_list, ur) if f not in us]
        if lost:
            return [(f"{what} lost {type(lost[0]).__name__}", f"{ctxt}: {len(ur)} of the {len(us)} records of the source ({[label(v) for v in src_list]}) are in the "
                     f"result; lost: {[label(v) for v in lost]}")]
        if new:
            return [(f"{what} added", f"{ctxt}: the result holds {[label(v) for v in new]}, the source does not")]
        return [(f"{what} order", f"{ctxt}: {[label(v) for v in res_list]}, source {[label(v) for v in src_list]}")]
    bad = []
    for cls in sorted({type(v).__name__ for v in src_list}):
        try:
            a, ia = [vlr_flat(v) for v in src_vl.get(cls)], src_vl.index(cls)
        except Exception:
            continue        # the source's own list cannot be asked that way
        try:
            b, ib = [vlr_flat(v) for v in res_vl.get(cls)], res_vl.index(cls)
        except Exception as ex:
            b, ib = type(ex).__name__, -1
        if a != b or (ia != ib and not any(is_eb(v) for v in src_vl)):
            bad.append((f"{what} lookup {cls}", f"{ctxt}: .get({cls!r}) gives {b if isinstance(b, str) else len(b)} records (first at {ib}), on the source {len(a)} (first at {ia})"))
            break
    for uid, rid in sorted({(v.user_id, v.record_id) for v in src_list}):
        try:
            a = [vlr_flat(v) for v in src_vl.get_by_id(uid, (rid,)) if not is_eb(v)]
        except Exception:
            continue
        try:
            b = [vlr_flat(v) for v in res_vl.get_by_id(uid, (rid,)) if not is_eb(v)]
        except Exception as ex:
            b = type(ex).__name__
        if a != b:
            bad.append((f"{what} lookup by id", f"{ctxt}: .get_by_id({uid!r}, ({rid},)) gives {b if isinstance(b, str) else len(b)} records, on the source {len(a)}"))
            break
    return bad


def call_convert(las, spec):
    import laspy
    kw = {}
    if spec["tgt"] is not None:
        kw["point_format_id"] = spec["tgt"]
    if spec["ver"] is not None:
        kw["file_version"] = spec["ver"]
    try:
        return laspy.convert(las, **kw), "ok"
    except Exception as ex:
        return None, common.exc_kind(ex)


def oracle(spec, las, before, outcome, res, ser_before=None):
    """list of (kind, observed) violations of C12 on this case; outcome = 'ok' | exception kind"""
    bad = []
    src, tgt, ver = spec["src"], spec["tgt"], spec["ver"]
    t = src if tgt is None else tgt
    after = snapshot(las)
    if after != before:
        which = [i for i, (x, y) in enumerate(zip(before, after)) if x != y]
        bad.append(("source modified", f"snapshot components {which} of the source differ after convert ({outcome})"))
    elif ser_before is not None:
        ser_after = serialised(las)
        if ser_after != ser_before:
            bad.append(("source modified", f"the file written from the source differs after convert ({outcome})"))
    known_t = t in FMTS
    sv = (las.header.version.major, las.header.version.minor)
    if ver is not None:
        compat = ver in lasio.COMPAT and known_t and t in lasio.COMPAT[ver]
        want_v = vkey(ver) if compat else None
    else:
        compat = known_t
        want_v = max(sv, vkey(PREFERRED[t])) if compat else None
    if not compat:
        if outcome != "ELaspy":
            bad.append(("incompatible request accepted", f"format {t} with version {ver}: {outcome}, expected LaspyException"))
        return bad
    wc = worst_class(las, src, t)
    # expected narrowing
    over = []
    if src >= 6 and t <= 5 and len(las.points):
        for nm, mx in NARROW.items():
            vals = values_of(las, nm)
            if max(vals) > mx:
                over.append((nm, max(vals), mx))
    # names: an extra dimension named like a packed field of the target cannot be stored next to it
    clash = [d.name for d in las.point_format.extra_dimensions if d.name in SPEC_FIELDS[t]]
    if clash:
        if outcome == "ok":
            enames = list(res.point_format.extra_dimension_names)
            try:
                got = np.asarray(res.points[clash[0]]).reshape(len(res.points), -1)[:4].tolist()
            except Exception as ex:
                got = type(ex).__name__
            bad.append((tag("name clash accepted", "target-field"),
                        f"the source has an extra dimension {clash[0]!r} ({[d for d in las.point_format.extra_dimensions if d.name == clash[0]][0].type_str()}, "
                        f"values {np.asarray(las.points.array[clash[0]]).reshape(len(las.points), -1)[:4].tolist()}); format {t} has a field "
                        f"of that name: convert {src}->{t} returned a result with extra dimensions {enames} and {clash[0]} = {got}"))
        elif outcome != "EValue" and not (over and outcome == "EOverflow"):
            bad.append((tag("name clash wrong error", "target-field"), f"extra dimension {clash[0]!r} next to format {t}: {outcome}, expected ValueError"))
        return bad + second_call(spec, las, outcome, None)
    if over:
        if outcome != "EOverflow":
            nm, v, mx = over[0]
            if outcome == "ok":
                got = values_of(res, nm)
                bad.append((f"narrowing not refused {nm}", f"{nm} holds {v} (> {mx}) in the source; convert {src}->{t} returned a record with {nm} = {got[:8]}"))
            else:
                bad.append((f"narrowing wrong error {nm}", f"{nm} holds {v} (> {mx}): {outcome}, expected OverflowError"))
        return bad + second_call(spec, las, outcome, None)
    if outcome != "ok":
        bad.append((tag("conversion refused", wc), f"convert {src}->{t} version {ver}: {outcome} although every value fits"
                    + (f" (extra dimensions {list(las.point_format.extra_dimension_names)})" if wc != "fresh" else "")))
        return bad
    r = res
    if len(r.points) != len(las.points):
        bad.append(("point count", f"{len(r.points)} points, source has {len(las.points)}"))
        return bad
    if r.point_format.id != t or r.header.point_format.id != t:
        bad.append(("target format", f"result format {r.point_format.id}, requested {t}"))
    rv = (r.header.version.major, r.header.version.minor)
    if rv != want_v:
        bad.append(("version rule " + ("explicit" if ver else "implicit"), f"result version {rv}, expected {want_v} (source {sv}, requested {ver})"))
    if ver is None and rv < sv:
        bad.append(("version lowered", f"{sv} -> {rv}"))
    if t not in lasio.COMPAT.get(f"{rv[0]}.{rv[1]}", ()):
        bad.append(("incompatible result", f"version {rv} with format {t}"))
    # the record: coordinates, common dimensions, dimensions the source lacks, extra dimensions
    bad += compare_records(las, r, src, t)
    ks = lasio.format_key(las.point_format)[1]
    # the result is a LasData like any other: converted back to the source format it gives what C12 promises of it
    if not bad and src != t:
        back, out_b = call_convert(r, {"tgt": src, "ver": None})
        used("use:converted back")
        if out_b != "ok":
            bad.append((tag("result not convertible", wc), f"convert {src}->{t} succeeded; converting its result back to format {src}: {out_b}"))
        else:
            bad += [(k + " (result converted back)", w) for k, w in compare_records(r, back, t, src, routes=(spec["seed"] % 4,))][:2]
            bad += [(k + " (result converted back)", w) for k, w in compare_vlr_lists(
                "vlrs", [v for v in las.header.vlrs if not is_eb(v)], [v for v in back.header.vlrs if not is_eb(v)], las.header.vlrs, back.header.vlrs,
                f"convert {src}->{t}->{src}")][:1]
    # VLRs
    bad += compare_vlr_lists("vlrs", [v for v in las.header.vlrs if not is_eb(v)], [v for v in r.header.vlrs if not is_eb(v)], las.header.vlrs, r.header.vlrs,
                             f"convert {src}->{t} version {ver}")
    if r.vlrs is not r.header.vlrs:
        bad.append(("vlrs", "las.vlrs is not las.header.vlrs on the result"))
    ebs = [v for v in r.header.vlrs if is_eb(v)]
    if len(ebs) != (1 if ks else 0):
        bad.append(("extra bytes vlr", f"{len(ebs)} ExtraBytesVlr for {len(ks)} extra dimensions"))
    elif ebs:
        got = [(p.name, np.dtype(p.type).str, None if p.scales is None else tuple(map(float, p.scales)),
                None if p.offsets is None else tuple(map(float, p.offsets)), p.description) for p in ebs[0].type_of_extra_dims()]
        want = [(d.name, np.dtype(d.type_str()).str if d.num_elements == 1 else None, None if d.scales is None else tuple(map(float, d.scales)),
                 None if d.offsets is None else tuple(map(float, d.offsets)), d.description) for d in las.point_format.extra_dimensions]
        if len(got) != len(want):
            bad.append((tag("extra bytes vlr", wc), f"{len(got)} descriptors for {len(want)} extra dimensions"))
        for g, w in zip(got, want):
            if g[0] != w[0] or (w[1] is not None and g[1] != w[1]) or g[2:] != w[2:]:
                bad.append(("extra bytes vlr", f"descriptor {g} vs source dimension {w}"))
                break
    # EVLRs
    if rv >= (1, 4):
        es = None if las.header.evlrs is None else [vlr_flat(v) for v in las.header.evlrs]
        er = None if r.header.evlrs is None else [vlr_flat(v) for v in r.header.evlrs]
        if es != er and not (not es and not er):
            bad += compare_vlr_lists("evlrs", list(las.header.evlrs or []), list(r.header.evlrs or []), las.header.evlrs or [], r.header.evlrs or [],
                                     f"convert {src}->{t} to version {rv}") or [("evlrs", f"{er} after convert to {rv}, source has {es}")]
        elif es and r.evlrs is not r.header.evlrs:
            bad.append(("evlrs", "las.evlrs is not las.header.evlrs on the result"))
    # shared state: edits of the result must not show in the source, nor in what a second call returns
    snap_r = snapshot(r)
    # the result is used: every dimension assigned through the public routes, next to the same assignments on a twin of the source
    if not bad:
        try:
            twin = build_source(spec)
            if snapshot(twin) != before:
                PROBLEMS["twin of the source differs"] = PROBLEMS.get("twin of the source differs", 0) + 1
            else:
                bad += use_assign(twin, r, src, t, salt=spec["seed"] % 12)
        except Exception as ex:
            bad.append((tag("result unusable", wc), f"convert {src}->{t}: assigning the dimensions of the result raised {type(ex).__name__}: {str(ex)[:120]}"))
    try:
        mutate(r)
    except Exception as ex:  # the result must be an ordinary, editable LasData
        bad.append((tag("result not editable", wc), f"{type(ex).__name__}: {ex}"))
    after2 = snapshot(las)
    if after2 != before:
        which = [i for i, (x, y) in enumerate(zip(before, after2)) if x != y]
        bad.append(("shared state", f"editing the result changed snapshot components {which} of the source"))
    return bad + second_call(spec, las, outcome, snap_r)


def second_call(spec, las, outcome, snap_r):
    """the same request again, after the caller edited what the first call returned: same outcome, same result by value"""
    res2, out2 = call_convert(las, spec)
    if out2 != outcome:
        return [("second call differs", f"convert {spec['src']}->{spec['tgt']} version {spec['ver']}: first call {outcome}, second call "
                 f"(after the first result was edited) {out2}")]
    if snap_r is not None:
        snap2 = snapshot(res2)
        if snap2 != snap_r:
            which = [i for i, (x, y) in enumerate(zip(snap_r, snap2)) if x != y]
            return [("second call differs", f"convert {spec['src']}->{spec['tgt']} version {spec['ver']}: snapshot components {which} of the "
                     f"second result differ from the first result (taken before the caller edited it)")]
    return []


def mutate(r):
    import laspy
    if len(r.points):
        r.points.array.view(np.uint8)[...] ^= 0xFF
    h = r.header
    h.file_source_id ^= 1
    h.global_encoding.value ^= 1
    h.system_identifier = "changed"
    for nm in ("scales", "offsets", "mins", "maxs"):
        getattr(h, nm)[0] += 1.5
    h.number_of_points_by_return[0] += 1
    h.point_count += 1
    h.extra_header_bytes = b"zz"
    r.points.scales[1] += 2.0
    r.points.offsets[1] += 2.0
    for v in r.vlrs:
        if not is_eb(v):
            v.record_data = b"edited"
            break
    r.vlrs.append(laspy.VLR("verif", 1, "appended", b"x"))
    if len(r.vlrs) > 1:
        r.vlrs.pop(0)
    if r.evlrs is not None:
        r.evlrs.append(laspy.VLR("verif", 2, "appended", b"y"))
        r.evlrs.pop(0)
    r.add_extra_dim(laspy.ExtraBytesParams("verif_added", "uint8"))


def run_case(spec):
    """-> dict(model_cmd, impl token, oracle violations, stats)"""
    import laspy
    las = build_source(spec)
    before = snapshot(las)
    ser_before = serialised(las)
    src_tokens = enc_las(las)
    res, outcome = call_convert(las, spec)
    if outcome == "ok":
        try:
            impl = "ok " + " ".join(enc_las(res)) + " " + ("T" if snapshot(las) == before else "F") + " " + enc_resolution(res)
        except Exception as ex:
            impl = f"ok unreadable-result {type(ex).__name__}: {ex}"
    else:
        impl = "err " + outcome
    try:
        viol = oracle(spec, las, before, outcome, res, ser_before)
    except Exception as ex:     # the result (or the source afterwards) cannot even be inspected through the public API
        viol = [("result unusable", f"inspecting the result of convert {spec['src']}->{spec['tgt']} raised {type(ex).__name__}: {str(ex)[:120]}")]
    cmd = "convert {} {} {} {} {} {} {} {}".format(src_tokens[0], src_tokens[1], "-" if spec["tgt"] is None else spec["tgt"],
                                                     spec["ver"] or "-", *src_tokens[2:])
    return dict(cmd=cmd, impl=impl, viol=viol, outcome=outcome, wc=worst_class(las, spec["src"], spec["src"] if spec["tgt"] is None else spec["tgt"]), digest=hash((src_tokens[3], src_tokens[2], src_tokens[4], src_tokens[5])),
                n=len(las.points), nontrivial=bool(len(las.points) or src_tokens[2] != "-" or src_tokens[4] != "-"))


_CASES = None


def all_cases(ctx):
    global _CASES
    if _CASES is None:
        ctx.extra["rule"] = RULE
        out = []
        for spec in case_specs(ctx):
            try:
                c = run_case(spec)
            except Exception as ex:    # the case could not be evaluated at all (not a verdict about the property)
                if __import__("os").environ.get("C12_DEBUG"):
                    __import__("traceback").print_exc()
                k = f"case not evaluated: {type(ex).__name__}: {str(ex)[:80]}"
                PROBLEMS[k] = PROBLEMS.get(k, 0) + 1
                continue
            c["spec"] = spec
            out.append(c)
            narrowing = spec["src"] >= 6 and (spec["tgt"] is not None and 0 <= spec["tgt"] <= 5)
            ctx.count("pair:" + ("narrowing" if narrowing else "unknown-target" if spec["tgt"] not in FMTS + [None] else "same-format" if spec["tgt"] in (None, spec["src"]) else "other"))
            ctx.count("version:" + ("implicit" if spec["ver"] is None else "explicit"))
            ctx.count("outcome:" + c["outcome"])
            if narrowing:
                ctx.count("mode:" + spec["mode"])
            ctx.count("extra-dims:" + str(spec["nextra"]))
            for kind, place in spec.get("kvlrs") or []:
                ctx.count(f"known-record:{kind} as {place} ({'file' if spec.get('via_file') else spec.get('kparse')})")
            ctx.case((spec["src"], spec["tgt"], spec["ver"], spec["sver"], spec["mode"], c["digest"]), nontrivial=c["nontrivial"],
                     sample={"source_format": spec["src"], "target": spec["tgt"], "version": spec["ver"], "points": c["n"], "outcome": c["outcome"]})
        _CASES = out
        for k, v in PROBLEMS.items():
            ctx.notes.append(f"{k} ({v} cases)")
        if len(out) < 100:
            raise RuntimeError(f"only {len(out)} cases could be evaluated: {PROBLEMS}")
    return _CASES


def table_checks():
    """dimension names and lost_dimensions of the implementation, all formats / pairs: [(cmd, impl token)]"""
    from laspy.point.format import lost_dimensions
    out = []
    import laspy
    for f in FMTS:
        out.append((f"dims {f}", "|".join(std_dim_names(f)), False))
        out.append((f"storage {f}", "|".join(laspy.PointFormat(f).dtype().names), False))
    for a in FMTS:
        for b in FMTS:
            out.append((f"lost {a} {b}", lost_dimensions(a, b), True))
    return out


def correspond(ctx):
    dis = []
    cases = all_cases(ctx)
    outs = common.run_model([c["cmd"] for c in cases], name=DRIVER)
    for c, mo in zip(cases, outs):
        ctx.traces += 1
        if mo != c["impl"]:
            s = c["spec"]
            if mo.startswith("err") or c["impl"].startswith("err"):
                what = f"outcome {mo.split()[1] if mo.startswith('err') else 'ok'} vs {c['impl'].split()[1] if c['impl'].startswith('err') else 'ok'}"
            else:
                a, b = mo.split(" "), c["impl"].split(" ")
                parts = ["version", "format", "extra dims", "points", "vlrs", "evlrs", "source unchanged", "name resolution"]
                what = "result differs in " + ",".join(p for p, x, y in zip(parts, a[1:], b[1:]) if x != y)
            dis.append({"kind": tag(what, c["wc"]), "input": s, "model": mo[:300], "impl": c["impl"][:300]})
    tabs = table_checks()
    outs = common.run_model([t[0] for t in tabs], name=DRIVER)
    for (cmd, impl, as_set), mo in zip(tabs, outs):
        ctx.traces += 1
        ctx.case(cmd, nontrivial=True)
        ctx.count("table:" + cmd.split()[0])
        m = [] if mo == "-" else mo.split("|")
        if as_set:
            ok = sorted(m) == sorted(impl) and len(set(impl)) == len(impl)
        else:
            ok = mo == impl
        if not ok:
            dis.append({"kind": "table " + cmd.split()[0], "input": {"cmd": cmd}, "model": mo, "impl": str(impl)})
    return dis


def lost_oracle():
    """lost_dimensions for all 121 pairs, each asked twice: the caller edits the list it got (clear / append / drop / reverse),
    the next answer must still be exactly the dimensions of a absent from b"""
    from laspy.point.format import lost_dimensions
    bad = []
    for a in FMTS:
        for b in FMTS:
            want = set(std_dim_names(a)) - set(std_dim_names(b))
            got = lost_dimensions(a, b)
            if set(got) != want or len(got) != len(set(got)):
                bad.append({"kind": "lost dimensions", "input": {"lost": [a, b]},
                            "observed": f"lost_dimensions({a}, {b}) = {sorted(got)}, dimensions of {a} absent from {b}: {sorted(want)}"})
                return bad
            edit = ["clear", "append", "drop", "reverse"][(a + 3 * b) % 4]
            try:
                if edit == "clear":
                    got.clear()
                    got.append("edited_by_the_caller")
                elif edit == "append":
                    got.append("edited_by_the_caller")
                elif edit == "drop" and got:
                    got.pop()
                else:
                    got.reverse()
                    got.insert(0, "edited_by_the_caller")
            except (AttributeError, TypeError):
                pass        # an immutable answer cannot be edited: fine
            again = lost_dimensions(a, b)
            if set(again) != want or len(again) != len(set(again)):
                bad.append({"kind": "lost dimensions second call", "input": {"lost": [a, b], "edit": edit},
                            "observed": f"lost_dimensions({a}, {b}) asked again after the caller edited ({edit}) the list it got the first time = "
                                        f"{sorted(again)}, dimensions of {a} absent from {b}: {sorted(want)}"})
                return bad
    return bad


def api_twice():
    """the table functions convert relies on and exports, called twice, the caller editing the first answer in between"""
    import laspy
    bad = []

    def canon(x):
        if isinstance(x, (set, frozenset)):
            return sorted(map(str, x))
        if isinstance(x, np.dtype):
            return str(x.descr)
        if isinstance(x, (list, tuple)):
            return [canon(y) for y in x]
        return str(x)

    def edit(x):
        try:
            if isinstance(x, set):
                x.clear()
                x.add("edited")
            elif isinstance(x, list):
                del x[len(x) // 2:]
                x.append(x[0] if x else "edited")
            elif isinstance(x, dict):
                x.clear()
        except Exception:
            pass

    calls = [("supported_point_formats", lambda: laspy.supported_point_formats(), lambda v: v == sorted(map(str, FMTS))),
             ("supported_versions", lambda: laspy.supported_versions(), lambda v: set(VERS) <= set(v))]
    for f in FMTS:
        calls.append((f"PointFormat({f}).dimensions", (lambda f=f: laspy.PointFormat(f).dimensions),
                      (lambda v, f=f: len(v) == len(std_dim_names(f)))))
        calls.append((f"list(PointFormat({f}).dimension_names)", (lambda f=f: list(laspy.PointFormat(f).dimension_names)),
                      (lambda v, f=f: len(v) == len(set(v)) and set(SPEC_FIELDS[f]) - {"bit_fields", "raw_classification", "classification_flags"} <= set(v))))
        calls.append((f"PointFormat({f}).dtype().descr", (lambda f=f: laspy.PointFormat(f).dtype().descr),
                      (lambda v, f=f: len(v) == len(SPEC_FIELDS[f]))))
        calls.append((f"list(PointFormat({f}).extra_dimension_names)", (lambda f=f: list(laspy.PointFormat(f).extra_dimension_names)),
                      (lambda v: v == [])))
    for name, thunk, ok in calls:
        first = thunk()
        c1 = canon(first)
        if not ok(c1):
            bad.append({"kind": "table function", "input": {"api_twice": name}, "observed": f"{name} = {c1}"})
            continue
        edit(first)
        c2 = canon(thunk())
        if c2 != c1:
            bad.append({"kind": "table function second call", "input": {"api_twice": name},
                        "observed": f"{name}: {c2} after the caller edited the first answer, {c1} the first time"})
    return bad


# ---------------------------------------------------------------------------------
# names: every name laspy knows (and near misses) as an extra dimension, every (source, target) pair
# ---------------------------------------------------------------------------------
def sweep_source(src, name, typ, vals):
    import laspy
    h = laspy.LasHeader(version="1.4", point_format=src)
    h.add_extra_dim(laspy.ExtraBytesParams(name, typ))
    h.add_extra_dim(laspy.ExtraBytesParams("plain_extra", "u2"))
    rec = laspy.ScaleAwarePointRecord.zeros(len(vals), header=h)
    n = len(vals)
    for d in h.point_format.standard_dimensions:      # every standard dimension non-zero and within the narrowest field
        rec[d.name] = (np.arange(n) % (1 if d.num_bits == 1 else 3 if d.name == "scanner_channel" else 7)) + 1 \
            if d.kind.name != "FloatingPoint" else np.arange(n) + 1.5
    rec.array[name] = np.array(vals, dtype=rec.array[name].dtype)
    rec.array["plain_extra"] = np.arange(n) + 500
    return laspy.LasData(h, rec)


def sweep_one(inp):
    """one (source format, name, type, values) source converted to every target: [(kind, observed, input)]"""
    src, name, typ, vals = inp["src"], inp["name"], inp["type"], inp["values"]
    out = []
    las = sweep_source(src, name, typ, vals)
    raw = las.points.array.tobytes()
    for t in inp.get("targets") or FMTS:
        res, outcome = call_convert(las, {"src": src, "tgt": t, "ver": None})
        cls = name_class(name, src, t)
        bad = []
        if name in SPEC_FIELDS[t]:
            if outcome == "ok":
                bad.append((tag("name clash accepted", cls),
                            f"format {src} + extra dimension {name!r} ({typ}) = {vals}; format {t} has a field of that name: convert returned a "
                            f"result with extra dimensions {list(res.point_format.extra_dimension_names)} and {name} = "
                            f"{np.asarray(res.points[name]).tolist()}"))
            elif outcome != "EValue":
                bad.append((tag("name clash wrong error", cls), f"format {src} + extra dimension {name!r} -> {t}: {outcome}, expected ValueError"))
        elif outcome != "ok":
            bad.append((tag("conversion refused", cls), f"format {src} + extra dimension {name!r} ({typ}) = {vals} -> {t}: {outcome}; "
                        f"format {t} has no field of that name and every standard value fits"))
        else:
            rt = ((t + len(name)) % 4,)      # one access route per (name, target), all four over the sweep
            first = compare_records(las, res, src, t, routes=rt, fmt=False)
            bad += use_format(las, res, src, t) + first
            res.points.array.view(np.uint8)[...] = 0xFF        # the caller edits the result, then asks again
            res2, out2 = call_convert(las, {"src": src, "tgt": t, "ver": None})
            second = compare_records(las, res2, src, t, routes=rt, fmt=False) if out2 == "ok" else [("refused", out2)]
            if [k for k, _ in second] != [k for k, _ in first]:
                bad.append(("second call differs", f"format {src} + extra dimension {name!r} -> {t}: second conversion {second[:2]}, first {first[:2]}"))
        if las.points.array.tobytes() != raw:
            bad.append(("source modified", f"format {src} + extra dimension {name!r} -> {t}: the source record changed"))
        for k, w in bad:
            out.append((k, w, dict(inp, targets=[t])))
    return out


def clash_sweep(ctx):
    rng = ctx.rng
    failing, seen = [], set()
    names = sorted(name_pool())
    for src in FMTS:
        usable = [n for n in names if n not in SPEC_FIELDS[src]]
        must = [n for n in usable if name_pool()[n] in ("field", "sub", "alias", "coordinate")]
        rest = [n for n in usable if n not in must]
        # quick: half of the meaningful names per source format (every one of them over two source formats), a few near misses
        chosen = (must if ctx.thorough() else rng.sample(must, (len(must) + 1) // 2)) + rng.sample(rest, min(len(rest), ctx.n(4, len(rest))))
        for name in chosen:
            typ = rng.choice(["u1", "u2", "u4", "u8", "i4", "f8"])
            big = {"u1": 255, "u2": 65535, "u4": 70000, "u8": 2 ** 40 + 1, "i4": 70000, "f8": 70000.25}[typ]
            vals = rng.choice([[1, 1, 1], [1, big, 3], [big, 1, 0]])
            inp = {"src": src, "name": name, "type": typ, "values": vals}
            try:
                res = sweep_one(inp)
            except Exception as ex:
                k = f"sweep case not evaluated: {type(ex).__name__}: {str(ex)[:80]}"
                PROBLEMS[k] = PROBLEMS.get(k, 0) + 1
                continue
            for t in FMTS:
                ctx.count("sweep:" + name_class(name, src, t))
            ctx.case(("sweep", src, name, typ, tuple(vals)), nontrivial=True)
            for k, w, i in res:
                if k not in seen:
                    seen.add(k)
                    failing.append({"kind": k, "input": {"sweep": i}, "observed": w})
    return failing


# ---------------------------------------------------------------------------------
# size: records larger than any block / chunk size a conversion could work with
# ---------------------------------------------------------------------------------
def big_source(spec):
    """n points of format src, every standard and extra value non-zero, position dependent, within the narrowest field of the name"""
    import laspy
    n, src = spec["n"], spec["src"]
    h = laspy.LasHeader(version=spec["sver"], point_format=src)
    for nm, typ in spec["extra"]:
        h.add_extra_dim(laspy.ExtraBytesParams(nm, typ))
    rec = laspy.ScaleAwarePointRecord.zeros(n, header=h)
    idx = np.arange(n, dtype=np.int64) + spec["shift"]
    for d in h.point_format.standard_dimensions:
        if d.kind.name == "FloatingPoint":
            rec[d.name] = idx + 0.5
        elif d.kind.name == "BitField":
            rec[d.name] = idx % min(2 ** d.num_bits - 1, NARROW.get(d.name, 255), 3 if d.name == "scanner_channel" else 255) + 1
        else:
            mx = min(2 ** (d.num_bits - (1 if d.kind.name == "SignedInteger" else 0)) - 1, NARROW.get(d.name, 2 ** 31 - 1), 2 ** 31 - 1)
            rec[d.name] = idx % mx + 1
    for nm, typ in spec["extra"]:
        rec.array[nm] = (idx % 65535 + 1).astype(rec.array[nm].dtype)
    return laspy.LasData(h, rec)


def big_one(spec):
    import laspy
    las = big_source(spec)
    src, t = spec["src"], spec["tgt"]
    digest = hashlib.sha1(las.points.array.tobytes()).hexdigest()
    zero = [d.name for d in las.point_format.standard_dimensions if not np.asarray(las.points[d.name]).all()]
    if zero:
        raise RuntimeError(f"generator: zero values in {zero}")
    if spec.get("api") == "from_point_record":
        try:
            pf = laspy.PointFormat(t)
            pf.dimensions.extend(las.point_format.extra_dimensions)
            rec = laspy.PackedPointRecord.from_point_record(las.points, pf)
            res, outcome = laspy.LasData(laspy.LasHeader(version="1.4", point_format=pf), rec), "ok"
        except Exception as ex:
            res, outcome = None, common.exc_kind(ex)
    else:
        res, outcome = call_convert(las, {"src": src, "tgt": t, "ver": None})
    bad = []
    if outcome != "ok":
        bad.append(("conversion refused", f"{spec['n']} points {src}->{t}: {outcome} although every value fits"))
    else:
        bad += [(k + " (large record)", w) for k, w in compare_records(las, res, src, t)][:2]      # one field is enough: they all share the cause
    if hashlib.sha1(las.points.array.tobytes()).hexdigest() != digest:
        bad.append(("source modified", f"{spec['n']} points {src}->{t}: the source record changed"))
    return bad


def big_specs(ctx):
    rng = ctx.rng
    specs = []

    def add(n, src=None, tgt=None, api="convert"):
        src = rng.choice(FMTS) if src is None else src
        tgt = rng.choice(FMTS) if tgt is None else tgt
        specs.append(dict(n=n, src=src, tgt=tgt, sver="1.4", shift=rng.randrange(0, 1000), api=api,
                          extra=[["big_a", "u2"], ["big_b", rng.choice(["f8", "u4", "i8"])]][:rng.choice([1, 2])]))

    M = 1 << 20
    add(M + rng.randrange(1, 5000))                                         # just over 2^20, any pair
    add(M + 1 + rng.randrange(0, 64), src=rng.choice([6, 7, 8]), tgt=rng.choice([0, 1, 2, 3]), api="from_point_record")   # narrowing, the record API
    for n in (65536 + rng.randrange(1, 100), 3 * 65536, 2 * 65536 - 1, 100000 + rng.randrange(0, 50000)):
        add(n)
        add(n, api="from_point_record")
    if ctx.thorough():
        add(2 * M + rng.randrange(1, 5000))
        add(2 * M + 1, api="from_point_record")
        for n in (M, M - 1, M + 1, 2 * M, 3 * M + 7, M + 65536, 4 * M + rng.randrange(1, 1000)):
            add(n)
        for src in FMTS:
            add(M + rng.randrange(1, 3000), src=src)
            add(M + rng.randrange(1, 3000), tgt=src)
    return specs


def big_cases(ctx):
    failing, seen = [], set()
    for spec in big_specs(ctx):
        try:
            bad = big_one(spec)
        except Exception as ex:
            k = f"large case not evaluated: {type(ex).__name__}: {str(ex)[:80]}"
            PROBLEMS[k] = PROBLEMS.get(k, 0) + 1
            continue
        ctx.count("size:" + ("> 2^21" if spec["n"] > (1 << 21) else "> 2^20" if spec["n"] > (1 << 20) else ">= 2^16" if spec["n"] >= 65536 else "< 2^16"))
        ctx.count("size-api:" + spec["api"])
        ctx.case(("big", spec["n"], spec["src"], spec["tgt"], spec["api"], spec["shift"]), nontrivial=True,
                 sample={"points": spec["n"], "source_format": spec["src"], "target": spec["tgt"], "api": spec["api"]})
        for k, w in bad:
            if k not in seen:
                seen.add(k)
                failing.append({"kind": k, "input": {"big": spec}, "observed": w})
    return failing


def search(ctx, seeds):
    failing, seen = [], set()
    for c in all_cases(ctx):
        for kind, why in c["viol"]:
            if kind not in seen:
                seen.add(kind)
                failing.append({"kind": kind, "input": c["spec"], "observed": why})
    extra = lost_oracle() + api_twice() + big_cases(ctx) + clash_sweep(ctx)
    for f in extra:
        if f["kind"] not in seen:
            seen.add(f["kind"])
            failing.append(f)
    for k, v in PROBLEMS.items():
        note = f"{k} ({v} cases)"
        if note not in ctx.notes:
            ctx.notes.append(note)
    for k, v in USED.items():
        ctx.count(k, v)
    # kinds that do not involve a name clash first (those are listed as one finding against /repo)
    failing.sort(key=lambda f: "[name clash" in f["kind"] and "target-field" not in f["kind"])
    return failing[:10]


def replay(ctx, data):
    inp = data.get("failing_input", {}).get("input")
    if not inp:
        print("nothing to replay")
        return 0
    if "lost" in inp:
        bad = lost_oracle()
        print("REPRODUCED: " + bad[0]["observed"] if bad else "not reproduced")
        return 1 if bad else 0
    if "api_twice" in inp:
        bad = [b for b in api_twice() if b["input"] == inp]
        print("REPRODUCED: " + bad[0]["observed"] if bad else "not reproduced")
        return 1 if bad else 0
    if "big" in inp:
        bad = big_one(inp["big"])
        for kind, why in bad:
            print(f"REPRODUCED: {kind}: {why}")
        if not bad:
            print("not reproduced")
        return 1 if bad else 0
    if "sweep" in inp:
        bad = sweep_one(inp["sweep"])
        for kind, why, _ in bad:
            print(f"REPRODUCED: {kind}: {why}")
        if not bad:
            print("not reproduced")
        return 1 if bad else 0
    c = run_case(inp)
    for kind, why in c["viol"]:
        print(f"REPRODUCED: {kind}: {why}")
    if not c["viol"]:
        print("not reproduced")
    return 1 if c["viol"] else 0
