"""C05 — the reader is a faithful cursor. Model: Gen/GenCursor.v (translated read_points/seek) in Model/Cursor.v.
Correspondence: random histories on real files, records compared byte-wise with the model's slices.
Search: the abstract cursor of the property, restated in Python, against the implementation."""
import io

from harness import common, lasio

ASSUMPTIONS = ["uncompressed files; the point source is a seekable BytesIO holding a complete file"]


def gen_history(rng, n):
    ops = []
    around = [0, 1, -1, n, n - 1, n + 1, -n, -n - 1, -n + 1, 2, 3, n // 2, 10 ** 9, -10 ** 9]
    for _ in range(rng.randrange(1, 25)):
        r = rng.random()
        if r < 0.35:
            ops.append(("R", rng.choice(around + [rng.randrange(-3, n + 5)])))
        elif r < 0.7:
            ops.append(("S", rng.choice(around + [rng.randrange(-n - 3, n + 4)]), rng.choice([0, 0, 1, 1, 2, 2, 3])))
        elif r < 0.93:
            ops.append(("N", rng.choice([1, 2, 3, 5, max(1, n // 3), n + 1, 50])))
        else:
            ops.append(("A",))
    return ops


def op_tok(op):
    if op[0] == "R":
        return f"R{op[1]}"
    if op[0] == "N":
        return f"N{op[1]}"
    if op[0] == "S":
        return f"S{op[1]}:{op[2]}"
    return "A"


def run_impl(raw, ops, psize, read_evlrs=True):
    """returns list of outputs: ('s', bytes) | ('k', idx) | ('e', kind). The records returned by EVERY call are kept alive and
    looked at again after the whole history (a later read must not overwrite an earlier result)."""
    import laspy
    outs = []
    iters = {}
    kept = []
    with laspy.open(io.BytesIO(raw), read_evlrs=read_evlrs) as rd:
        for op in ops:
            try:
                if op[0] == "R":
                    r = rd.read_points(op[1])
                    kept.append((len(outs), r))
                    outs.append(("s", bytes(r.memoryview())))
                elif op[0] == "N":
                    it = iters.get(op[1])
                    if it is None:
                        it = iters[op[1]] = rd.chunk_iterator(op[1])
                    r = next(it)
                    kept.append((len(outs), r))
                    outs.append(("s", bytes(r.memoryview())))
                elif op[0] == "S":
                    outs.append(("k", rd.seek(op[1], op[2])))
                else:
                    outs.append(("s", bytes(rd.read().points.memoryview())))
            except Exception as ex:  # noqa
                outs.append(("e", common.exc_kind(ex)))
        for i, r in kept:
            now = bytes(r.memoryview())
            if now != outs[i][1]:
                outs[i] = ("s", now + b"<changed-after-later-reads>")
    return outs


def spec_py(n, ops):
    """the property's cursor model, stated directly (oracle for the search)"""
    c = 0
    outs = []
    for op in ops:
        if op[0] in ("R", "N", "A"):
            k = -1 if op[0] == "A" else op[1]
            m = (n - c) if k < 0 else min(k, n - c)
            m = max(m, 0)
            if op[0] == "N" and m == 0:
                outs.append(("e", "EStop"))
            else:
                outs.append(("s", c, c + m))
            c += m
        else:
            pos, wh = op[1], op[2]
            if wh not in (0, 1, 2):
                outs.append(("e", "EValue"))
                continue
            t = pos if wh == 0 else (c + pos if wh == 1 else n + pos)
            if 0 <= t < n:
                c = t
                outs.append(("k", t))
            else:
                outs.append(("e", "EIndex"))
    return outs


def empty_laz_flagged(rng):
    """a 0-point LAS 1.4 file whose point-format byte carries the compressed bit and which holds a LasZip record and an EVLR:
    laspy uses its null reader for it (no LAZ backend is needed), so every read returns an empty record"""
    import laspy
    h = lasio.rand_header(rng, version="1.4", nvlrs=0)
    h.vlrs.append(laspy.VLR("laszip encoded", 22204, "http://laszip.org", bytes(34)))
    evl = laspy.vlrs.vlrlist.VLRList([lasio.rand_vlr(rng, 40)])
    raw = bytearray(lasio.write_las(h, laspy.PackedPointRecord.zeros(0, h.point_format), evl))
    raw[104] |= 0x80
    return bytes(raw), h


def make_files(ctx):
    import laspy
    files = []
    rng = ctx.rng
    for _ in range(2):
        raw, h = empty_laz_flagged(rng)
        files.append((raw, 0, h.point_format.size, b"", "1.4/empty-file-flagged-compressed/evlrs1"))
    for version in lasio.VERSIONS:
        for fmt in lasio.COMPAT[version]:
            if not ctx.thorough() and rng.random() < 0.55:
                continue
            for n in ([0, 1, 23] if not ctx.thorough() else [0, 1, 2, 23, 64]):
                h = lasio.rand_header(rng, version=version, fmt=fmt)
                pts = lasio.rand_points(rng, h, n, pattern="random")
                evl = []
                if version == "1.4" and rng.random() < 0.6:
                    evl = laspy.vlrs.vlrlist.VLRList([lasio.rand_vlr(rng) for _ in range(rng.choice([1, 2]))])
                raw = lasio.write_las(h, pts, evl)
                files.append((raw, n, h.point_format.size, bytes(pts.memoryview()), f"{version}/fmt{fmt}/n{n}/evlrs{len(evl)}"))
    return files


def compare(expected, got, allpts, psize):
    """expected: list of ('s', a, b) | ('k', i) | ('e', kind); got: impl outputs. Returns index of first mismatch or None"""
    for i, (e, g) in enumerate(zip(expected, got)):
        if e[0] == "s":
            if g[0] != "s" or g[1] != allpts[e[1] * psize:e[2] * psize]:
                return i
        elif e[0] == "k":
            if g != ("k", e[1]):
                return i
        else:
            if g != ("e", e[1]):
                return i
    return None


def parse_model(line):
    outs = []
    for t in line.split():
        if t[0] == "s":
            a, b = t[1:].split(":")
            outs.append(("s", int(a), int(b)))
        elif t[0] == "k":
            outs.append(("k", int(t[1:])))
        else:
            outs.append(("e", t[1:]))
    return outs


def histories(ctx):
    files = make_files(ctx)
    per = ctx.n(40, 300)
    cases = []
    for raw, n, ps, allpts, label in files:
        for k in range(per):
            # EVLRs loaded at opening or deferred to read(): the cursor behaves the same
            cases.append((raw, n, ps, allpts, label + ("|evlrs-at-open" if k % 3 else "|evlrs-deferred"), gen_history(ctx.rng, n)))
    return cases


_CASES = None


def correspond(ctx):
    global _CASES
    ctx.extra["rule"] = ("random histories (1..24 ops) over {read_points(n), seek(pos, whence), next(chunk_iterator(k)) on iterators kept "
                         "alive across ops, read()} with n/pos drawn around 0, +-1, count, count+-1, huge; files of every "
                         "(version, format) x counts {0,1,23,..} with/without trailing EVLRs. non-trivial = the history has a seek or "
                         "an exhausted read; distinct by (file label, history)")
    _CASES = histories(ctx)
    cmds = [f"crun {n} " + " ".join(op_tok(o) for o in ops) for (_, n, _, _, _, ops) in _CASES]
    outs = common.run_model(cmds)
    dis = []
    for (raw, n, ps, allpts, label, ops), line in zip(_CASES, outs):
        model = parse_model(line)
        impl = run_impl(raw, ops, ps, not label.endswith("deferred"))
        ctx.traces += 1
        nontriv = any(o[0] == "S" for o in ops)
        ctx.case((label, tuple(ops)), nontrivial=nontriv, sample={"file": label, "ops": [op_tok(o) for o in ops], "model": line})
        for o in ops:
            ctx.count("op:" + o[0])
        for m in model:
            ctx.count("out:" + (m[1] if m[0] == "e" else m[0]))
        bad = compare(model, impl, allpts, ps)
        if bad is not None:
            dis.append({"kind": f"history op {op_tok(ops[bad])[0]}", "input": {"file": label, "ops": [op_tok(o) for o in ops], "at": bad},
                        "model": model[bad], "impl": (impl[bad][0], impl[bad][1] if impl[bad][0] != "s" else len(impl[bad][1]) // ps)})
    return dis


def shrink(raw, n, ps, allpts, ops, re=True):
    """drop operations while the oracle still fails"""
    cur = list(ops)
    changed = True
    while changed:
        changed = False
        for i in range(len(cur)):
            cand = cur[:i] + cur[i + 1:]
            if cand and compare(spec_py(n, cand), run_impl(raw, cand, ps, re), allpts, ps) is not None:
                cur = cand
                changed = True
                break
    return cur


def search(ctx, seeds):
    cases = _CASES if _CASES is not None else histories(ctx)
    failing = []
    seen = set()
    for raw, n, ps, allpts, label, ops in cases:
        exp = spec_py(n, ops)
        re = not label.endswith("deferred")
        got = run_impl(raw, ops, ps, re)
        bad = compare(exp, got, allpts, ps)
        if bad is not None:
            small = shrink(raw, n, ps, allpts, ops, re)
            b2 = compare(spec_py(n, small), run_impl(raw, small, ps, re), allpts, ps)
            kind = f"cursor: {' '.join(op_tok(o)[0] for o in small)}"
            if kind in seen:
                continue
            seen.add(kind)
            failing.append({"kind": kind, "input": {"file": label, "points": n, "ops": [op_tok(o) for o in small], "file_hex": raw.hex()},
                            "observed": f"op #{b2} expected {spec_py(n, small)[b2]} got {got_short(run_impl(raw, small, ps, re)[b2], ps)}"})
            if len(failing) >= 5:
                break
    return failing


def got_short(g, ps):
    return (g[0], f"{len(g[1]) // ps} records") if g[0] == "s" else g


def replay(ctx, data):
    inp = data.get("failing_input", {}).get("input")
    if not inp:
        print("nothing to replay")
        return 0
    raw = bytes.fromhex(inp["file_hex"])
    ops = []
    for t in inp["ops"]:
        if t[0] == "S":
            p, w = t[1:].split(":")
            ops.append(("S", int(p), int(w)))
        elif t[0] in "RN":
            ops.append((t[0], int(t[1:])))
        else:
            ops.append(("A",))
    import laspy
    las = laspy.read(io.BytesIO(raw))
    allpts = bytes(las.points.memoryview())
    ps = las.header.point_format.size
    bad = compare(spec_py(inp["points"], ops), run_impl(raw, ops, ps), allpts, ps)
    print("REPRODUCED at op", bad if bad is not None else "- not reproduced")
    return 1 if bad is not None else 0
