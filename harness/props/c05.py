"""C05 — the reader is a faithful cursor. Model: Gen/GenCursor.v (translated read_points/seek) in Model/Cursor.v and, at byte
level, Model/CursorBytes.v (the point source is the file's byte stream, addressed with a stride).
The file's full point array is computed INDEPENDENTLY of laspy from the raw bytes: offset, record length and count are parsed
from the header bytes with struct; the array is the `count` records of `record length` bytes from `offset` on. Files: written by
laspy (every version/format, extra dimensions) and files laspy did not write (extra bytes without ExtraBytes VLR, a VLR that
documents fewer bytes than the records carry, a VLR although the records carry none, bytes after the last record, a gap before
the EVLRs). Correspondence: the reader's stride / offset / count vs dec_header of Model/Las.v; the bytes returned by every call
vs the byte ranges of brun. Search: the abstract cursor of the property, restated in Python, against the implementation."""
import io
import logging
import os
import struct
import tempfile

from harness import common, lasio

DRIVER = "c05"
ASSUMPTIONS = ["uncompressed files; the point source holds a complete file (BytesIO, a stream without readinto, a file on disk)"]

SOURCES = ["bytesio", "bytesio", "ctor", "noreadinto", "file"]


def gen_history(rng, n):
    ops = []
    around = [0, 1, -1, n, n - 1, n + 1, -n, -n - 1, -n + 1, 2, 3, n // 2, 10 ** 9, -10 ** 9]
    for _ in range(rng.randrange(1, 25)):
        r = rng.random()
        if r < 0.35:
            ops.append(("R", rng.choice(around + [rng.randrange(-3, n + 5)])))
        elif r < 0.7:
            ops.append(("S", rng.choice(around + [rng.randrange(-n - 3, n + 4)]), rng.choice([0, 0, 1, 1, 2, 2, 3])))
        elif r < 0.93:
            ops.append(("N", rng.choice([1, 2, 3, 5, max(1, n // 3), n + 1, 50])))
        else:
            ops.append(("A",))
    return ops


def op_tok(op):
    if op[0] == "R":
        return f"R{op[1]}"
    if op[0] == "N":
        return f"N{op[1]}"
    if op[0] == "S":
        return f"S{op[1]}:{op[2]}"
    return "A"


def parse_ops(toks):
    ops = []
    for t in toks:
        if t[0] == "S":
            p, w = t[1:].split(":")
            ops.append(("S", int(p), int(w)))
        elif t[0] in "RN":
            ops.append((t[0], int(t[1:])))
        else:
            ops.append(("A",))
    return ops


# ---------------------------------------------------------------------------------
# the file seen without laspy
# ---------------------------------------------------------------------------------
def layout_of(raw):
    """(version minor, offset to point data, record length, point count) parsed from the header bytes"""
    minor = raw[25]
    off = struct.unpack_from("<I", raw, 96)[0]
    L = struct.unpack_from("<H", raw, 105)[0]
    n = struct.unpack_from("<Q", raw, 247)[0] if minor >= 4 else struct.unpack_from("<I", raw, 107)[0]
    return minor, off, L, n


def point_array(raw):
    """the file's full point array: n records of L bytes from the announced offset on"""
    _, off, L, n = layout_of(raw)
    return raw[off:off + n * L]


def vlr_positions(raw):
    """byte positions of the VLR headers"""
    pos = struct.unpack_from("<H", raw, 94)[0]
    out = []
    for _ in range(struct.unpack_from("<I", raw, 100)[0]):
        out.append(pos)
        pos += 54 + struct.unpack_from("<H", raw, pos + 20)[0]
    return out


def restride(raw, delta, rng):
    """the same file with every point record lengthened by `delta` bytes of undocumented extra data (delta > 0) or cut by
    -delta bytes (delta < 0); record length and, in a 1.4 file, the EVLR pointer are adjusted. Pure byte surgery."""
    minor, off, L, n = layout_of(raw)
    out = bytearray(raw[:off])
    for i in range(n):
        rec = raw[off + i * L: off + (i + 1) * L]
        out += (rec + bytes(rng.randrange(1, 256) for _ in range(delta))) if delta >= 0 else rec[:L + delta]
    out += raw[off + n * L:]
    struct.pack_into("<H", out, 105, L + delta)
    if minor >= 4:
        st = struct.unpack_from("<Q", out, 235)[0]
        if st:
            struct.pack_into("<Q", out, 235, st + n * delta)
    return bytes(out)


def disguise_eb_vlr(raw):
    """the ExtraBytes VLR gets another record id: the file then has extra bytes and NO ExtraBytes VLR"""
    out = bytearray(raw)
    for p in vlr_positions(raw):
        if bytes(out[p + 2:p + 18]).rstrip(b"\0") == b"LASF_Spec" and struct.unpack_from("<H", out, p + 18)[0] == 4:
            struct.pack_into("<H", out, p + 18, 7)
    return bytes(out)


def documented_extra(h):
    return h.point_format.num_extra_bytes


# ---------------------------------------------------------------------------------
# implementation runner
# ---------------------------------------------------------------------------------
class NoReadinto:
    """a seekable binary stream offering read / seek / tell only (no readinto)"""

    def __init__(self, raw):
        self._b = io.BytesIO(raw)

    def read(self, n=-1):
        return self._b.read(n)

    def seek(self, pos, whence=0):
        return self._b.seek(pos, whence)

    def tell(self):
        return self._b.tell()

    def seekable(self):
        return True

    def readable(self):
        return True

    def close(self):
        self._b.close()


def open_reader(raw, source, read_evlrs, tmp):
    import laspy
    if source == "ctor":
        return laspy.LasReader(io.BytesIO(raw), read_evlrs=read_evlrs)
    if source == "noreadinto":
        return laspy.open(NoReadinto(raw), read_evlrs=read_evlrs)
    if source == "file":
        fd, path = tempfile.mkstemp(suffix=".las", dir="/var/tmp")
        with os.fdopen(fd, "wb") as f:
            f.write(raw)
        tmp.append(path)
        return laspy.open(path, read_evlrs=read_evlrs)
    return laspy.open(io.BytesIO(raw), read_evlrs=read_evlrs)


def run_impl(raw, ops, source="bytesio", read_evlrs=True, npints=False):
    """returns (outputs, facts): outputs = ('s', bytes, number of records) | ('k', idx) | ('e', kind); facts = what the reader
    says about the file. The records returned by EVERY call are kept alive and looked at again after the whole history (a later
    read must not overwrite an earlier result)."""
    import numpy as np
    wrap = (lambda v: np.int64(v)) if npints else (lambda v: v)
    outs, iters, kept, tmp = [], {}, [], []
    logging.disable(logging.CRITICAL)
    try:
        with open_reader(raw, source, read_evlrs, tmp) as rd:
            facts = {"stride": int(rd.header.point_format.size), "offset": int(rd.header.offset_to_point_data), "count": int(rd.header.point_count)}
            for op in ops:
                try:
                    if op[0] == "R":
                        r = rd.read_points(wrap(op[1]))
                        kept.append((len(outs), r))
                        outs.append(("s", bytes(r.memoryview()), len(r)))
                    elif op[0] == "N":
                        it = iters.get(op[1])
                        if it is None:
                            it = iters[op[1]] = rd.chunk_iterator(wrap(op[1]))
                        r = next(it)
                        kept.append((len(outs), r))
                        outs.append(("s", bytes(r.memoryview()), len(r)))
                    elif op[0] == "S":
                        outs.append(("k", int(rd.seek(wrap(op[1]), op[2]))))
                    else:
                        p = rd.read().points
                        outs.append(("s", bytes(p.memoryview()), len(p)))
                except Exception as ex:  # noqa
                    outs.append(("e", common.exc_kind(ex)))
            for i, r in kept:
                now = bytes(r.memoryview())
                if now != outs[i][1]:
                    outs[i] = ("s", now + b"<changed-after-later-reads>", outs[i][2])
    finally:
        logging.disable(logging.NOTSET)
        for p in tmp:
            try:
                os.remove(p)
            except OSError:
                pass
    return outs, facts


def spec_py(n, ops):
    """the property's cursor model, stated directly (oracle for the search)"""
    c = 0
    outs = []
    for op in ops:
        if op[0] in ("R", "N", "A"):
            k = -1 if op[0] == "A" else op[1]
            m = (n - c) if k < 0 else min(k, n - c)
            m = max(m, 0)
            if op[0] == "N" and m == 0:
                outs.append(("e", "EStop"))
            else:
                outs.append(("s", c, c + m))
            c += m
        else:
            pos, wh = op[1], op[2]
            if wh not in (0, 1, 2):
                outs.append(("e", "EValue"))
                continue
            t = pos if wh == 0 else (c + pos if wh == 1 else n + pos)
            if 0 <= t < n:
                c = t
                outs.append(("k", t))
            else:
                outs.append(("e", "EIndex"))
    return outs


# ---------------------------------------------------------------------------------
# files
# ---------------------------------------------------------------------------------
def empty_laz_flagged(rng):
    """a 0-point LAS 1.4 file whose point-format byte carries the compressed bit and which holds a LasZip record and an EVLR:
    laspy uses its null reader for it (no LAZ backend is needed), so every read returns an empty record"""
    import laspy
    h = lasio.rand_header(rng, version="1.4", nvlrs=0)
    h.vlrs.append(laspy.VLR("laszip encoded", 22204, "http://laszip.org", bytes(34)))
    evl = laspy.vlrs.vlrlist.VLRList([lasio.rand_vlr(rng, 40)])
    raw = bytearray(lasio.write_las(h, laspy.PackedPointRecord.zeros(0, h.point_format), evl))
    raw[104] |= 0x80
    return bytes(raw), h


def base_file(rng, version, fmt, n, dims):
    """a file written by laspy: `dims` documented extra dimensions, n random records, EVLRs in some 1.4 files"""
    import laspy
    h = lasio.rand_header(rng, version=version, fmt=fmt)
    if dims:
        lasio.add_extra_dims(rng, h, dims)
    pts = lasio.rand_points(rng, h, n, pattern="random")
    evl = []
    if version == "1.4" and rng.random() < 0.6:
        evl = laspy.vlrs.vlrlist.VLRList([lasio.rand_vlr(rng) for _ in range(rng.choice([1, 2]))])
    return lasio.write_las(h, pts, evl), h, len(evl)


def make_files(ctx):
    """list of (raw, label, histories per file weight). Every label names how the record length relates to the format."""
    files = []
    rng = ctx.rng
    for _ in range(2):
        raw, h = empty_laz_flagged(rng)
        files.append((raw, "1.4/empty-file-flagged-compressed/evlrs1", 1.0))
    pairs = [(v, f) for v in lasio.VERSIONS for f in lasio.COMPAT[v]]
    # written by laspy, no extra bytes
    for version, fmt in pairs:
        if not ctx.thorough() and rng.random() < 0.6:
            continue
        for n in ([0, 1, 23] if not ctx.thorough() else [0, 1, 2, 23, 64]):
            raw, h, ne = base_file(rng, version, fmt, n, 0)
            files.append((raw, f"{version}/fmt{fmt}/n{n}/evlrs{ne}/standard-size", 1.0))
    # record length larger than the format's standard size, in every version / format:
    #   exact   the ExtraBytes VLR documents exactly all extra bytes (what laspy writes)
    #   fewer   the VLR documents a dimension, the records carry more bytes after it
    #   novlr   extra bytes and no ExtraBytes VLR at all
    #   hidden  documented dimensions whose VLR is not recognisable (another record id), plus undocumented bytes
    #   ignored an ExtraBytes VLR although the records have the standard size
    kinds = ["exact", "fewer", "fewer", "novlr", "hidden", "ignored"]
    for version, fmt in pairs:
        for kind in (kinds if ctx.thorough() else [rng.choice(kinds), "fewer", rng.choice(["novlr", "hidden", "ignored", "exact"])]):
            n = rng.choice([1, 2, 7, 23]) if rng.random() < 0.85 else 0
            dims = 0 if kind == "novlr" else rng.choice([1, 1, 2, 3])
            raw, h, ne = base_file(rng, version, fmt, n, dims)
            doc = documented_extra(h)
            if kind in ("fewer", "novlr"):
                raw = restride(raw, rng.choice([1, 1, 2, 3, 8, 40]), rng)
            elif kind == "hidden":
                raw = restride(disguise_eb_vlr(raw), rng.choice([0, 1, 5]), rng)
            elif kind == "ignored":
                raw = restride(raw, -doc, rng)
            L = layout_of(raw)[2]
            files.append((raw, f"{version}/fmt{fmt}/n{n}/evlrs{ne}/extra-bytes-{kind}/record{L}=std{h.point_format.size - doc}+documented{0 if kind in ('hidden', 'ignored') else doc}", 0.5))
    # bytes after the last record that are not EVLRs (the header's count, not the size of the file, bounds the cursor)
    for version, fmt in ([rng.choice(pairs) for _ in range(4)] if not ctx.thorough() else pairs):
        n = rng.choice([0, 1, 5])
        raw, h, ne = base_file(rng, version, fmt, n, rng.choice([0, 0, 1]))
        if ne == 0:
            L = layout_of(raw)[2]
            raw = raw + bytes(rng.randrange(256) for _ in range(rng.choice([1, L - 1, L, 3 * L + 2])))
            files.append((raw, f"{version}/fmt{fmt}/n{n}/trailing-bytes", 0.5))
        else:
            g = lasio.with_gap(raw, rng.choice([1, 7, 64]))
            if g is not None:
                files.append((g, f"{version}/fmt{fmt}/n{n}/evlrs{ne}/gap-before-evlrs", 0.5))
    return files


def histories(ctx):
    files = make_files(ctx)
    per = ctx.n(40, 300)
    cases = []
    for raw, label, weight in files:
        n = layout_of(raw)[3]
        for k in range(max(3, int(per * weight))):
            mode = {"source": ctx.rng.choice(SOURCES),
                    # EVLRs loaded at opening or deferred to read(): the cursor behaves the same
                    "read_evlrs": bool(k % 3),
                    # numpy integers as counts / positions
                    "npints": ctx.rng.random() < 0.15}
            cases.append((raw, label, mode, gen_history(ctx.rng, n)))
    return cases


def mode_tok(mode):
    return f"{mode['source']}|{'evlrs-at-open' if mode['read_evlrs'] else 'evlrs-deferred'}{'|numpy-ints' if mode['npints'] else ''}"


# ---------------------------------------------------------------------------------
# comparison
# ---------------------------------------------------------------------------------
def compare(expected, got, raw):
    """expected: list of ('s', a, b) | ('k', i) | ('e', kind) in RECORDS of the file's own point array; got: impl outputs.
    Returns index of first mismatch or None"""
    _, off, L, n = layout_of(raw)
    for i, (e, g) in enumerate(zip(expected, got)):
        if e[0] == "s":
            if g[0] != "s" or g[1] != raw[off + e[1] * L:off + e[2] * L] or g[2] != e[2] - e[1]:
                return i
        elif e[0] == "k":
            if g != ("k", e[1]):
                return i
        else:
            if g != ("e", e[1]):
                return i
    return None


def parse_model(line):
    outs = []
    for t in line.split():
        if t[0] == "b":
            a, b = t[1:].split(":")
            outs.append(("b", int(a), int(b)))
        elif t[0] == "k":
            outs.append(("k", int(t[1:])))
        else:
            outs.append(("e", t[1:]))
    return outs


def compare_bytes(model, got, raw):
    for i, (m, g) in enumerate(zip(model, got)):
        if m[0] == "b":
            if g[0] != "s" or g[1] != raw[m[1]:m[2]]:
                return i
        elif m[0] == "k":
            if g != ("k", m[1]):
                return i
        else:
            if g != ("e", m[1]):
                return i
    return None


def got_short(g, L):
    return (g[0], f"{g[2]} records, {len(g[1])} bytes ({len(g[1]) / L if L else 0:g} file records)") if g[0] == "s" else g


_CASES = None


def correspond(ctx):
    global _CASES
    ctx.extra["rule"] = ("random histories (1..24 ops) over {read_points(n), seek(pos, whence), next(chunk_iterator(k)) on iterators kept "
                         "alive across ops, read()} with n/pos drawn around 0, +-1, count, count+-1, huge, as Python or numpy integers; files of every "
                         "(version, format) x counts {0,1,23,..} with/without trailing EVLRs, written by laspy or not: record length = standard size, "
                         "+ extra bytes documented exactly / partly / not at all by an ExtraBytes VLR, a VLR although the records carry none, bytes "
                         "after the last record, a gap before the EVLRs; opened through laspy.open(BytesIO | stream without readinto | path) and "
                         "LasReader(). The expected records are slices of the point array cut from the raw bytes with the header's own offset / "
                         "record length / count. non-trivial = the history has a seek or an exhausted read; distinct by (file label, mode, history)")
    _CASES = histories(ctx)
    # what the header model says about each file: count, record length (= the stride a faithful reader uses), offset
    files = {}
    for raw, label, _, _ in _CASES:
        files.setdefault(id(raw), (raw, label))
    hdr = common.run_model([f"dec_header {common.hexb(raw[:layout_of(raw)[1]])} F" for raw, _ in files.values()])
    dis = []
    view = {}
    for (key, (raw, label)), line in zip(files.items(), hdr):
        t = line.split(" ")
        minor, off, L, n = layout_of(raw)
        if t[0] != "ok":
            dis.append({"kind": "header of a generated file", "input": {"file": label}, "model": line[:80], "impl": "generated as readable"})
            continue
        mn = lasio.parse_assoc(t[1]).get("point_count", 0)
        view[key] = (int(t[7]), int(t[6]), mn)
        if (int(t[7]), int(t[6]), mn) != (off, L, n):
            dis.append({"kind": "header of a generated file", "input": {"file": label}, "model": [int(t[7]), int(t[6]), mn], "impl": [off, L, n]})
    cmds = []
    for raw, label, mode, ops in _CASES:
        off, L, n = view.get(id(raw), layout_of(raw)[1:])
        cmds.append(f"brun {off} {L} {n} " + " ".join(op_tok(o) for o in ops))
    outs = common.run_model(cmds, name=DRIVER)
    for (raw, label, mode, ops), line in zip(_CASES, outs):
        model = parse_model(line)
        off, L, n = view.get(id(raw), layout_of(raw)[1:])
        try:
            impl, facts = run_impl(raw, ops, **mode)
        except Exception as ex:
            dis.append({"kind": "file cannot be opened", "input": {"file": label, "mode": mode_tok(mode)}, "model": "ok", "impl": repr(ex)[:200]})
            continue
        ctx.traces += 1
        nontriv = any(o[0] == "S" for o in ops)
        ctx.case((label, mode_tok(mode), tuple(ops)), nontrivial=nontriv, sample={"file": label, "mode": mode_tok(mode), "ops": [op_tok(o) for o in ops], "model": line})
        for o in ops:
            ctx.count("op:" + o[0])
        ctx.count("source:" + mode["source"])
        ctx.count("file:" + (label.split("/extra-bytes-")[1].split("/")[0] if "extra-bytes-" in label else label.split("/")[-1].split("-")[0] + "…"))
        for m in model:
            ctx.count("out:" + (m[1] if m[0] == "e" else m[0]))
        if (facts["stride"], facts["offset"], facts["count"]) != (L, off, n):
            dis.append({"kind": "reader stride / offset / count", "input": {"file": label, "mode": mode_tok(mode)},
                        "model": {"stride": L, "offset": off, "count": n}, "impl": facts})
        bad = compare_bytes(model, impl, raw)
        if bad is not None:
            dis.append({"kind": f"history op {op_tok(ops[bad])[0]}", "input": {"file": label, "mode": mode_tok(mode), "ops": [op_tok(o) for o in ops], "at": bad},
                        "model": model[bad], "impl": got_short(impl[bad], L)})
    return dis


def fails(raw, ops, mode):
    """index of the first operation that violates the oracle, or None; -1: the file cannot be opened"""
    try:
        got, _ = run_impl(raw, ops, **mode)
    except Exception:
        return -1, None
    return compare(spec_py(layout_of(raw)[3], ops), got, raw), got


def shrink(raw, ops, mode):
    """drop operations while the oracle still fails"""
    cur = list(ops)
    changed = True
    while changed:
        changed = False
        for i in range(len(cur)):
            cand = cur[:i] + cur[i + 1:]
            if cand and fails(raw, cand, mode)[0] is not None:
                cur = cand
                changed = True
                break
    return cur


def file_class(label):
    return label.split("/extra-bytes-")[1].split("/")[0] if "extra-bytes-" in label else label.split("/")[-1]


def search(ctx, seeds):
    cases = _CASES if _CASES is not None else histories(ctx)
    failing = []
    seen = set()
    for raw, label, mode, ops in cases:
        _, off, L, n = layout_of(raw)
        bad, got = fails(raw, ops, mode)
        if bad is None:
            continue
        if bad == -1:
            kind = f"file cannot be opened: {file_class(label)}"
            if kind not in seen:
                seen.add(kind)
                try:
                    run_impl(raw, [], **mode)
                    why = "?"
                except Exception as ex:
                    why = repr(ex)
                failing.append({"kind": kind, "input": {"file": label, "mode": mode, "points": n, "record_length": L, "file_hex": raw.hex()}, "observed": why})
            continue
        small = shrink(raw, ops, mode)
        b2, got2 = fails(raw, small, mode)
        kind = f"cursor: {' '.join(op_tok(o)[0] for o in small)}" + (f" [{file_class(label)}]" if "standard-size" not in label else "")
        if kind in seen:
            continue
        seen.add(kind)
        exp = spec_py(n, small)[b2]
        failing.append({"kind": kind, "input": {"file": label, "mode": mode, "points": n, "record_length": L, "offset_to_point_data": off,
                                                "ops": [op_tok(o) for o in small], "file_hex": raw.hex()},
                        "observed": f"op #{b2} {op_tok(small[b2])}: expected {exp}" +
                                    (f" = bytes [{off + exp[1] * L}, {off + exp[2] * L}) of the file" if exp[0] == "s" else "") + f", got {got_short(got2[b2], L)}"})
        if len(failing) >= 5:
            break
    return failing


def replay(ctx, data):
    inp = data.get("failing_input", {}).get("input")
    if not inp or "file_hex" not in inp:
        print("nothing to replay")
        return 0
    raw = bytes.fromhex(inp["file_hex"])
    ops = parse_ops(inp.get("ops", []))
    mode = inp.get("mode") or {"source": "bytesio", "read_evlrs": True, "npints": False}
    bad, _ = fails(raw, ops, mode)
    print("REPRODUCED at op", bad if bad is not None else "- not reproduced")
    return 1 if bad is not None else 0
