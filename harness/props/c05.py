"""C05 — the reader is a faithful cursor. Model: Gen/GenCursor.v (translated read_points/seek) in Model/Cursor.v and, at byte
level, Model/CursorBytes.v (the point source is the file's byte stream, addressed with a stride).
The file's full point array is computed INDEPENDENTLY of laspy from the raw bytes: offset, record length and count are parsed
from the header bytes with struct; the array is the `count` records of `record length` bytes from `offset` on. Files: written by
laspy (every version/format, extra dimensions) and files laspy did not write (extra bytes without ExtraBytes VLR, a VLR that
documents fewer bytes than the records carry, a VLR although the records carry none, bytes after the last record, a gap before
the EVLRs). Correspondence: the reader's stride / offset / count vs dec_header of Model/Las.v; the bytes returned by every call
vs the byte ranges of brun / bfrun. Search: the abstract cursor of the property, restated in Python, against the implementation.
Histories also contain (Model/CursorFault.v): FAULTS - the source raises once during a call (read / readinto for the three kinds of read,
seek for seek) before consuming or moving anything, the exception is caught and the history goes on: a failed call is a no-op on the
cursor - and CALLER operations on the objects the reader handed out (the LasData of read(): extra dimensions added / removed through the
LasData, its header, its point format; points replaced; header fields, VLRs, version / format edited; written out; a chunk wrapped
into a LasData): the reader must be unaffected.
Round 6: (a) the source is chosen by CAPABILITY - the core read / seek / tell (all laspy needs to open a file) plus every subset of the
optional members readinto / seekable() / readable() (and close / flush / fileno / closed): a source that HAS seek() and merely lacks
seekable() (mmap.mmap up to Python 3.12, a minimal range reader) is a random-access source; library objects: BytesIO, bytes, a path,
buffered / unbuffered file objects, mmap.mmap; closefd True / False; (b) the complete loop `for chunk in chunk_iterator(k)` is an
operation of the histories (Model/CursorIter.v: the chunks tile the rest of the file, the loop is next() until StopIteration, the reader
outlives it) and loops / read() that reached the end are followed by seeks and second passes; (c) one file holds more than 64 MiB of point
data and is read in single calls, through the readinto and the read(n) path of the point source. The open finding
`empty-laz-evlrs-nonseekable` (known_findings.json) shows in this property's domain for sources without seekable(): kinds with that prefix."""
import copy
import io
import logging
import os
import struct
import tempfile

from harness import common, lasio

DRIVER = "c05"
ASSUMPTIONS = ["uncompressed files; the point source holds a complete file and offers at least read / seek / tell (what laspy needs to open "
               "it): BytesIO, bytes, a path, buffered / unbuffered file objects, mmap.mmap, and classes with every subset of the optional "
               "members readinto / seekable / readable (+ close, flush, fileno, closed)"]

SOURCES = ["bytesio", "bytesio", "ctor", "noreadinto", "file"]


def loop_chunk(rng, n, choices):
    """chunk size of a complete loop: at most ~300 chunks per loop (the loop is run chunk by chunk through the model)"""
    ok = [k for k in choices if n // k <= 300]
    return rng.choice(ok) if ok else max(1, n // rng.choice([3, 50, 200]))


def gen_history(rng, n, faults=True, caller=True):
    """ops: ("R", n) read_points | ("S", pos, whence) seek | ("N", k) next(chunk_iterator(k)) | ("A",) read()
            | ("I", k) `for chunk in chunk_iterator(k)` on a fresh iterator, to the end (k >= 1)
            | ("F", kind, op) op during which the source raises once: kind "r" = on its next read / readinto of point data,
              "k" = on its next seek into the point data (a kind the op never uses cannot show: the op is then the plain one)
            | ("M", what, which) caller operation number `what` on the `which`-th object the reader handed out"""
    ops = []
    around = [0, 1, -1, n, n - 1, n + 1, -n, -n - 1, -n + 1, 2, 3, n // 2, 10 ** 9, -10 ** 9]
    p_fault = rng.choice([0, 0, 0.1, 0.3]) if faults else 0
    p_caller = rng.choice([0, 0.5, 0.5, 1]) if caller else 0
    for _ in range(rng.randrange(1, 25)):
        r = rng.random()
        if r < 0.33:
            op = ("R", rng.choice(around + [rng.randrange(-3, n + 5)]))
        elif r < 0.64:
            op = ("S", rng.choice(around + [rng.randrange(-n - 3, n + 4)]), rng.choice([0, 0, 1, 1, 2, 2, 3]))
        elif r < 0.80:
            op = ("N", rng.choice([1, 2, 3, 5, max(1, n // 3), n + 1, 50]))
        elif r < 0.87:
            # a complete for loop: the iterator is consumed to the end (StopIteration reached)
            op = ("I", loop_chunk(rng, n, [1, 2, 3, 5, max(1, n // 3), max(1, n), n + 1, 50]))
        elif r < 0.95 or not p_caller:
            op = ("A",)
        else:
            op = ("M", rng.randrange(len(CALLER_OPS)), rng.randrange(4))
        if op[0] not in "MI" and rng.random() < p_fault:
            own = "k" if op[0] == "S" else "r"
            op = ("F", own if rng.random() < 0.85 else ("r" if own == "k" else "k"), op)
        ops.append(op)
        if op[0] in "IA" and rng.random() < 0.7:
            # the reader outlives an iteration / a read() that reached the end: a second pass (seek back, read again)
            ops.append(("S", rng.choice([0, 0, n // 2, max(n - 1, 0), -1, -n]), rng.choice([0, 0, 1, 2])))
            ops.append(rng.choice([("R", rng.choice([1, 2, -1, n])), ("N", rng.choice([1, 3, 50])), ("A",), ("I", loop_chunk(rng, n, [1, 4, 50]))]))
        if op[0] == "A" and rng.random() < p_caller:
            # what the caller does with the LasData it just got
            for _ in range(rng.choice([1, 1, 2])):
                ops.append(("M", rng.randrange(len(CALLER_OPS)), 0))
    return ops


def op_tok(op):
    if op[0] == "R":
        return f"R{op[1]}"
    if op[0] in "NI":
        return f"{op[0]}{op[1]}"
    if op[0] == "S":
        return f"S{op[1]}:{op[2]}"
    if op[0] == "F":
        return f"!{op[1]}{op_tok(op[2])}"
    if op[0] == "M":
        return f"M{op[1]}.{op[2]}"
    return "A"


def op_letter(op):
    return "!" + op[2][0] if op[0] == "F" else op[0]


def fault_shows(op):
    """the kind of fault is one the operation can meet (reads never seek the source, seek never reads it)"""
    return op[0] == "F" and op[1] == ("k" if op[2][0] == "S" else "r")


def model_toks(op, n):
    """the operation as the model sees it (Model/CursorFault.v): a list of model operations. A complete for loop over
    chunk_iterator(k) is next() until StopIteration: on a file of n points that is at most n // k + 1 calls; next() on an exhausted
    reader changes nothing, so the loop is modelled by n // k + 2 CNext k of which the trailing ones must all be StopIteration
    (Model/CursorIter.v proves that this is the for loop)."""
    if op[0] == "F":
        return [("!" if fault_shows(op) else "") + op_tok(op[2])]
    if op[0] == "I":
        return [f"N{op[1]}"] * (n // op[1] + 2)
    return ["M" if op[0] == "M" else op_tok(op)]


def regroup(ops, n, model):
    """model outputs (one per model operation) -> one per operation of the history"""
    out, i = [], 0
    for op in ops:
        k = len(model_toks(op, n))
        part, i = model[i:i + k], i + k
        if op[0] != "I":
            out.append(part[0] if part else ("e", "model-output-missing"))
            continue
        sl = [m for m in part if m[0] == "b"]
        stops = part[len(sl):]
        ok = (all(m[0] == "b" for m in part[:len(sl)]) and stops and all(m == ("e", "EStop") for m in stops)
              and all(a[2] == b[1] for a, b in zip(sl, sl[1:])))
        out.append(("B", sl[0][1] if sl else 0, sl[-1][2] if sl else 0, [m[2] - m[1] for m in sl]) if ok else ("e", "model-for-loop-not-ended"))
    return out


def parse_ops(toks):
    ops = []
    for t in toks:
        if t[0] == "!":
            ops.append(("F", t[1], parse_ops([t[2:]])[0]))
        elif t[0] == "M":
            a, b = t[1:].split(".")
            ops.append(("M", int(a), int(b)))
        elif t[0] == "S":
            p, w = t[1:].split(":")
            ops.append(("S", int(p), int(w)))
        elif t[0] in "RNI":
            ops.append((t[0], int(t[1:])))
        else:
            ops.append(("A",))
    return ops


# ---------------------------------------------------------------------------------
# the file seen without laspy
# ---------------------------------------------------------------------------------
def layout_of(raw):
    """(version minor, offset to point data, record length, point count) parsed from the header bytes"""
    minor = raw[25]
    off = struct.unpack_from("<I", raw, 96)[0]
    L = struct.unpack_from("<H", raw, 105)[0]
    n = struct.unpack_from("<Q", raw, 247)[0] if minor >= 4 else struct.unpack_from("<I", raw, 107)[0]
    return minor, off, L, n


def point_array(raw):
    """the file's full point array: n records of L bytes from the announced offset on"""
    _, off, L, n = layout_of(raw)
    return raw[off:off + n * L]


def vlr_positions(raw):
    """byte positions of the VLR headers"""
    pos = struct.unpack_from("<H", raw, 94)[0]
    out = []
    for _ in range(struct.unpack_from("<I", raw, 100)[0]):
        out.append(pos)
        pos += 54 + struct.unpack_from("<H", raw, pos + 20)[0]
    return out


def restride(raw, delta, rng):
    """the same file with every point record lengthened by `delta` bytes of undocumented extra data (delta > 0) or cut by
    -delta bytes (delta < 0); record length and, in a 1.4 file, the EVLR pointer are adjusted. Pure byte surgery."""
    minor, off, L, n = layout_of(raw)
    out = bytearray(raw[:off])
    for i in range(n):
        rec = raw[off + i * L: off + (i + 1) * L]
        out += (rec + bytes(rng.randrange(1, 256) for _ in range(delta))) if delta >= 0 else rec[:L + delta]
    out += raw[off + n * L:]
    struct.pack_into("<H", out, 105, L + delta)
    if minor >= 4:
        st = struct.unpack_from("<Q", out, 235)[0]
        if st:
            struct.pack_into("<Q", out, 235, st + n * delta)
    return bytes(out)


def disguise_eb_vlr(raw):
    """the ExtraBytes VLR gets another record id: the file then has extra bytes and NO ExtraBytes VLR"""
    out = bytearray(raw)
    for p in vlr_positions(raw):
        if bytes(out[p + 2:p + 18]).rstrip(b"\0") == b"LASF_Spec" and struct.unpack_from("<H", out, p + 18)[0] == 4:
            struct.pack_into("<H", out, p + 18, 7)
    return bytes(out)


def documented_extra(h):
    return h.point_format.num_extra_bytes


# ---------------------------------------------------------------------------------
# implementation runner
# ---------------------------------------------------------------------------------
class InjectedFault(OSError):
    pass


class Flaky:
    """the CORE of a random-access binary source: read / seek / tell and nothing else (what a minimal range reader offers; laspy needs
    exactly these three to open a file). Optional capabilities are added per class by `source_class`. When armed, raises ONCE: kind "r"
    on the next read / readinto that would deliver point data (the stream stands inside [lo, hi)), kind "k" on the next absolute seek to a
    position inside [lo, hi); nothing is consumed and the position does not move when it raises"""

    def __init__(self, raw, lo=0, hi=0):
        self._b = io.BytesIO(raw)
        self._lo, self._hi = lo, hi
        self.armed = None
        self.fired = False
        self.closed_calls = 0

    def arm(self, kind):
        self.armed, self.fired = kind, False

    def disarm(self):
        self.armed = None

    def _fault(self, kind, pos):
        if self.armed == kind and self._lo <= pos < self._hi:
            self.armed, self.fired = None, True
            raise InjectedFault(f"injected transient fault ({'read' if kind == 'r' else 'seek'} at byte {pos})")

    def read(self, n=-1):
        self._fault("r", self._b.tell())
        return self._b.read(n)

    def seek(self, pos, whence=0):
        if whence == 0:
            self._fault("k", pos)
        return self._b.seek(pos, whence)

    def tell(self):
        return self._b.tell()


def _cap_readinto(self, b):
    self._fault("r", self._b.tell())
    return self._b.readinto(b)


def _cap_close(self):
    self.closed_calls += 1
    self._b.close()


# the capabilities a source may or may not have besides read / seek / tell. `seekable` ABSENT does not mean "cannot seek":
# mmap.mmap (Python <= 3.12), range readers over HTTP / object stores, zipfile members of older versions have seek() and no seekable().
CAPS = {"readinto": _cap_readinto, "seekable": lambda self: True, "readable": lambda self: True, "close": _cap_close,
        "flush": lambda self: None, "fileno": lambda self: (_ for _ in ()).throw(io.UnsupportedOperation("fileno")),
        "closed": property(lambda self: self._b.closed)}
CAP_LETTERS = {"readinto": "i", "seekable": "s", "readable": "r", "close": "c", "flush": "f", "fileno": "n", "closed": "d"}
_CLASSES = {}


def source_class(caps):
    caps = frozenset(caps)
    if caps not in _CLASSES:
        _CLASSES[caps] = type("Source_" + ("_".join(sorted(caps)) or "bare"), (Flaky,), {c: CAPS[c] for c in caps})
    return _CLASSES[caps]


def caps_of(source):
    """'cap:<letters>' -> set of capability names"""
    letters = source.split(":", 1)[1]
    return {c for c, l in CAP_LETTERS.items() if l in letters}


def cap_source_name(caps):
    return "cap:" + "".join(sorted(CAP_LETTERS[c] for c in caps))


# every subset of the three capabilities laspy asks a source about (readinto / seekable / readable), with a close(); a few more
# with the other members a file object may or may not have
CAP_SOURCES = [cap_source_name({"close"} | {c for c, on in zip(("readinto", "seekable", "readable"), bits) if on})
               for bits in [(a, b, c) for a in (0, 1) for b in (0, 1) for c in (0, 1)]] + \
              [cap_source_name({"close", "flush", "fileno", "closed"}), cap_source_name({"close", "readinto", "closed", "flush"}),
               cap_source_name({"close", "readinto", "seekable", "readable", "flush", "fileno", "closed"})]
# sources without close() can only be used with closefd=False
BARE_SOURCES = [cap_source_name(set()), cap_source_name({"readinto"}), cap_source_name({"seekable"})]
PLAIN_SOURCES = ["bytesio", "bytesio", "ctor", "noreadinto", "file", "bytes", "fileobj", "rawfile", "mmap", "mmap"]
SOURCES = PLAIN_SOURCES + CAP_SOURCES


def pick_mode_source(rng):
    """(source, closefd): half of the cases a library object, half a capability class"""
    if rng.random() < 0.5:
        return rng.choice(PLAIN_SOURCES), rng.random() < 0.8
    if rng.random() < 0.2:
        return rng.choice(BARE_SOURCES), False
    return rng.choice(CAP_SOURCES), rng.random() < 0.7


# ---------------------------------------------------------------------------------
# what a caller may do with the objects the reader handed out: (las, rec, rd) = a LasData returned by read() (or None), a record
# returned by read_points / next (or None), the reader (only read from: its header is copied). Exceptions are the caller's business.
# ---------------------------------------------------------------------------------
def _extra_names(las):
    return list(las.point_format.extra_dimension_names)


def _c_add_dim(las, rec, rd):
    import laspy
    las.add_extra_dim(laspy.ExtraBytesParams(f"c{len(_extra_names(las))}", "u4"))


def _c_add_dims(las, rec, rd):
    import laspy
    k = len(_extra_names(las))
    las.add_extra_dims([laspy.ExtraBytesParams(f"c{k}", "u1"), laspy.ExtraBytesParams(f"c{k + 1}", "3f8")])


def _c_remove_dims(las, rec, rd):
    las.remove_extra_dims(_extra_names(las))


def _c_remove_dim(las, rec, rd):
    las.remove_extra_dim(_extra_names(las)[0])


def _c_points_subset(las, rec, rd):
    las.points = las.points[::2]


def _c_points_new(las, rec, rd):
    import laspy
    las.points = laspy.ScaleAwarePointRecord.zeros(3, header=las.header)


def _c_count_zero(las, rec, rd):
    las.header.point_count = 0


def _c_count_big(las, rec, rd):
    las.header.point_count = 10 ** 6


def _c_offset(las, rec, rd):
    las.header.offset_to_point_data += 13


def _c_format_add_in_place(las, rec, rd):
    import laspy
    las.header.point_format.add_extra_dimension(laspy.ExtraBytesParams(f"p{len(_extra_names(las))}", "u2"))


def _c_format_remove_in_place(las, rec, rd):
    las.point_format.remove_extra_dimension(_extra_names(las)[0])


def _c_version_format(las, rec, rd):
    import laspy
    from laspy.header import Version
    las.header.set_version_and_point_format(Version(1, 4), laspy.PointFormat(7 if las.header.point_format.id < 6 else 6))


def _c_header_format(las, rec, rd):
    import laspy
    las.header.point_format = laspy.PointFormat(0 if las.header.point_format.id else 1)


def _c_vlrs(las, rec, rd):
    from laspy.vlrs.vlrlist import VLRList
    las.header.vlrs = VLRList()
    las.header.evlrs = None
    las.header.number_of_evlrs = 0
    las.header.start_of_first_evlr = 0


def _c_scaling(las, rec, rd):
    las.header.scales = [7.0, 7.0, 7.0]
    las.header.offsets = [1.0, 2.0, 3.0]


def _c_update_header(las, rec, rd):
    las.update_header()


def _c_header_dims(las, rec, rd):
    import laspy
    las.header.add_extra_dims([laspy.ExtraBytesParams(f"h{len(_extra_names(las))}", "i8")])


def _c_header_remove_dims(las, rec, rd):
    las.header.remove_extra_dims(_extra_names(las))


def _c_values(las, rec, rd):
    las.points.array[:] = 0


def _c_write(las, rec, rd):
    las.write(io.BytesIO())


def _c_header_extra_bytes(las, rec, rd):
    las.header.extra_header_bytes = b"caller" * 3
    las.header.extra_vlr_bytes = b"\0" * 11


def _c_change_scaling(las, rec, rd):
    las.change_scaling(scales=[0.5, 0.5, 0.5])


def _c_wrap_chunk(las, rec, rd):
    import laspy
    l2 = laspy.LasData(header=copy.deepcopy(rd.header), points=rec)
    l2.add_extra_dim(laspy.ExtraBytesParams("w", "u4"))
    l2.header.point_count = 0
    l2.update_header()


def _c_wrap_chunk_remove(las, rec, rd):
    import laspy
    l2 = laspy.LasData(header=copy.deepcopy(rd.header), points=rec)
    l2.remove_extra_dims(list(l2.point_format.extra_dimension_names))


def _c_convert(las, rec, rd):
    import laspy
    laspy.convert(las, point_format_id=7 if las.header.point_format.id < 6 else 3)


CALLER_OPS = [_c_add_dim, _c_add_dim, _c_add_dims, _c_remove_dims, _c_remove_dim, _c_points_subset, _c_points_new, _c_count_zero, _c_count_big,
              _c_offset, _c_format_add_in_place, _c_format_remove_in_place, _c_version_format, _c_header_format, _c_vlrs, _c_scaling,
              _c_update_header, _c_header_dims, _c_header_remove_dims, _c_values, _c_write, _c_header_extra_bytes, _c_change_scaling,
              _c_wrap_chunk, _c_wrap_chunk_remove, _c_convert]


def open_reader(raw, source, read_evlrs, tmp, flaky=None, closefd=True, keep=None):
    """`keep`: list that receives the underlying source object (when the caller owns one)"""
    import laspy
    import mmap
    kw = {"read_evlrs": read_evlrs, "closefd": closefd}
    keep = keep if keep is not None else []
    if flaky is not None:
        # a history with faults / a capability class: the stream object is made by the caller of this function
        keep.append(flaky)
        return laspy.LasReader(flaky, **kw) if source == "ctor" else laspy.open(flaky, **kw)
    if source == "ctor":
        keep.append(io.BytesIO(raw))
        return laspy.LasReader(keep[-1], **kw)
    if source == "bytes":
        return laspy.open(raw, **kw)
    if source == "mmap":
        mm = mmap.mmap(-1, max(len(raw), 1))
        mm.write(raw)
        mm.seek(0)
        keep.append(mm)
        return laspy.open(mm, **kw)
    if source in ("file", "fileobj", "rawfile"):
        fd, path = tempfile.mkstemp(suffix=".las", dir="/var/tmp")
        with os.fdopen(fd, "wb") as f:
            f.write(raw)
        tmp.append(path)
        if source == "file":
            if not closefd:
                # closefd=False with a path is refused by open(); a file descriptor is what the parameter is for
                keep.append(open(path, "rb"))
                return laspy.open(keep[-1], **kw)
            return laspy.open(path, **kw)
        keep.append(open(path, "rb") if source == "fileobj" else open(path, "rb", buffering=0))
        return laspy.open(keep[-1], **kw)
    keep.append(io.BytesIO(raw))
    return laspy.open(keep[-1], **kw)


STD_CAPS = {"noreadinto": {"seekable", "readable", "close"}, None: {"readinto", "seekable", "readable", "close"}}


def run_impl(raw, ops, source="bytesio", read_evlrs=True, npints=False, closefd=True):
    """returns (outputs, facts): outputs = ('s', bytes, number of records) | ('k', idx) | ('e', kind); facts = what the reader
    says about the file. The records returned by EVERY call are kept alive and looked at again after the whole history (a later
    read must not overwrite an earlier result)."""
    import numpy as np
    wrap = (lambda v: np.int64(v)) if npints else (lambda v: v)
    outs, iters, kept, tmp, handed = [], {}, [], [], []
    flaky = None
    multi = []
    if source.startswith("cap:") or source == "noreadinto" or any(o[0] == "F" for o in ops):
        # a capability class (also the vehicle of the faults: a history with faults on a library object runs on the full class)
        _, off, L, n = layout_of(raw)
        caps = caps_of(source) if source.startswith("cap:") else STD_CAPS.get(source, STD_CAPS[None])
        flaky = source_class(caps)(raw, off, off + n * L)
    logging.disable(logging.CRITICAL)
    try:
        with open_reader(raw, source, read_evlrs, tmp, flaky, closefd) as rd:
            facts = {"stride": int(rd.header.point_format.size), "offset": int(rd.header.offset_to_point_data), "count": int(rd.header.point_count)}
            for op in ops:
                if op[0] == "M":
                    las = handed[op[2] % len(handed)] if handed else None
                    rec = kept[op[2] % len(kept)][1] if kept else None
                    fn = CALLER_OPS[op[1] % len(CALLER_OPS)]
                    try:
                        if (las is not None) or (rec is not None and fn.__name__.startswith("_c_wrap")):
                            fn(las, rec, rd)
                    except Exception:  # noqa
                        pass
                    outs.append(("m",))
                    continue
                if op[0] == "F":
                    flaky.arm(op[1])
                    op = op[2]
                try:
                    if op[0] == "R":
                        r = rd.read_points(wrap(op[1]))
                        kept.append((len(outs), r))
                        outs.append(("s", bytes(r.memoryview()), len(r)))
                    elif op[0] == "N":
                        it = iters.get(op[1])
                        if it is None:
                            it = iters[op[1]] = rd.chunk_iterator(wrap(op[1]))
                        r = next(it)
                        kept.append((len(outs), r))
                        outs.append(("s", bytes(r.memoryview()), len(r)))
                    elif op[0] == "I":
                        # a complete `for` loop over a fresh iterator: consumed to the end (StopIteration reached)
                        chunks = []
                        for r in rd.chunk_iterator(wrap(op[1])):
                            chunks.append(r)
                        multi.append((len(outs), chunks))
                        outs.append(("s", b"".join(bytes(r.memoryview()) for r in chunks), sum(len(r) for r in chunks), [len(r) for r in chunks]))
                    elif op[0] == "S":
                        outs.append(("k", int(rd.seek(wrap(op[1]), op[2]))))
                    else:
                        las = rd.read()
                        p = las.points
                        outs.append(("s", bytes(p.memoryview()), len(p)))
                        handed.insert(0, las)
                except InjectedFault:
                    outs.append(("e", "fault"))
                except Exception as ex:  # noqa
                    outs.append(("e", common.exc_kind(ex)))
                finally:
                    if flaky is not None:
                        flaky.disarm()
            for i, r in kept:
                now = bytes(r.memoryview())
                if now != outs[i][1]:
                    outs[i] = ("s", now + b"<changed-after-later-reads>", outs[i][2])
            for i, chunks in multi:
                now = b"".join(bytes(r.memoryview()) for r in chunks)
                if now != outs[i][1]:
                    outs[i] = ("s", now + b"<changed-after-later-reads>", outs[i][2], outs[i][3])
    finally:
        logging.disable(logging.NOTSET)
        for p in tmp:
            try:
                os.remove(p)
            except OSError:
                pass
    return outs, facts


def spec_py(n, ops):
    """the property's cursor model, stated directly (oracle for the search)"""
    c = 0
    outs = []
    for op in ops:
        if op[0] == "M":
            # nothing a caller does to what it was handed reaches the reader
            outs.append(("m",))
            continue
        if op[0] == "F":
            shows, op = fault_shows(op), op[2]
            if op[0] == "S":
                t = op[1] if op[2] == 0 else (c + op[1] if op[2] == 1 else n + op[1] if op[2] == 2 else -1)
                reaches = 0 <= t < n
            else:
                reaches = c < n
            if shows and reaches:
                # the source raised before consuming anything: the call failed, the cursor is where it was
                outs.append(("e", "fault"))
                continue
        if op[0] == "I":
            # the for loop hands out the rest of the file in chunks of k records (the last one shorter), and ends: cursor at the end
            m = max(n - c, 0)
            outs.append(("s", c, c + m, [op[1]] * (m // op[1]) + ([m % op[1]] if m % op[1] else [])))
            c += m
            continue
        if op[0] in ("R", "N", "A"):
            k = -1 if op[0] == "A" else op[1]
            m = (n - c) if k < 0 else min(k, n - c)
            m = max(m, 0)
            if op[0] == "N" and m == 0:
                outs.append(("e", "EStop"))
            else:
                outs.append(("s", c, c + m))
            c += m
        else:
            pos, wh = op[1], op[2]
            if wh not in (0, 1, 2):
                outs.append(("e", "EValue"))
                continue
            t = pos if wh == 0 else (c + pos if wh == 1 else n + pos)
            if 0 <= t < n:
                c = t
                outs.append(("k", t))
            else:
                outs.append(("e", "EIndex"))
    return outs


# ---------------------------------------------------------------------------------
# files
# ---------------------------------------------------------------------------------
def empty_laz_flagged(rng):
    """a 0-point LAS 1.4 file whose point-format byte carries the compressed bit and which holds a LasZip record and an EVLR:
    laspy uses its null reader for it (no LAZ backend is needed), so every read returns an empty record"""
    import laspy
    h = lasio.rand_header(rng, version="1.4", nvlrs=0)
    h.vlrs.append(laspy.VLR("laszip encoded", 22204, "http://laszip.org", bytes(34)))
    evl = laspy.vlrs.vlrlist.VLRList([lasio.rand_vlr(rng, 40)])
    raw = bytearray(lasio.write_las(h, laspy.PackedPointRecord.zeros(0, h.point_format), evl))
    raw[104] |= 0x80
    return bytes(raw), h


def base_file(rng, version, fmt, n, dims):
    """a file written by laspy: `dims` documented extra dimensions, n random records, EVLRs in some 1.4 files"""
    import laspy
    h = lasio.rand_header(rng, version=version, fmt=fmt)
    if dims:
        lasio.add_extra_dims(rng, h, dims)
    pts = lasio.rand_points(rng, h, n, pattern="random")
    evl = []
    if version == "1.4" and rng.random() < 0.6:
        evl = laspy.vlrs.vlrlist.VLRList([lasio.rand_vlr(rng) for _ in range(rng.choice([1, 2]))])
    return lasio.write_las(h, pts, evl), h, len(evl)


BIG_N = 3400000


def big_file(rng):
    """a LAS 1.2 / format 0 file of 3.4 million records (68 MB of point data) whose bytes follow a pattern without short period:
    the header is laspy's, the records are written here"""
    import numpy as np
    import laspy
    h = laspy.LasHeader(version="1.2", point_format=0)
    raw = bytearray(lasio.write_las(h, laspy.PackedPointRecord.zeros(0, h.point_format), []))
    struct.pack_into("<I", raw, 107, BIG_N)
    x = np.arange(BIG_N * 20 // 4, dtype=np.uint32)
    body = ((x * np.uint32(2654435761)) ^ (x >> np.uint32(7)) ^ np.uint32(rng.getrandbits(32))).tobytes()
    return bytes(raw) + body


def big_histories(rng, n):
    """short histories in which a single call transfers (nearly) everything"""
    return [[("A",)], [("R", n)], [("R", -1), ("S", 0, 0), ("I", n + 1)], [("R", 10), ("A",), ("S", 1, 0), ("N", n)],
            [("S", 5, 0), ("R", n - 6), ("R", 5)], [("I", n - 1), ("S", -1, 2), ("A",)]]


def make_files(ctx):
    """list of (raw, label, histories per file weight). Every label names how the record length relates to the format."""
    files = []
    rng = ctx.rng
    for _ in range(2):
        raw, h = empty_laz_flagged(rng)
        files.append((raw, "1.4/empty-file-flagged-compressed/evlrs1", 1.0))
    pairs = [(v, f) for v in lasio.VERSIONS for f in lasio.COMPAT[v]]
    # written by laspy, no extra bytes
    for version, fmt in pairs:
        if not ctx.thorough() and rng.random() < 0.6:
            continue
        for n in ([0, 1, 23] if not ctx.thorough() else [0, 1, 2, 23, 64]):
            raw, h, ne = base_file(rng, version, fmt, n, 0)
            files.append((raw, f"{version}/fmt{fmt}/n{n}/evlrs{ne}/standard-size", 1.0))
    # point data larger than 64 KiB (the block sizes of buffered / read-ahead / chunked sources), a record length that divides 65536 or not
    for version, fmt, n in [("1.2", 0, 3300), ("1.4", 6, 2200)] + ([("1.2", 1, 70000), ("1.4", 7, 40000)] if ctx.thorough() else []):
        raw, h, ne = base_file(rng, version, fmt, n, 0)
        files.append((raw, f"{version}/fmt{fmt}/n{n}/evlrs{ne}/standard-size", 0.25))
    # more than 64 MiB of point data, so that ONE read_points / read() / chunk transfers more than 64 MiB (sources and platforms cut
    # large single transfers; a reader that splits them must deliver every block)
    files.append((big_file(rng), "1.2/fmt0/n3400000/evlrs0/standard-size/over-64MiB", 0))
    # record length larger than the format's standard size, in every version / format:
    #   exact   the ExtraBytes VLR documents exactly all extra bytes (what laspy writes)
    #   fewer   the VLR documents a dimension, the records carry more bytes after it
    #   novlr   extra bytes and no ExtraBytes VLR at all
    #   hidden  documented dimensions whose VLR is not recognisable (another record id), plus undocumented bytes
    #   ignored an ExtraBytes VLR although the records have the standard size
    kinds = ["exact", "fewer", "fewer", "novlr", "hidden", "ignored"]
    for version, fmt in pairs:
        for kind in (kinds if ctx.thorough() else [rng.choice(kinds), "fewer", rng.choice(["novlr", "hidden", "ignored", "exact"])]):
            n = rng.choice([1, 2, 7, 23]) if rng.random() < 0.85 else 0
            dims = 0 if kind == "novlr" else rng.choice([1, 1, 2, 3])
            raw, h, ne = base_file(rng, version, fmt, n, dims)
            doc = documented_extra(h)
            if kind in ("fewer", "novlr"):
                raw = restride(raw, rng.choice([1, 1, 2, 3, 8, 40]), rng)
            elif kind == "hidden":
                raw = restride(disguise_eb_vlr(raw), rng.choice([0, 1, 5]), rng)
            elif kind == "ignored":
                raw = restride(raw, -doc, rng)
            L = layout_of(raw)[2]
            files.append((raw, f"{version}/fmt{fmt}/n{n}/evlrs{ne}/extra-bytes-{kind}/record{L}=std{h.point_format.size - doc}+documented{0 if kind in ('hidden', 'ignored') else doc}", 0.5))
    # bytes after the last record that are not EVLRs (the header's count, not the size of the file, bounds the cursor)
    for version, fmt in ([rng.choice(pairs) for _ in range(4)] if not ctx.thorough() else pairs):
        n = rng.choice([0, 1, 5])
        raw, h, ne = base_file(rng, version, fmt, n, rng.choice([0, 0, 1]))
        if ne == 0:
            L = layout_of(raw)[2]
            raw = raw + bytes(rng.randrange(256) for _ in range(rng.choice([1, L - 1, L, 3 * L + 2])))
            files.append((raw, f"{version}/fmt{fmt}/n{n}/trailing-bytes", 0.5))
        else:
            g = lasio.with_gap(raw, rng.choice([1, 7, 64]))
            if g is not None:
                files.append((g, f"{version}/fmt{fmt}/n{n}/evlrs{ne}/gap-before-evlrs", 0.5))
    return files


def histories(ctx):
    files = make_files(ctx)
    per = ctx.n(40, 300)
    cases = []
    for raw, label, weight in files:
        n = layout_of(raw)[3]
        if "over-64MiB" in label:
            hs = big_histories(ctx.rng, n)
            for j, ops in enumerate(hs if ctx.thorough() else ctx.rng.sample(hs, 2)):
                # both transfer paths of the point source: readinto(buffer) and read(n)
                src = ctx.rng.choice(["bytesio", "file", "fileobj", "rawfile", "cap:cirs", "cap:ci"] if j % 2 == 0 else ["mmap", "noreadinto", "cap:c", "cap:crs"])
                closefd = ctx.rng.random() < 0.8
                cases.append((raw, label, {"source": src, "closefd": closefd, "read_evlrs": True, "npints": False}, ops))
            continue
        for k in range(max(3, int(per * weight))):
            src, closefd = pick_mode_source(ctx.rng)
            mode = {"source": src, "closefd": closefd,
                    # EVLRs loaded at opening or deferred to read(): the cursor behaves the same
                    "read_evlrs": bool(k % 3),
                    # numpy integers as counts / positions
                    "npints": ctx.rng.random() < 0.15}
            cases.append((raw, label, mode, gen_history(ctx.rng, n)))
    return cases


def mode_tok(mode):
    return (f"{mode['source']}|{'evlrs-at-open' if mode['read_evlrs'] else 'evlrs-deferred'}{'|numpy-ints' if mode['npints'] else ''}"
            f"{'' if mode.get('closefd', True) else '|closefd=False'}")


# ---------------------------------------------------------------------------------
# comparison
# ---------------------------------------------------------------------------------
def compare(expected, got, raw):
    """expected: list of ('s', a, b) | ('k', i) | ('e', kind) in RECORDS of the file's own point array; got: impl outputs.
    Returns index of first mismatch or None"""
    _, off, L, n = layout_of(raw)
    for i, (e, g) in enumerate(zip(expected, got)):
        if e[0] == "s":
            if g[0] != "s" or g[1] != raw[off + e[1] * L:off + e[2] * L] or g[2] != e[2] - e[1]:
                return i
            if len(e) > 3 and list(g[3]) != e[3]:
                return i
        elif e[0] == "k":
            if g != ("k", e[1]):
                return i
        elif e[0] == "m":
            if g != ("m",):
                return i
        else:
            if g != ("e", e[1]):
                return i
    return None


def parse_model(line):
    outs = []
    for t in line.split():
        if t[0] == "b":
            a, b = t[1:].split(":")
            outs.append(("b", int(a), int(b)))
        elif t[0] == "k":
            outs.append(("k", int(t[1:])))
        elif t == "-":
            outs.append(("m",))
        else:
            outs.append(("e", "fault" if t[1:] == "EOther" else t[1:]))
    return outs


def compare_bytes(model, got, raw):
    L = layout_of(raw)[2]
    for i, (m, g) in enumerate(zip(model, got)):
        if m[0] == "b":
            if g[0] != "s" or g[1] != raw[m[1]:m[2]]:
                return i
        elif m[0] == "B":
            if g[0] != "s" or g[1] != raw[m[1]:m[2]] or len(g) < 4 or [k * L for k in g[3]] != m[3]:
                return i
        elif m[0] == "k":
            if g != ("k", m[1]):
                return i
        elif m[0] == "m":
            if g != ("m",):
                return i
        else:
            if g != ("e", m[1]):
                return i
    return None


def got_short(g, L):
    return (g[0], f"{g[2]} records, {len(g[1])} bytes ({len(g[1]) / L if L else 0:g} file records)") if g[0] == "s" else g


_CASES = None

KNOWN = "empty-laz-evlrs-nonseekable"


def says_not_seekable(mode, ops):
    """the source has seek() but laspy takes it for a non-seekable one: it has no seekable() method"""
    import mmap
    src = mode["source"]
    if src.startswith("cap:"):
        return "seekable" not in caps_of(src)
    return src == "mmap" and not hasattr(mmap.mmap, "seekable") and not any(o[0] == "F" for o in ops)


def known_finding(label, mode, ops, bad, got):
    """the OPEN finding `empty-laz-evlrs-nonseekable` of known_findings.json (filed under C14 / C17) seen from this property: read() of a
    0-point file flagged compressed that has EVLRs, from a source laspy takes for non-seekable, raises LaspyException instead of
    returning an empty record. Here the source CAN seek and merely lacks the seekable() method (mmap.mmap, a range reader)."""
    op = ops[bad][2] if ops[bad][0] == "F" else ops[bad]
    return ("empty-file-flagged-compressed" in label and op[0] == "A" and got[bad] == ("e", "ELaspy") and says_not_seekable(mode, ops))


def correspond(ctx):
    global _CASES
    ctx.extra["rule"] = ("random histories (1..24 ops) over {read_points(n), seek(pos, whence), next(chunk_iterator(k)) on iterators kept "
                         "alive across ops, a complete for loop over chunk_iterator(k) (consumed to the end) followed by seeks and second passes, read(), any of these while the source raises once on its first read/readinto/seek of point data "
                         "(caught, history goes on), caller operations on the LasData / header / point format / record handed out by earlier calls "
                         "(add/remove extra dims, points replaced, header edits, write, convert)} with n/pos drawn around 0, +-1, count, count+-1, huge, as Python or numpy integers; files of every "
                         "(version, format) x counts {0,1,23,..} with/without trailing EVLRs, written by laspy or not: record length = standard size, "
                         "+ extra bytes documented exactly / partly / not at all by an ExtraBytes VLR, a VLR although the records carry none, bytes "
                         "after the last record, a gap before the EVLRs, one file with > 64 MiB of point data read in single calls; opened through laspy.open(BytesIO | bytes | path | file object buffered / unbuffered | mmap.mmap | "
                         "a class offering read/seek/tell plus every subset of {readinto, seekable(), readable()} and some of {close, flush, fileno, closed}), "
                         "closefd True / False, and LasReader(). The expected records are slices of the point array cut from the raw bytes with the header's own offset / "
                         "record length / count. non-trivial = the history has a seek, a fault or a caller operation; distinct by (file label, mode, history)")
    _CASES = histories(ctx)
    # what the header model says about each file: count, record length (= the stride a faithful reader uses), offset
    files = {}
    for raw, label, _, _ in _CASES:
        files.setdefault(id(raw), (raw, label))
    hdr = common.run_model([f"dec_header {common.hexb(raw[:layout_of(raw)[1]])} F" for raw, _ in files.values()])
    dis = []
    view = {}
    for (key, (raw, label)), line in zip(files.items(), hdr):
        t = line.split(" ")
        minor, off, L, n = layout_of(raw)
        if t[0] != "ok":
            dis.append({"kind": "header of a generated file", "input": {"file": label}, "model": line[:80], "impl": "generated as readable"})
            continue
        mn = lasio.parse_assoc(t[1]).get("point_count", 0)
        view[key] = (int(t[7]), int(t[6]), mn)
        if (int(t[7]), int(t[6]), mn) != (off, L, n):
            dis.append({"kind": "header of a generated file", "input": {"file": label}, "model": [int(t[7]), int(t[6]), mn], "impl": [off, L, n]})
    cmds = []
    for raw, label, mode, ops in _CASES:
        off, L, n = view.get(id(raw), layout_of(raw)[1:])
        cmds.append(f"bfrun {off} {L} {n} " + " ".join(t for o in ops for t in model_toks(o, n)))
    outs = common.run_model(cmds, name=DRIVER)
    for (raw, label, mode, ops), line in zip(_CASES, outs):
        off, L, n = view.get(id(raw), layout_of(raw)[1:])
        model = regroup(ops, n, parse_model(line))
        try:
            impl, facts = run_impl(raw, ops, **mode)
        except Exception as ex:
            dis.append({"kind": "file cannot be opened", "input": {"file": label, "mode": mode_tok(mode)}, "model": "ok", "impl": repr(ex)[:200]})
            continue
        ctx.traces += 1
        nontriv = any(o[0] in "SFM" for o in ops)
        ctx.case((label, mode_tok(mode), tuple(ops)), nontrivial=nontriv, sample={"file": label, "mode": mode_tok(mode), "ops": [op_tok(o) for o in ops], "model": line})
        for o in ops:
            ctx.count("op:" + (("fault-during-" + o[2][0] + ("" if fault_shows(o) else "(kind the op never meets)")) if o[0] == "F" else
                               ("caller:" + CALLER_OPS[o[1] % len(CALLER_OPS)].__name__[3:]) if o[0] == "M" else o[0]))
        ctx.count("source:" + mode["source"] + ("" if not mode["source"].startswith("cap:") else
                                                  " = read/seek/tell+" + ",".join(sorted(caps_of(mode["source"])))))
        if not mode.get("closefd", True):
            ctx.count("closefd=False")
        if any(a[0] in "IA" and b[0] == "S" for a, b in zip(ops, ops[1:])):
            ctx.count("history:seek-after-iteration-or-read()-to-the-end")
        ctx.count("file:" + (label.split("/extra-bytes-")[1].split("/")[0] if "extra-bytes-" in label else label.split("/")[-1].split("-")[0] + "…"))
        for m in model:
            ctx.count("out:" + (m[1] if m[0] == "e" else m[0]))
        if any(o[0] == "M" for o in ops) and any(o[0] == "A" for o in ops):
            ctx.count("history:caller-operation-after-read()")
        if (facts["stride"], facts["offset"], facts["count"]) != (L, off, n):
            dis.append({"kind": "reader stride / offset / count", "input": {"file": label, "mode": mode_tok(mode)},
                        "model": {"stride": L, "offset": off, "count": n}, "impl": facts})
        bad = compare_bytes(model, impl, raw)
        if bad is not None:
            dis.append({"kind": (KNOWN + ": " if known_finding(label, mode, ops, bad, impl) else "") + f"history op {op_letter(ops[bad])}", "input": {"file": label, "mode": mode_tok(mode), "ops": [op_tok(o) for o in ops], "at": bad},
                        "model": model[bad], "impl": got_short(impl[bad], L)})
    return dis


def fails(raw, ops, mode):
    """index of the first operation that violates the oracle, or None; -1: the file cannot be opened"""
    try:
        got, _ = run_impl(raw, ops, **mode)
    except Exception:
        return -1, None
    return compare(spec_py(layout_of(raw)[3], ops), got, raw), got


def shrink(raw, ops, mode):
    """drop operations while the oracle still fails"""
    cur = list(ops)
    changed = True
    while changed:
        changed = False
        for i in range(len(cur)):
            cand = cur[:i] + cur[i + 1:]
            if cand and fails(raw, cand, mode)[0] is not None:
                cur = cand
                changed = True
                break
    return cur


def legend(op):
    if op[0] == "F":
        return (f"{op_tok(op[2])} during which the source raises once on its next {'read/readinto of point data' if op[1] == 'r' else 'seek into the point data'}, "
                "before consuming anything; the exception is caught and the history goes on")
    return f"caller operation `{CALLER_OPS[op[1] % len(CALLER_OPS)].__name__[3:]}` on the {op[2]}-th most recent LasData returned by read() (chunk for wrap_chunk*)"


def file_class(label):
    return label.split("/extra-bytes-")[1].split("/")[0] if "extra-bytes-" in label else label.split("/")[-1]


def file_hex(raw, label):
    """the file for the replay; the 68 MB file is rebuilt from its recipe (header + pattern) instead of being dumped"""
    if "over-64MiB" in label:
        return "big:" + raw[:layout_of(raw)[1]].hex() + ":" + str(struct.unpack_from("<I", raw, layout_of(raw)[1])[0])
    return raw.hex()


def file_from_hex(hx):
    if hx.startswith("big:"):
        import numpy as np
        _, head, first = hx.split(":")
        x = np.arange(BIG_N * 20 // 4, dtype=np.uint32)
        seed = np.uint32(int(first)) ^ np.uint32(0)       # the first word of the body is (0 * c) ^ (0 >> 7) ^ seed = seed
        return bytes.fromhex(head) + ((x * np.uint32(2654435761)) ^ (x >> np.uint32(7)) ^ seed).tobytes()
    return bytes.fromhex(hx)


def search(ctx, seeds):
    cases = _CASES if _CASES is not None else histories(ctx)
    failing = []
    seen = set()
    for raw, label, mode, ops in cases:
        _, off, L, n = layout_of(raw)
        bad, got = fails(raw, ops, mode)
        if bad is None:
            continue
        if bad == -1:
            kind = f"file cannot be opened: {file_class(label)}"
            if kind not in seen:
                seen.add(kind)
                try:
                    run_impl(raw, [], **mode)
                    why = "?"
                except Exception as ex:
                    why = repr(ex)
                failing.append({"kind": kind, "input": {"file": label, "mode": mode, "points": n, "record_length": L, "file_hex": file_hex(raw, label)}, "observed": why})
            continue
        if known_finding(label, mode, ops, bad, got):
            if KNOWN in seen:
                continue
            seen.add(KNOWN)
        small = shrink(raw, ops, mode)
        b2, got2 = fails(raw, small, mode)
        kind = f"cursor: {' '.join(op_letter(o) for o in small)}" + (f" [{file_class(label)}]" if "standard-size" not in label else "")
        if known_finding(label, mode, small, b2, got2):
            kind = f"{KNOWN}: read() of an empty file flagged compressed with EVLRs from a source that has seek() and no seekable() method"
        if kind in seen:
            continue
        seen.add(kind)
        exp = spec_py(n, small)[b2]
        failing.append({"kind": kind, "input": {"file": label, "mode": mode, "points": n, "record_length": L, "offset_to_point_data": off,
                                                "ops": [op_tok(o) for o in small],
                                                "ops_legend": {op_tok(o): legend(o) for o in small if o[0] in "FM"}, "file_hex": file_hex(raw, label)},
                        "observed": f"op #{b2} {op_tok(small[b2])}: expected {exp}" +
                                    (f" = bytes [{off + exp[1] * L}, {off + exp[2] * L}) of the file" if exp[0] == "s" else "") + f", got {got_short(got2[b2], L)}"})
        if len(failing) >= 5:
            break
    return failing


def replay(ctx, data):
    inp = data.get("failing_input", {}).get("input")
    if not inp or "file_hex" not in inp:
        print("nothing to replay")
        return 0
    raw = file_from_hex(inp["file_hex"])
    ops = parse_ops(inp.get("ops", []))
    mode = inp.get("mode") or {"source": "bytesio", "read_evlrs": True, "npints": False}
    bad, _ = fails(raw, ops, mode)
    print("REPRODUCED at op", bad if bad is not None else "- not reproduced")
    return 1 if bad is not None else 0
