"""C05 — the reader is a faithful cursor. Model: Gen/GenCursor.v (translated read_points/seek) in Model/Cursor.v and, at byte
level, Model/CursorBytes.v (the point source is the file's byte stream, addressed with a stride).
The file's full point array is computed INDEPENDENTLY of laspy from the raw bytes: offset, record length and count are parsed
from the header bytes with struct; the array is the `count` records of `record length` bytes from `offset` on. Files: written by
laspy (every version/format, extra dimensions) and files laspy did not write (extra bytes without ExtraBytes VLR, a VLR that
documents fewer bytes than the records carry, a VLR although the records carry none, bytes after the last record, a gap before
the EVLRs). Correspondence: the reader's stride / offset / count vs dec_header of Model/Las.v; the bytes returned by every call
vs the byte ranges of brun / bfrun. Search: the abstract cursor of the property, restated in Python, against the implementation.
Histories also contain (Model/CursorFault.v): FAULTS - the source raises once during a call (read / readinto for the three kinds of read,
seek for seek) before consuming or moving anything, the exception is caught and the history goes on: a failed call is a no-op on the
cursor - and CALLER operations on the objects the reader handed out (the LasData of read(): extra dimensions added / removed through the
LasData, its header, its point format; points replaced; header fields, VLRs, version / format edited; written out; a chunk wrapped
into a LasData): the reader must be unaffected."""
import copy
import io
import logging
import os
import struct
import tempfile

from harness import common, lasio

DRIVER = "c05"
ASSUMPTIONS = ["uncompressed files; the point source holds a complete file (BytesIO, a stream without readinto, a file on disk)"]

SOURCES = ["bytesio", "bytesio", "ctor", "noreadinto", "file"]


def gen_history(rng, n, faults=True, caller=True):
    """ops: ("R", n) read_points | ("S", pos, whence) seek | ("N", k) next(chunk_iterator(k)) | ("A",) read()
            | ("F", kind, op) op during which the source raises once: kind "r" = on its next read / readinto of point data,
              "k" = on its next seek into the point data (a kind the op never uses cannot show: the op is then the plain one)
            | ("M", what, which) caller operation number `what` on the `which`-th object the reader handed out"""
    ops = []
    around = [0, 1, -1, n, n - 1, n + 1, -n, -n - 1, -n + 1, 2, 3, n // 2, 10 ** 9, -10 ** 9]
    p_fault = rng.choice([0, 0, 0.1, 0.3]) if faults else 0
    p_caller = rng.choice([0, 0.5, 0.5, 1]) if caller else 0
    for _ in range(rng.randrange(1, 25)):
        r = rng.random()
        if r < 0.33:
            op = ("R", rng.choice(around + [rng.randrange(-3, n + 5)]))
        elif r < 0.64:
            op = ("S", rng.choice(around + [rng.randrange(-n - 3, n + 4)]), rng.choice([0, 0, 1, 1, 2, 2, 3]))
        elif r < 0.85:
            op = ("N", rng.choice([1, 2, 3, 5, max(1, n // 3), n + 1, 50]))
        elif r < 0.95 or not p_caller:
            op = ("A",)
        else:
            op = ("M", rng.randrange(len(CALLER_OPS)), rng.randrange(4))
        if op[0] != "M" and rng.random() < p_fault:
            own = "k" if op[0] == "S" else "r"
            op = ("F", own if rng.random() < 0.85 else ("r" if own == "k" else "k"), op)
        ops.append(op)
        if op[0] == "A" and rng.random() < p_caller:
            # what the caller does with the LasData it just got
            for _ in range(rng.choice([1, 1, 2])):
                ops.append(("M", rng.randrange(len(CALLER_OPS)), 0))
    return ops


def op_tok(op):
    if op[0] == "R":
        return f"R{op[1]}"
    if op[0] == "N":
        return f"N{op[1]}"
    if op[0] == "S":
        return f"S{op[1]}:{op[2]}"
    if op[0] == "F":
        return f"!{op[1]}{op_tok(op[2])}"
    if op[0] == "M":
        return f"M{op[1]}.{op[2]}"
    return "A"


def op_letter(op):
    return "!" + op[2][0] if op[0] == "F" else op[0]


def fault_shows(op):
    """the kind of fault is one the operation can meet (reads never seek the source, seek never reads it)"""
    return op[0] == "F" and op[1] == ("k" if op[2][0] == "S" else "r")


def model_tok(op):
    """the operation as the model sees it (Model/CursorFault.v)"""
    if op[0] == "F":
        return ("!" if fault_shows(op) else "") + op_tok(op[2])
    return "M" if op[0] == "M" else op_tok(op)


def parse_ops(toks):
    ops = []
    for t in toks:
        if t[0] == "!":
            ops.append(("F", t[1], parse_ops([t[2:]])[0]))
        elif t[0] == "M":
            a, b = t[1:].split(".")
            ops.append(("M", int(a), int(b)))
        elif t[0] == "S":
            p, w = t[1:].split(":")
            ops.append(("S", int(p), int(w)))
        elif t[0] in "RN":
            ops.append((t[0], int(t[1:])))
        else:
            ops.append(("A",))
    return ops


# ---------------------------------------------------------------------------------
# the file seen without laspy
# ---------------------------------------------------------------------------------
def layout_of(raw):
    """(version minor, offset to point data, record length, point count) parsed from the header bytes"""
    minor = raw[25]
    off = struct.unpack_from("<I", raw, 96)[0]
    L = struct.unpack_from("<H", raw, 105)[0]
    n = struct.unpack_from("<Q", raw, 247)[0] if minor >= 4 else struct.unpack_from("<I", raw, 107)[0]
    return minor, off, L, n


def point_array(raw):
    """the file's full point array: n records of L bytes from the announced offset on"""
    _, off, L, n = layout_of(raw)
    return raw[off:off + n * L]


def vlr_positions(raw):
    """byte positions of the VLR headers"""
    pos = struct.unpack_from("<H", raw, 94)[0]
    out = []
    for _ in range(struct.unpack_from("<I", raw, 100)[0]):
        out.append(pos)
        pos += 54 + struct.unpack_from("<H", raw, pos + 20)[0]
    return out


def restride(raw, delta, rng):
    """the same file with every point record lengthened by `delta` bytes of undocumented extra data (delta > 0) or cut by
    -delta bytes (delta < 0); record length and, in a 1.4 file, the EVLR pointer are adjusted. Pure byte surgery."""
    minor, off, L, n = layout_of(raw)
    out = bytearray(raw[:off])
    for i in range(n):
        rec = raw[off + i * L: off + (i + 1) * L]
        out += (rec + bytes(rng.randrange(1, 256) for _ in range(delta))) if delta >= 0 else rec[:L + delta]
    out += raw[off + n * L:]
    struct.pack_into("<H", out, 105, L + delta)
    if minor >= 4:
        st = struct.unpack_from("<Q", out, 235)[0]
        if st:
            struct.pack_into("<Q", out, 235, st + n * delta)
    return bytes(out)


def disguise_eb_vlr(raw):
    """the ExtraBytes VLR gets another record id: the file then has extra bytes and NO ExtraBytes VLR"""
    out = bytearray(raw)
    for p in vlr_positions(raw):
        if bytes(out[p + 2:p + 18]).rstrip(b"\0") == b"LASF_Spec" and struct.unpack_from("<H", out, p + 18)[0] == 4:
            struct.pack_into("<H", out, p + 18, 7)
    return bytes(out)


def documented_extra(h):
    return h.point_format.num_extra_bytes


# ---------------------------------------------------------------------------------
# implementation runner
# ---------------------------------------------------------------------------------
class NoReadinto:
    """a seekable binary stream offering read / seek / tell only (no readinto)"""

    def __init__(self, raw):
        self._b = io.BytesIO(raw)

    def read(self, n=-1):
        return self._b.read(n)

    def seek(self, pos, whence=0):
        return self._b.seek(pos, whence)

    def tell(self):
        return self._b.tell()

    def seekable(self):
        return True

    def readable(self):
        return True

    def close(self):
        self._b.close()


class InjectedFault(OSError):
    pass


class Flaky:
    """a seekable binary stream (read / seek / tell) that, when armed, raises ONCE: kind "r" on the next read / readinto that would
    deliver point data (the stream stands inside [lo, hi)), kind "k" on the next absolute seek to a position inside [lo, hi);
    nothing is consumed and the position does not move when it raises"""

    def __init__(self, raw, lo, hi):
        self._b = io.BytesIO(raw)
        self._lo, self._hi = lo, hi
        self.armed = None
        self.fired = False

    def arm(self, kind):
        self.armed, self.fired = kind, False

    def disarm(self):
        self.armed = None

    def _fault(self, kind, pos):
        if self.armed == kind and self._lo <= pos < self._hi:
            self.armed, self.fired = None, True
            raise InjectedFault(f"injected transient fault ({'read' if kind == 'r' else 'seek'} at byte {pos})")

    def read(self, n=-1):
        self._fault("r", self._b.tell())
        return self._b.read(n)

    def seek(self, pos, whence=0):
        if whence == 0:
            self._fault("k", pos)
        return self._b.seek(pos, whence)

    def tell(self):
        return self._b.tell()

    def seekable(self):
        return True

    def readable(self):
        return True

    def close(self):
        self._b.close()


class FlakyReadinto(Flaky):
    def readinto(self, b):
        self._fault("r", self._b.tell())
        return self._b.readinto(b)


# ---------------------------------------------------------------------------------
# what a caller may do with the objects the reader handed out: (las, rec, rd) = a LasData returned by read() (or None), a record
# returned by read_points / next (or None), the reader (only read from: its header is copied). Exceptions are the caller's business.
# ---------------------------------------------------------------------------------
def _extra_names(las):
    return list(las.point_format.extra_dimension_names)


def _c_add_dim(las, rec, rd):
    import laspy
    las.add_extra_dim(laspy.ExtraBytesParams(f"c{len(_extra_names(las))}", "u4"))


def _c_add_dims(las, rec, rd):
    import laspy
    k = len(_extra_names(las))
    las.add_extra_dims([laspy.ExtraBytesParams(f"c{k}", "u1"), laspy.ExtraBytesParams(f"c{k + 1}", "3f8")])


def _c_remove_dims(las, rec, rd):
    las.remove_extra_dims(_extra_names(las))


def _c_remove_dim(las, rec, rd):
    las.remove_extra_dim(_extra_names(las)[0])


def _c_points_subset(las, rec, rd):
    las.points = las.points[::2]


def _c_points_new(las, rec, rd):
    import laspy
    las.points = laspy.ScaleAwarePointRecord.zeros(3, header=las.header)


def _c_count_zero(las, rec, rd):
    las.header.point_count = 0


def _c_count_big(las, rec, rd):
    las.header.point_count = 10 ** 6


def _c_offset(las, rec, rd):
    las.header.offset_to_point_data += 13


def _c_format_add_in_place(las, rec, rd):
    import laspy
    las.header.point_format.add_extra_dimension(laspy.ExtraBytesParams(f"p{len(_extra_names(las))}", "u2"))


def _c_format_remove_in_place(las, rec, rd):
    las.point_format.remove_extra_dimension(_extra_names(las)[0])


def _c_version_format(las, rec, rd):
    import laspy
    from laspy.header import Version
    las.header.set_version_and_point_format(Version(1, 4), laspy.PointFormat(7 if las.header.point_format.id < 6 else 6))


def _c_header_format(las, rec, rd):
    import laspy
    las.header.point_format = laspy.PointFormat(0 if las.header.point_format.id else 1)


def _c_vlrs(las, rec, rd):
    from laspy.vlrs.vlrlist import VLRList
    las.header.vlrs = VLRList()
    las.header.evlrs = None
    las.header.number_of_evlrs = 0
    las.header.start_of_first_evlr = 0


def _c_scaling(las, rec, rd):
    las.header.scales = [7.0, 7.0, 7.0]
    las.header.offsets = [1.0, 2.0, 3.0]


def _c_update_header(las, rec, rd):
    las.update_header()


def _c_header_dims(las, rec, rd):
    import laspy
    las.header.add_extra_dims([laspy.ExtraBytesParams(f"h{len(_extra_names(las))}", "i8")])


def _c_header_remove_dims(las, rec, rd):
    las.header.remove_extra_dims(_extra_names(las))


def _c_values(las, rec, rd):
    las.points.array[:] = 0


def _c_write(las, rec, rd):
    las.write(io.BytesIO())


def _c_header_extra_bytes(las, rec, rd):
    las.header.extra_header_bytes = b"caller" * 3
    las.header.extra_vlr_bytes = b"\0" * 11


def _c_change_scaling(las, rec, rd):
    las.change_scaling(scales=[0.5, 0.5, 0.5])


def _c_wrap_chunk(las, rec, rd):
    import laspy
    l2 = laspy.LasData(header=copy.deepcopy(rd.header), points=rec)
    l2.add_extra_dim(laspy.ExtraBytesParams("w", "u4"))
    l2.header.point_count = 0
    l2.update_header()


def _c_wrap_chunk_remove(las, rec, rd):
    import laspy
    l2 = laspy.LasData(header=copy.deepcopy(rd.header), points=rec)
    l2.remove_extra_dims(list(l2.point_format.extra_dimension_names))


def _c_convert(las, rec, rd):
    import laspy
    laspy.convert(las, point_format_id=7 if las.header.point_format.id < 6 else 3)


CALLER_OPS = [_c_add_dim, _c_add_dim, _c_add_dims, _c_remove_dims, _c_remove_dim, _c_points_subset, _c_points_new, _c_count_zero, _c_count_big,
              _c_offset, _c_format_add_in_place, _c_format_remove_in_place, _c_version_format, _c_header_format, _c_vlrs, _c_scaling,
              _c_update_header, _c_header_dims, _c_header_remove_dims, _c_values, _c_write, _c_header_extra_bytes, _c_change_scaling,
              _c_wrap_chunk, _c_wrap_chunk_remove, _c_convert]


def open_reader(raw, source, read_evlrs, tmp, flaky=None):
    import laspy
    if flaky is not None:
        # a history with faults: the same kinds of stream, wrapped (a path is opened by the caller)
        return laspy.LasReader(flaky, read_evlrs=read_evlrs) if source == "ctor" else laspy.open(flaky, read_evlrs=read_evlrs)
    if source == "ctor":
        return laspy.LasReader(io.BytesIO(raw), read_evlrs=read_evlrs)
    if source == "noreadinto":
        return laspy.open(NoReadinto(raw), read_evlrs=read_evlrs)
    if source == "file":
        fd, path = tempfile.mkstemp(suffix=".las", dir="/var/tmp")
        with os.fdopen(fd, "wb") as f:
            f.write(raw)
        tmp.append(path)
        return laspy.open(path, read_evlrs=read_evlrs)
    return laspy.open(io.BytesIO(raw), read_evlrs=read_evlrs)


def run_impl(raw, ops, source="bytesio", read_evlrs=True, npints=False):
    """returns (outputs, facts): outputs = ('s', bytes, number of records) | ('k', idx) | ('e', kind); facts = what the reader
    says about the file. The records returned by EVERY call are kept alive and looked at again after the whole history (a later
    read must not overwrite an earlier result)."""
    import numpy as np
    wrap = (lambda v: np.int64(v)) if npints else (lambda v: v)
    outs, iters, kept, tmp, handed = [], {}, [], [], []
    flaky = None
    if any(o[0] == "F" for o in ops):
        _, off, L, n = layout_of(raw)
        flaky = (Flaky if source == "noreadinto" else FlakyReadinto)(raw, off, off + n * L)
    logging.disable(logging.CRITICAL)
    try:
        with open_reader(raw, source, read_evlrs, tmp, flaky) as rd:
            facts = {"stride": int(rd.header.point_format.size), "offset": int(rd.header.offset_to_point_data), "count": int(rd.header.point_count)}
            for op in ops:
                if op[0] == "M":
                    las = handed[op[2] % len(handed)] if handed else None
                    rec = kept[op[2] % len(kept)][1] if kept else None
                    fn = CALLER_OPS[op[1] % len(CALLER_OPS)]
                    try:
                        if (las is not None) or (rec is not None and fn.__name__.startswith("_c_wrap")):
                            fn(las, rec, rd)
                    except Exception:  # noqa
                        pass
                    outs.append(("m",))
                    continue
                if op[0] == "F":
                    flaky.arm(op[1])
                    op = op[2]
                try:
                    if op[0] == "R":
                        r = rd.read_points(wrap(op[1]))
                        kept.append((len(outs), r))
                        outs.append(("s", bytes(r.memoryview()), len(r)))
                    elif op[0] == "N":
                        it = iters.get(op[1])
                        if it is None:
                            it = iters[op[1]] = rd.chunk_iterator(wrap(op[1]))
                        r = next(it)
                        kept.append((len(outs), r))
                        outs.append(("s", bytes(r.memoryview()), len(r)))
                    elif op[0] == "S":
                        outs.append(("k", int(rd.seek(wrap(op[1]), op[2]))))
                    else:
                        las = rd.read()
                        p = las.points
                        outs.append(("s", bytes(p.memoryview()), len(p)))
                        handed.insert(0, las)
                except InjectedFault:
                    outs.append(("e", "fault"))
                except Exception as ex:  # noqa
                    outs.append(("e", common.exc_kind(ex)))
                finally:
                    if flaky is not None:
                        flaky.disarm()
            for i, r in kept:
                now = bytes(r.memoryview())
                if now != outs[i][1]:
                    outs[i] = ("s", now + b"<changed-after-later-reads>", outs[i][2])
    finally:
        logging.disable(logging.NOTSET)
        for p in tmp:
            try:
                os.remove(p)
            except OSError:
                pass
    return outs, facts


def spec_py(n, ops):
    """the property's cursor model, stated directly (oracle for the search)"""
    c = 0
    outs = []
    for op in ops:
        if op[0] == "M":
            # nothing a caller does to what it was handed reaches the reader
            outs.append(("m",))
            continue
        if op[0] == "F":
            shows, op = fault_shows(op), op[2]
            if op[0] == "S":
                t = op[1] if op[2] == 0 else (c + op[1] if op[2] == 1 else n + op[1] if op[2] == 2 else -1)
                reaches = 0 <= t < n
            else:
                reaches = c < n
            if shows and reaches:
                # the source raised before consuming anything: the call failed, the cursor is where it was
                outs.append(("e", "fault"))
                continue
        if op[0] in ("R", "N", "A"):
            k = -1 if op[0] == "A" else op[1]
            m = (n - c) if k < 0 else min(k, n - c)
            m = max(m, 0)
            if op[0] == "N" and m == 0:
                outs.append(("e", "EStop"))
            else:
                outs.append(("s", c, c + m))
            c += m
        else:
            pos, wh = op[1], op[2]
            if wh not in (0, 1, 2):
                outs.append(("e", "EValue"))
                continue
            t = pos if wh == 0 else (c + pos if wh == 1 else n + pos)
            if 0 <= t < n:
                c = t
                outs.append(("k", t))
            else:
                outs.append(("e", "EIndex"))
    return outs


# ---------------------------------------------------------------------------------
# files
# ---------------------------------------------------------------------------------
def empty_laz_flagged(rng):
    """a 0-point LAS 1.4 file whose point-format byte carries the compressed bit and which holds a LasZip record and an EVLR:
    laspy uses its null reader for it (no LAZ backend is needed), so every read returns an empty record"""
    import laspy
    h = lasio.rand_header(rng, version="1.4", nvlrs=0)
    h.vlrs.append(laspy.VLR("laszip encoded", 22204, "http://laszip.org", bytes(34)))
    evl = laspy.vlrs.vlrlist.VLRList([lasio.rand_vlr(rng, 40)])
    raw = bytearray(lasio.write_las(h, laspy.PackedPointRecord.zeros(0, h.point_format), evl))
    raw[104] |= 0x80
    return bytes(raw), h


def base_file(rng, version, fmt, n, dims):
    """a file written by laspy: `dims` documented extra dimensions, n random records, EVLRs in some 1.4 files"""
    import laspy
    h = lasio.rand_header(rng, version=version, fmt=fmt)
    if dims:
        lasio.add_extra_dims(rng, h, dims)
    pts = lasio.rand_points(rng, h, n, pattern="random")
    evl = []
    if version == "1.4" and rng.random() < 0.6:
        evl = laspy.vlrs.vlrlist.VLRList([lasio.rand_vlr(rng) for _ in range(rng.choice([1, 2]))])
    return lasio.write_las(h, pts, evl), h, len(evl)


def make_files(ctx):
    """list of (raw, label, histories per file weight). Every label names how the record length relates to the format."""
    files = []
    rng = ctx.rng
    for _ in range(2):
        raw, h = empty_laz_flagged(rng)
        files.append((raw, "1.4/empty-file-flagged-compressed/evlrs1", 1.0))
    pairs = [(v, f) for v in lasio.VERSIONS for f in lasio.COMPAT[v]]
    # written by laspy, no extra bytes
    for version, fmt in pairs:
        if not ctx.thorough() and rng.random() < 0.6:
            continue
        for n in ([0, 1, 23] if not ctx.thorough() else [0, 1, 2, 23, 64]):
            raw, h, ne = base_file(rng, version, fmt, n, 0)
            files.append((raw, f"{version}/fmt{fmt}/n{n}/evlrs{ne}/standard-size", 1.0))
    # point data larger than 64 KiB (the block sizes of buffered / read-ahead / chunked sources), a record length that divides 65536 or not
    for version, fmt, n in [("1.2", 0, 3300), ("1.4", 6, 2200)] + ([("1.2", 1, 70000), ("1.4", 7, 40000)] if ctx.thorough() else []):
        raw, h, ne = base_file(rng, version, fmt, n, 0)
        files.append((raw, f"{version}/fmt{fmt}/n{n}/evlrs{ne}/standard-size", 0.25))
    # record length larger than the format's standard size, in every version / format:
    #   exact   the ExtraBytes VLR documents exactly all extra bytes (what laspy writes)
    #   fewer   the VLR documents a dimension, the records carry more bytes after it
    #   novlr   extra bytes and no ExtraBytes VLR at all
    #   hidden  documented dimensions whose VLR is not recognisable (another record id), plus undocumented bytes
    #   ignored an ExtraBytes VLR although the records have the standard size
    kinds = ["exact", "fewer", "fewer", "novlr", "hidden", "ignored"]
    for version, fmt in pairs:
        for kind in (kinds if ctx.thorough() else [rng.choice(kinds), "fewer", rng.choice(["novlr", "hidden", "ignored", "exact"])]):
            n = rng.choice([1, 2, 7, 23]) if rng.random() < 0.85 else 0
            dims = 0 if kind == "novlr" else rng.choice([1, 1, 2, 3])
            raw, h, ne = base_file(rng, version, fmt, n, dims)
            doc = documented_extra(h)
            if kind in ("fewer", "novlr"):
                raw = restride(raw, rng.choice([1, 1, 2, 3, 8, 40]), rng)
            elif kind == "hidden":
                raw = restride(disguise_eb_vlr(raw), rng.choice([0, 1, 5]), rng)
            elif kind == "ignored":
                raw = restride(raw, -doc, rng)
            L = layout_of(raw)[2]
            files.append((raw, f"{version}/fmt{fmt}/n{n}/evlrs{ne}/extra-bytes-{kind}/record{L}=std{h.point_format.size - doc}+documented{0 if kind in ('hidden', 'ignored') else doc}", 0.5))
    # bytes after the last record that are not EVLRs (the header's count, not the size of the file, bounds the cursor)
    for version, fmt in ([rng.choice(pairs) for _ in range(4)] if not ctx.thorough() else pairs):
        n = rng.choice([0, 1, 5])
        raw, h, ne = base_file(rng, version, fmt, n, rng.choice([0, 0, 1]))
        if ne == 0:
            L = layout_of(raw)[2]
            raw = raw + bytes(rng.randrange(256) for _ in range(rng.choice([1, L - 1, L, 3 * L + 2])))
            files.append((raw, f"{version}/fmt{fmt}/n{n}/trailing-bytes", 0.5))
        else:
            g = lasio.with_gap(raw, rng.choice([1, 7, 64]))
            if g is not None:
                files.append((g, f"{version}/fmt{fmt}/n{n}/evlrs{ne}/gap-before-evlrs", 0.5))
    return files


def histories(ctx):
    files = make_files(ctx)
    per = ctx.n(40, 300)
    cases = []
    for raw, label, weight in files:
        n = layout_of(raw)[3]
        for k in range(max(3, int(per * weight))):
            mode = {"source": ctx.rng.choice(SOURCES),
                    # EVLRs loaded at opening or deferred to read(): the cursor behaves the same
                    "read_evlrs": bool(k % 3),
                    # numpy integers as counts / positions
                    "npints": ctx.rng.random() < 0.15}
            cases.append((raw, label, mode, gen_history(ctx.rng, n)))
    return cases


def mode_tok(mode):
    return f"{mode['source']}|{'evlrs-at-open' if mode['read_evlrs'] else 'evlrs-deferred'}{'|numpy-ints' if mode['npints'] else ''}"


# ---------------------------------------------------------------------------------
# comparison
# ---------------------------------------------------------------------------------
def compare(expected, got, raw):
    """expected: list of ('s', a, b) | ('k', i) | ('e', kind) in RECORDS of the file's own point array; got: impl outputs.
    Returns index of first mismatch or None"""
    _, off, L, n = layout_of(raw)
    for i, (e, g) in enumerate(zip(expected, got)):
        if e[0] == "s":
            if g[0] != "s" or g[1] != raw[off + e[1] * L:off + e[2] * L] or g[2] != e[2] - e[1]:
                return i
        elif e[0] == "k":
            if g != ("k", e[1]):
                return i
        elif e[0] == "m":
            if g != ("m",):
                return i
        else:
            if g != ("e", e[1]):
                return i
    return None


def parse_model(line):
    outs = []
    for t in line.split():
        if t[0] == "b":
            a, b = t[1:].split(":")
            outs.append(("b", int(a), int(b)))
        elif t[0] == "k":
            outs.append(("k", int(t[1:])))
        elif t == "-":
            outs.append(("m",))
        else:
            outs.append(("e", "fault" if t[1:] == "EOther" else t[1:]))
    return outs


def compare_bytes(model, got, raw):
    for i, (m, g) in enumerate(zip(model, got)):
        if m[0] == "b":
            if g[0] != "s" or g[1] != raw[m[1]:m[2]]:
                return i
        elif m[0] == "k":
            if g != ("k", m[1]):
                return i
        elif m[0] == "m":
            if g != ("m",):
                return i
        else:
            if g != ("e", m[1]):
                return i
    return None


def got_short(g, L):
    return (g[0], f"{g[2]} records, {len(g[1])} bytes ({len(g[1]) / L if L else 0:g} file records)") if g[0] == "s" else g


_CASES = None


def correspond(ctx):
    global _CASES
    ctx.extra["rule"] = ("random histories (1..24 ops) over {read_points(n), seek(pos, whence), next(chunk_iterator(k)) on iterators kept "
                         "alive across ops, read(), any of these while the source raises once on its first read/readinto/seek of point data "
                         "(caught, history goes on), caller operations on the LasData / header / point format / record handed out by earlier calls "
                         "(add/remove extra dims, points replaced, header edits, write, convert)} with n/pos drawn around 0, +-1, count, count+-1, huge, as Python or numpy integers; files of every "
                         "(version, format) x counts {0,1,23,..} with/without trailing EVLRs, written by laspy or not: record length = standard size, "
                         "+ extra bytes documented exactly / partly / not at all by an ExtraBytes VLR, a VLR although the records carry none, bytes "
                         "after the last record, a gap before the EVLRs; opened through laspy.open(BytesIO | stream without readinto | path) and "
                         "LasReader(). The expected records are slices of the point array cut from the raw bytes with the header's own offset / "
                         "record length / count. non-trivial = the history has a seek, a fault or a caller operation; distinct by (file label, mode, history)")
    _CASES = histories(ctx)
    # what the header model says about each file: count, record length (= the stride a faithful reader uses), offset
    files = {}
    for raw, label, _, _ in _CASES:
        files.setdefault(id(raw), (raw, label))
    hdr = common.run_model([f"dec_header {common.hexb(raw[:layout_of(raw)[1]])} F" for raw, _ in files.values()])
    dis = []
    view = {}
    for (key, (raw, label)), line in zip(files.items(), hdr):
        t = line.split(" ")
        minor, off, L, n = layout_of(raw)
        if t[0] != "ok":
            dis.append({"kind": "header of a generated file", "input": {"file": label}, "model": line[:80], "impl": "generated as readable"})
            continue
        mn = lasio.parse_assoc(t[1]).get("point_count", 0)
        view[key] = (int(t[7]), int(t[6]), mn)
        if (int(t[7]), int(t[6]), mn) != (off, L, n):
            dis.append({"kind": "header of a generated file", "input": {"file": label}, "model": [int(t[7]), int(t[6]), mn], "impl": [off, L, n]})
    cmds = []
    for raw, label, mode, ops in _CASES:
        off, L, n = view.get(id(raw), layout_of(raw)[1:])
        cmds.append(f"bfrun {off} {L} {n} " + " ".join(model_tok(o) for o in ops))
    outs = common.run_model(cmds, name=DRIVER)
    for (raw, label, mode, ops), line in zip(_CASES, outs):
        model = parse_model(line)
        off, L, n = view.get(id(raw), layout_of(raw)[1:])
        try:
            impl, facts = run_impl(raw, ops, **mode)
        except Exception as ex:
            dis.append({"kind": "file cannot be opened", "input": {"file": label, "mode": mode_tok(mode)}, "model": "ok", "impl": repr(ex)[:200]})
            continue
        ctx.traces += 1
        nontriv = any(o[0] in "SFM" for o in ops)
        ctx.case((label, mode_tok(mode), tuple(ops)), nontrivial=nontriv, sample={"file": label, "mode": mode_tok(mode), "ops": [op_tok(o) for o in ops], "model": line})
        for o in ops:
            ctx.count("op:" + (("fault-during-" + o[2][0] + ("" if fault_shows(o) else "(kind the op never meets)")) if o[0] == "F" else
                               ("caller:" + CALLER_OPS[o[1] % len(CALLER_OPS)].__name__[3:]) if o[0] == "M" else o[0]))
        ctx.count("source:" + mode["source"])
        ctx.count("file:" + (label.split("/extra-bytes-")[1].split("/")[0] if "extra-bytes-" in label else label.split("/")[-1].split("-")[0] + "…"))
        for m in model:
            ctx.count("out:" + (m[1] if m[0] == "e" else m[0]))
        if any(o[0] == "M" for o in ops) and any(o[0] == "A" for o in ops):
            ctx.count("history:caller-operation-after-read()")
        if (facts["stride"], facts["offset"], facts["count"]) != (L, off, n):
            dis.append({"kind": "reader stride / offset / count", "input": {"file": label, "mode": mode_tok(mode)},
                        "model": {"stride": L, "offset": off, "count": n}, "impl": facts})
        bad = compare_bytes(model, impl, raw)
        if bad is not None:
            dis.append({"kind": f"history op {op_letter(ops[bad])}", "input": {"file": label, "mode": mode_tok(mode), "ops": [op_tok(o) for o in ops], "at": bad},
                        "model": model[bad], "impl": got_short(impl[bad], L)})
    return dis


def fails(raw, ops, mode):
    """index of the first operation that violates the oracle, or None; -1: the file cannot be opened"""
    try:
        got, _ = run_impl(raw, ops, **mode)
    except Exception:
        return -1, None
    return compare(spec_py(layout_of(raw)[3], ops), got, raw), got


def shrink(raw, ops, mode):
    """drop operations while the oracle still fails"""
    cur = list(ops)
    changed = True
    while changed:
        changed = False
        for i in range(len(cur)):
            cand = cur[:i] + cur[i + 1:]
            if cand and fails(raw, cand, mode)[0] is not None:
                cur = cand
                changed = True
                break
    return cur


def legend(op):
    if op[0] == "F":
        return (f"{op_tok(op[2])} during which the source raises once on its next {'read/readinto of point data' if op[1] == 'r' else 'seek into the point data'}, "
                "before consuming anything; the exception is caught and the history goes on")
    return f"caller operation `{CALLER_OPS[op[1] % len(CALLER_OPS)].__name__[3:]}` on the {op[2]}-th most recent LasData returned by read() (chunk for wrap_chunk*)"


def file_class(label):
    return label.split("/extra-bytes-")[1].split("/")[0] if "extra-bytes-" in label else label.split("/")[-1]


def search(ctx, seeds):
    cases = _CASES if _CASES is not None else histories(ctx)
    failing = []
    seen = set()
    for raw, label, mode, ops in cases:
        _, off, L, n = layout_of(raw)
        bad, got = fails(raw, ops, mode)
        if bad is None:
            continue
        if bad == -1:
            kind = f"file cannot be opened: {file_class(label)}"
            if kind not in seen:
                seen.add(kind)
                try:
                    run_impl(raw, [], **mode)
                    why = "?"
                except Exception as ex:
                    why = repr(ex)
                failing.append({"kind": kind, "input": {"file": label, "mode": mode, "points": n, "record_length": L, "file_hex": raw.hex()}, "observed": why})
            continue
        small = shrink(raw, ops, mode)
        b2, got2 = fails(raw, small, mode)
        kind = f"cursor: {' '.join(op_letter(o) for o in small)}" + (f" [{file_class(label)}]" if "standard-size" not in label else "")
        if kind in seen:
            continue
        seen.add(kind)
        exp = spec_py(n, small)[b2]
        failing.append({"kind": kind, "input": {"file": label, "mode": mode, "points": n, "record_length": L, "offset_to_point_data": off,
                                                "ops": [op_tok(o) for o in small],
                                                "ops_legend": {op_tok(o): legend(o) for o in small if o[0] in "FM"}, "file_hex": raw.hex()},
                        "observed": f"op #{b2} {op_tok(small[b2])}: expected {exp}" +
                                    (f" = bytes [{off + exp[1] * L}, {off + exp[2] * L}) of the file" if exp[0] == "s" else "") + f", got {got_short(got2[b2], L)}"})
        if len(failing) >= 5:
            break
    return failing


def replay(ctx, data):
    inp = data.get("failing_input", {}).get("input")
    if not inp or "file_hex" not in inp:
        print("nothing to replay")
        return 0
    raw = bytes.fromhex(inp["file_hex"])
    ops = parse_ops(inp.get("ops", []))
    mode = inp.get("mode") or {"source": "bytesio", "read_evlrs": True, "npints": False}
    bad, _ = fails(raw, ops, mode)
    print("REPRODUCED at op", bad if bad is not None else "- not reproduced")
    return 1 if bad is not None else 0
