"""C02 — the on-disk layout is the ASPRS LAS layout; an independent decoder agrees.
Model: the reference codec of the specification (Spec/AsprsPoints.v + Spec/Asprs.v layouts through the generic codec of
Model/PointLayout.v), extracted to OCaml; the same codec over laspy's generated tables (gdec) rides along.
Correspondence, both directions, whole files:
  (i)  laspy writes a file whose header attributes, VLRs, EVLRs, extra-bytes parameters and every dimension (every sub-field,
       every extra-byte element) were assigned through its public API -> the extracted specification decoder, told nothing but the
       bytes, must return those values (header at the specification's offsets, VLR chain, 192-byte descriptors, records cut out at
       offset_to_point_data);
  (ii) the extracted specification encoder builds header, VLRs, descriptors and records -> laspy.read must present those values,
       must hold the file's records byte for byte, and the file laspy writes from what it read must decode to the same values;
  (iii) which records a file has (format, Extra Bytes VLR or none, record length of the header in every relation to the two):
       the model of LasHeader.read_from (translated block resolve_record) against laspy, errors included.
In (i) the file is written in every way laspy offers: LasData.write, LasWriter in chunks, laspy.convert from another
(version, format) then write, write + appender; to a BytesIO, a path, an open file; the extra dimensions are added through
LasHeader / LasData .add_extra_dim(s), all first or each followed by the assignment of its values, their scales / offsets come
from caller-owned objects (fresh arrays, ONE buffer re-used for every dimension and overwritten after each call, views, float32 /
int64 arrays, lists, tuples, one ExtraBytesParams object re-bound), the arrays the values came from are overwritten after the
assignment, the caller's header is modified after it was handed to a writer. The header gets its extra dimensions through every
entry point: LasHeader / LasData .add_extra_dim(s), a finished PointFormat object of the caller (PointFormat.add_extra_dimension)
handed to LasHeader(point_format=..) / header.point_format = .. / header.set_version_and_point_format(..) on a header of another
(version, format); onto a header without extra dimensions or one that had one of its own (replaced with the format, or removed
through header / LasData .remove_extra_dim(s) after the others were added): record length and descriptors must be one story.
In (ii) records may carry undocumented bytes beyond what the VLR describes, the file may have bytes of another producer after
its last point record and between the points and the EVLRs.
  (iv) sessions: a file built by the specification encoder (bytes after the last point: padding, internal waveform data packets;
       unused bytes before the EVLRs; EVLRs; extra header / VLR-area bytes; undocumented bytes per record) goes through a route
       of laspy that writes records into or next to existing ones — LasAppender (laspy.open(mode="a") / the class; BytesIO, path,
       file object; several append_points calls, empty ones; ScaleAware / Packed records), laspy.mmap edits (indexed, sliced,
       whole columns), reader -> writer copy in chunks, read + edit + write — and the specification decoder must find, at
       offset_to_point_data + i * record_length, the file's records followed by the values assigned to the new ones, the header
       block / VLRs / EVLRs it had. The model of the in-place routes (Model/RecordPlace.v: append_session over append_start
       translated from LasAppender.__init__, edit_record) is run on the same files: same bytes in the record range.
       In read + edit + write and reader -> writer the caller may not pass on what the file had: its EVLRs are cleared / re-bound /
       deleted by slice / popped / not given to the writer / only the first is kept, only the first m points are kept: the new
       file must announce what IT has (EVLR count and offset, point count). The model of a header between two files
       (Model/RecordPlace.v writer_evlr_fields over partial_reset_evlrs / write_evlrs_fields translated from LasHeader.partial_reset /
       LasWriter.__init__ / LasWriter.write_evlrs) gives the EVLR fields of the written header: compared with the file's.
  (v)  records and headers from DIFFERENT sources: a header (built through the API, read from a file) and a record whose own point
       format declares a variant of the header's extra dimensions — the same list, the same set in another order, two names
       exchanged, a type of equal size, other scales / offsets, another name / description, one dimension split in two, another
       point format padded to the same record length, or the record was made from the header before the header grew — meet in
       laspy.open(mode="w") / LasWriter.write_points, LasData(header, points=..), las.points = .., laspy.open(mode="a") /
       LasAppender.append_points (record from zeros / a LasData / a file read whole or in chunks). laspy may refuse; what it takes
       must be found by the specification decoder, under the descriptors of the FILE, with the values assigned through the
       record's named dimensions (by name). The model of the hand-over (Model/RecordPlace.v handover_accepts over point_format_eq /
       dim_info_eq translated from PointFormat.__eq__ / DimensionInfo.__eq__, ebs_of_dims) says taken / refused and which
       descriptors the header declares: compared with laspy.
  (vi) every assignment route into the elements of an extra dimension with 1, 2 or 3 elements, scaled and not: the whole
       dimension (las[name] = .., las.name = .., las.points[name] = .., [:] , [...]), [:, k], [..., k], [mask, k], [index list /
       array, k], [i, k] (python / numpy / negative i), [slice, k], [slice, slice], [mask, slice], whole points ([i], [i, :], [mask],
       [list], [slice]), through sub-views; the value an array, a list, one scalar; the view taken from LasData[name], LasData.name,
       LasData.points[name], a record, a memory-mapped file; written by LasData.write / a writer in two chunks. The expected
       content is kept by the same selection on a plain table; the specification decoder reads the file; the model of the
       assignments (assign_elems) is run on the same (point, element, value) triples.
  (vii) the caller's side of the HEADER: the attributes are assigned once as plain values | every flag of the global encoding through its
       named setter (bool / int / numpy bool / numpy integer), x/y/z scale and offset through their own attributes | the whole
       sequence twice | every assignment twice in a row | other values first | assigned, written, read back by laspy and confirmed
       (assigned again by name) before the file is produced | through the legacy attribute names | a GlobalEncoding object handed
       over and its flags restated; in the sessions (read + edit + write, reader -> writer) the caller confirms every named attribute
       of the header laspy presents with the value it presents: the decoder must find what the original file said.
  (viii) the VLR payloads the specification lays out, in their FULL form: the complete 256-record classification lookup table
       (blank descriptions for the classes not in use), partial tables with blank records, a single blank record, waveform packet
       descriptors, GeoKeyDirectory / GeoDoubleParams / GeoAsciiParams, both WKT records, text area / superseded; as VLR and as
       EVLR, alone, two of a kind adjacent, between ordinary records; strings with blanks at either end. (i): built through the
       class laspy offers for the record (attribute by attribute) or handed over raw -> the decoder reads the payload and its
       fields; (ii): the reference's reading of the payload (Spec/AsprsPoints.v spec_lookup_record, spec_waveform_descriptor,
       spec_geokeys_header, spec_geokey_entry through spec_dec_known) against the contents laspy presents through its classes
       (lookups, parsed_record, geo_keys, doubles, strings, string), the payload laspy holds, and the payload in the re-written file.
       The model of the lookup table (lookup_parse: dict semantics of ClassificationLookupVlr.parse_record_data) against laspy's
       class on the tables of the cases and on malformed ones.
Search: the same checks with a second, pure-Python transcription of the tables (struct / int.from_bytes) instead of the
model, so that a failing input is found without the model."""
import atexit
import io
import os
import shutil
import uuid as uuidmod
from datetime import date, timedelta

import numpy as np

from harness import common, lasio

DRIVER = "c02"
ASSUMPTIONS = [
    "Spec/Asprs.v and Spec/AsprsPoints.v transcribe the ASPRS LAS 1.4 R15 tables correctly (review item; a second, independent "
    "transcription in harness/props/c02.py is checked against it on every run)",
    "uncompressed files, versions 1.1-1.4, ASCII strings; the legacy 32-bit counts of a 1.4 header are ignored by laspy when reading "
    "(the 64-bit counts are authoritative); in a file laspy writes they must obey the specification's rule (zero, or the count for "
    "point formats 0-5 when it fits 32 bits)",
    "a header whose scale factors / offsets are NaN or infinite is presented bit for bit, but laspy is not asked to write it back",
    "conversions (laspy.convert) are used as one more way to produce a file: only dimensions the source format has with the same type are "
    "assigned before the conversion (value-changing conversions are C12's)",
    "no_data / min / max of an extra-bytes descriptor are not reachable through ExtraBytesParams: only checked not to disturb",
    "scaled extra dimensions are assigned through the scaled view with binary scales, so that the stored integer is exact (rounding is C11/C12)",
    "append sessions on a file with bytes of another producer behind its points: the appended records overwrite those bytes (laspy has "
    "no other place for them); what is left of them behind the new end of the records, and the fate of internal waveform data packets "
    "(overwritten, 'Start of Waveform Data Packet Record' not updated), is not judged here: only header, VLRs, EVLRs and point records are",
    "records handed to a header of another source (v): header and record carry the same x/y/z scales and offsets (re-scaling on the "
    "hand-over is C11's); a refusal is any exception raised by the call that pairs the two; values are compared as numbers after the "
    "descriptor's scale and offset (NaNs by bit pattern)",
    "assignments into elements (vi): in-range values that every value form carries exactly (floats: small dyadic numbers; scaled "
    "dimensions: binary scales, stored integers below 2**40); one scalar for elements with different scales is given element by "
    "element; las[name] = scalar / las.name = scalar (whole dimension by name) is not offered by laspy for any dimension and not used; "
    "an assignment laspy refuses is reported and must have stored nothing",
    "VLR payloads the specification lays out are generated in the specification's form: lookup tables with distinct class numbers and "
    "NUL-padded ASCII descriptions, GeoKeyDirectory headers whose number of keys is the number of entries, NUL-terminated ASCII WKT / "
    "GeoAsciiParams; the description of a record built through laspy's own class is laspy's (not compared); record ids / user ids as "
    "identity are C08's",
    "header.scales / header.offsets / VLR.record_data are plain attributes: the caller's object is kept by reference (Python attribute "
    "semantics), so the caller is not made to modify those after the assignment; ExtraBytesParams copies its scales / offsets "
    "(np.array) and the caller is made to re-use them",
]

# ---------------------------------------------------------------------------------------------------
# second transcription of the specification (pure Python), used by the failing-input search
# ---------------------------------------------------------------------------------------------------
_XYZI = [("X", "i4"), ("Y", "i4"), ("Z", "i4"), ("intensity", "u2")]
_BITS0 = ("bit_fields", [("return_number", 0, 2), ("number_of_returns", 3, 5), ("scan_direction_flag", 6, 6), ("edge_of_flight_line", 7, 7)])
_CLS0 = ("raw_classification", [("classification", 0, 4), ("synthetic", 5, 5), ("key_point", 6, 6), ("withheld", 7, 7)])
_CORE0 = _XYZI + [_BITS0, _CLS0, ("scan_angle_rank", "i1"), ("user_data", "u1"), ("point_source_id", "u2")]
_GPS = [("gps_time", "f8")]
_RGB = [("red", "u2"), ("green", "u2"), ("blue", "u2")]
_NIR = [("nir", "u2")]
_WAVE = [("wavepacket_index", "u1"), ("wavepacket_offset", "u8"), ("wavepacket_size", "u4"), ("return_point_wave_location", "f4"),
         ("x_t", "f4"), ("y_t", "f4"), ("z_t", "f4")]
_BITS6 = ("bit_fields", [("return_number", 0, 3), ("number_of_returns", 4, 7)])
_FLAGS6 = ("classification_flags", [("synthetic", 0, 0), ("key_point", 1, 1), ("withheld", 2, 2), ("overlap", 3, 3),
                                    ("scanner_channel", 4, 5), ("scan_direction_flag", 6, 6), ("edge_of_flight_line", 7, 7)])
_CORE6 = _XYZI + [_BITS6, _FLAGS6, ("classification", "u1"), ("user_data", "u1"), ("scan_angle", "i2"), ("point_source_id", "u2"), ("gps_time", "f8")]
PY_FORMATS = {0: _CORE0, 1: _CORE0 + _GPS, 2: _CORE0 + _RGB, 3: _CORE0 + _GPS + _RGB, 4: _CORE0 + _GPS + _WAVE,
              5: _CORE0 + _GPS + _RGB + _WAVE, 6: _CORE6, 7: _CORE6 + _RGB, 8: _CORE6 + _RGB + _NIR, 9: _CORE6 + _WAVE,
              10: _CORE6 + _RGB + _NIR + _WAVE}
PY_SIZES = [20, 28, 26, 34, 57, 63, 30, 36, 38, 59, 67]
EB_BASE = ["u1", "i1", "u2", "i2", "u4", "i4", "u8", "i8", "f4", "f8"]
HS = {1: 227, 2: 227, 3: 235, 4: 375}
EB_USER_ID, EB_RECORD_ID = b"LASF_Spec", 4
TRAIL = -1          # pseudo data_type of the last entry of an extra-bytes list: (TRAIL, k) = k bytes per record that no descriptor describes
TRAIL_NAME = "ExtraBytes"


def eb_elem(dt, opt):
    """(element kind, count) of one extra-bytes descriptor; None if the type is unknown"""
    if dt == 0:
        return ("u1", opt) if 0 <= opt < 256 else None
    if dt == TRAIL:
        return ("u1", opt) if 0 <= opt else None      # not a descriptor: undocumented bytes that trail every record
    if 1 <= dt <= 30:
        return (EB_BASE[(dt - 1) % 10], (dt - 1) // 10 + 1)
    return None


def eb_tok(ebs):
    return ";".join(f"e{i}:{dt}:{opt}" for i, (dt, opt) in enumerate(ebs)) or "-"


def py_items(fmt, ebs):
    """ordered (name, kind | bit list) items of a record; ebs = [(data_type, options)]"""
    if fmt not in PY_FORMATS:
        return None
    items = list(PY_FORMATS[fmt])
    for i, (dt, opt) in enumerate(ebs):
        e = eb_elem(dt, opt)
        if e is None or (dt == TRAIL and i != len(ebs) - 1):
            return None
        items += [(TRAIL_NAME if dt == TRAIL else f"e{i}", e[0])] * e[1]
    return items


def py_leaves(fmt, ebs):
    """[(leaf name, kind)]: kind 'u2' ... or ('b', number of bits)"""
    out = []
    for name, k in py_items(fmt, ebs):
        if isinstance(k, list):
            out += [(n, ("b", hi - lo + 1)) for n, lo, hi in k]
        else:
            out.append((name, k))
    return out


def py_size(fmt, ebs):
    return sum(1 if isinstance(k, list) else int(k[1:]) for _, k in py_items(fmt, ebs))


def py_dec_record(fmt, ebs, rec):
    vals, off = [], 0
    for _, k in py_items(fmt, ebs):
        if isinstance(k, list):
            b = rec[off]
            vals += [(b >> lo) & ((1 << (hi - lo + 1)) - 1) for _, lo, hi in k]
            off += 1
        else:
            w = int(k[1:])
            vals.append(int.from_bytes(rec[off:off + w], "little", signed=(k[0] == "i")))
            off += w
    return vals


def py_enc_record(fmt, ebs, vals):
    out, i = bytearray(), 0
    for _, k in py_items(fmt, ebs):
        if isinstance(k, list):
            b = 0
            for _, lo, hi in k:
                v = vals[i]
                i += 1
                if not 0 <= v < (1 << (hi - lo + 1)):
                    raise OverflowError
                b |= v << lo
            out.append(b)
        else:
            w = int(k[1:])
            out += int(vals[i]).to_bytes(w, "little", signed=(k[0] == "i"))
            i += 1
    if i != len(vals):
        raise ValueError
    return bytes(out)


def _by_ret(i):
    return f"number_of_points_by_return[{i}]"


def py_hdr_layout(minor):
    lay = [("signature", "raw", 4), ("file_source_id", "u", 2), ("global_encoding", "u", 2), ("uuid", "raw", 16),
           ("version.major", "u", 1), ("version.minor", "u", 1), ("system_identifier", "str", 32), ("generating_software", "str", 32),
           ("creation_yday", "u", 2), ("creation_year", "u", 2), ("header_size", "u", 2), ("offset_to_point_data", "u", 4),
           ("number_of_vlrs", "u", 4), ("point_format_id", "u", 1), ("point_size", "u", 2), ("point_count", "u", 4)]
    lay += [(_by_ret(i), "u", 4) for i in range(5)]
    lay += [(f"{a}[{i}]", "u", 8) for a in ("scales", "offsets") for i in range(3)]
    for i in range(3):
        lay += [(f"maxs[{i}]", "u", 8), (f"mins[{i}]", "u", 8)]
    if minor >= 3:
        lay.append(("start_of_waveform", "u", 8))
    if minor >= 4:
        lay += [("start_of_first_evlr", "u", 8), ("number_of_evlrs", "u", 4), ("point_count", "u", 8)]
        lay += [(_by_ret(i), "u", 8) for i in range(15)]
    return lay


def py_vlr_layout(ext):
    return [("reserved", "raw", 2), ("user_id", "str", 16), ("record_id", "u", 2), ("record_length", "u", 8 if ext else 2), ("description", "str", 32)]


PY_EBD = ([("reserved", "raw", 2), ("data_type", "u", 1), ("options", "u", 1), ("name", "str", 32), ("unused", "raw", 4),
           ("no_data", "raw", 24), ("min", "raw", 24), ("max", "raw", 24)]
          + [(f"scale[{i}]", "u", 8) for i in range(3)] + [(f"offset[{i}]", "u", 8) for i in range(3)] + [("description", "str", 32)])


def py_dec_fields(lay, data):
    pairs, off = [], 0
    for name, k, w in lay:
        raw = bytes(data[off:off + w])
        off += w
        if k == "u":
            pairs.append((name, int.from_bytes(raw, "little")))
        elif k == "raw":
            pairs.append((name, raw))
        else:
            pairs.append((name, raw.split(b"\0", 1)[0]))
    return pairs, max(0, len(data) - off)


def py_enc_fields(lay, vals):
    if len(vals) != len(lay):
        return ("err", "EOther")
    out = bytearray()
    for (name, k, w), v in zip(lay, vals):
        if k == "u":
            if not isinstance(v, int) or not 0 <= v < 256 ** w:
                return ("err", "EOverflow" if isinstance(v, int) else "EOther")
            out += v.to_bytes(w, "little")
        elif k == "raw":
            if not isinstance(v, (bytes, bytearray)) or len(v) != w:
                return ("err", "EValue")
            out += v
        else:
            s = bytes(v).split(b"\0", 1)[0][:w]
            out += s + b"\0" * (w - len(s))
    return bytes(out)


# ---------------------------------------------------------------------------------------------------
# the two references behind one request interface
# ---------------------------------------------------------------------------------------------------
class PyRef:
    name = "python transcription"

    def batch(self, reqs):
        return [self.one(r) for r in reqs]

    def one(self, r):
        op = r[0]
        if op == "hdr_names":
            return [n for n, _, _ in py_hdr_layout(r[1])]
        if op == "vlr_names":
            return [n for n, _, _ in py_vlr_layout(r[1])]
        if op == "ebd_names":
            return [n for n, _, _ in PY_EBD]
        if op == "dec_hdr":
            return py_dec_fields(py_hdr_layout(r[1]), r[2])
        if op == "enc_hdr":
            return py_enc_fields(py_hdr_layout(r[1]), r[2])
        if op == "enc_vlr":
            return py_enc_fields(py_vlr_layout(r[1]), r[2])
        if op == "dec_ebd":
            return py_dec_fields(PY_EBD, r[1])
        if op == "dec_known":
            return py_dec_fields(PY_KNOWN[r[1]], r[2]) if len(r[2]) == PY_KNOWN_SIZE[r[1]] else ("err", "EShort")
        if op == "enc_ebd":
            return py_enc_fields(PY_EBD, r[1])
        if op == "legacy_ok":
            # LAS 1.4: a legacy count is the count (format < 6, fits 32 bits, legacy compatibility kept) or must be zero
            fmt, count, legacy = r[1], r[2], r[3]
            return legacy == 0 or (fmt < 6 and legacy == count and count < 2 ** 32)
        if op == "dec_vlrs":
            ext, n, data = r[1], r[2], r[3]
            hl, out, pos = (60 if ext else 54), [], 0
            for _ in range(n):
                if len(data) - pos < hl:
                    return ("err", "EShort")
                pairs, _ = py_dec_fields(py_vlr_layout(ext), data[pos:pos + hl])
                d = dict(pairs)
                pos += hl
                if len(data) - pos < d["record_length"]:
                    return ("err", "EShort")
                out.append((d, bytes(data[pos:pos + d["record_length"]])))
                pos += d["record_length"]
            return (out, pos)
        fmt, ebs = r[1], r[2]
        if py_items(fmt, ebs) is None:
            return ("err", "EValue")
        if op == "names":
            return [n for n, _ in py_leaves(fmt, ebs)]
        if op == "psize":
            return py_size(fmt, ebs)
        if op == "dec_at":
            off, ps, n, f = r[3], r[4], r[5], r[6]
            if ps != py_size(fmt, ebs) or off + n * ps > len(f):
                return ("err", "EShort")
            return [py_dec_record(fmt, ebs, f[off + i * ps:off + (i + 1) * ps]) for i in range(n)]
        if op in ("dec", "gdec"):
            sz, data = py_size(fmt, ebs), r[3]
            if len(data) % sz:
                return ("err", "EShort")
            return [py_dec_record(fmt, ebs, data[i:i + sz]) for i in range(0, len(data), sz)]
        if op == "enc":
            try:
                return b"".join(py_enc_record(fmt, ebs, v) for v in r[3])
            except OverflowError:
                return ("err", "EOverflow")
            except (ValueError, IndexError):
                return ("err", "EValue")
        raise KeyError(op)


def _vtok(v):
    return common.hexb(v) if isinstance(v, (bytes, bytearray)) else str(int(v))


def _pairs(tok):
    out = []
    if tok != "-":
        for e in tok.split("|"):
            k, v = e.split("=", 1)
            out.append((k, common.unhex(v) if v.startswith("x") else int(v)))
    return out


class ModelRef:
    name = "extracted specification codec"

    def batch(self, reqs):
        lines = []
        for r in reqs:
            op = r[0]
            if op in ("hdr_names",):
                lines.append(f"hdr_names {r[1]}")
            elif op == "vlr_names":
                lines.append(f"vlr_names {'T' if r[1] else 'F'}")
            elif op == "ebd_names":
                lines.append("ebd_names")
            elif op == "dec_hdr":
                lines.append(f"dec_hdr {r[1]} {common.hexb(r[2])}")
            elif op == "enc_hdr":
                lines.append(f"enc_hdr {r[1]} {'|'.join(_vtok(v) for v in r[2])}")
            elif op == "enc_vlr":
                lines.append(f"enc_vlr {'T' if r[1] else 'F'} {'|'.join(_vtok(v) for v in r[2])}")
            elif op == "dec_ebd":
                lines.append(f"dec_ebd {common.hexb(r[1])}")
            elif op == "dec_known":
                lines.append(f"dec_known {r[1]} {common.hexb(r[2])}")
            elif op == "enc_ebd":
                lines.append(f"enc_ebd {'|'.join(_vtok(v) for v in r[1])}")
            elif op == "legacy_ok":
                lines.append(f"legacy_ok {r[1]} {r[2]} {r[3]}")
            elif op == "dec_vlrs":
                lines.append(f"dec_vlrs {'T' if r[1] else 'F'} {r[2]} {common.hexb(r[3])}")
            elif op in ("names", "psize"):
                lines.append(f"{op} {r[1]} {eb_tok(r[2])}")
            elif op in ("dec", "gdec"):
                lines.append(f"{op} {r[1]} {eb_tok(r[2])} {common.hexb(r[3])}")
            elif op == "dec_at":
                lines.append(f"dec_at {r[1]} {eb_tok(r[2])} {r[3]} {r[4]} {r[5]} {common.hexb(r[6])}")
            elif op == "genc":
                lines.append(f"genc {r[1]} {eb_tok(r[2])} " + (";".join(",".join(str(int(v)) for v in rec) for rec in r[3]) or "-"))
            elif op == "enc":
                lines.append(f"enc {r[1]} {eb_tok(r[2])} " + (";".join(",".join(str(int(v)) for v in rec) for rec in r[3]) or "-"))
            else:
                raise KeyError(op)
        outs = common.run_model(lines, name="c02")
        return [self.parse(r[0], o) for r, o in zip(reqs, outs)]

    @staticmethod
    def parse(op, o):
        if o.startswith("err "):
            return ("err", o[4:])
        if o.startswith("driver-error") or o.startswith("unknown-command"):
            return ("err", o)
        if op in ("hdr_names", "vlr_names", "ebd_names"):
            return o.split("|")
        if op == "legacy_ok":
            return o == "T"
        if op in ("dec_hdr", "dec_ebd", "dec_known"):
            tok, rest = o.rsplit(" ", 1)
            return (_pairs(tok), int(rest))
        if op in ("enc_hdr", "enc_vlr", "enc_ebd", "enc", "genc"):
            return common.unhex(o.split(" ", 1)[1])
        if op == "dec_vlrs":
            _, body, consumed = o.split(" ")
            out = []
            if body != "-":
                for e in body.split(";"):
                    a, p = e.split("#")
                    out.append((dict(_pairs(a)), common.unhex(p)))
            return (out, int(consumed))
        if op == "names":
            return o.split(" ", 1)[1].split(",")
        if op == "psize":
            return int(o.split(" ", 1)[1])
        if op in ("dec", "gdec", "dec_at"):
            body = o.split(" ", 1)[1]
            return [] if body == "-" else [[int(v) for v in rec.split(",")] for rec in body.split(";")]
        raise KeyError(op)


def is_err(x):
    return isinstance(x, tuple) and len(x) == 2 and x[0] == "err"


# ---------------------------------------------------------------------------------------------------
# cases (JSON-able): doubles are 64-bit patterns, byte strings are hex
# ---------------------------------------------------------------------------------------------------
F32_SPECIAL = [0, 0x80000000, 0x7F800000, 0xFF800000, 0x7FC00000, 0x7FA00001, 0xFFC12345, 1, 0x007FFFFF, 0x7F7FFFFF, 0x3F800000, 0xBF800000]
F64_SPECIAL = [0, 1 << 63, 0x7FF0000000000000, 0xFFF0000000000000, 0x7FF8000000000000, 0x7FF0000000000001, 0xFFF8000000012345,
               1, 0x000FFFFFFFFFFFFF, 0x7FEFFFFFFFFFFFFF, 0x3FF0000000000000, 0xBFF0000000000000]


def leaf_values(rng, kind, n, phase):
    """n values for one leaf: every value of a small field in turn, boundaries then random for the wide ones"""
    if isinstance(kind, tuple):
        m = 1 << kind[1]
        return [(i + phase) % m for i in range(n)]
    w = int(kind[1:])
    if kind[0] == "u":
        top = 256 ** w - 1
        if w == 1:
            return [(i * 37 + phase) % 256 if i >= 4 else [0, 255, 1, 128][i] for i in range(n)]
        b = [0, top, 1, top - 1, top // 2, top // 2 + 1, 0x0102030405060708 % (top + 1)]
    elif kind[0] == "i":
        lo, hi = -(256 ** w // 2), 256 ** w // 2 - 1
        if w == 1:
            return [((i * 37 + phase) % 256) - 128 if i >= 4 else [-128, 127, -1, 0][i] for i in range(n)]
        b = [lo, hi, -1, 0, 1, lo + 1, hi - 1, -(0x0102030405060708 % hi)]
    else:
        b = list(F32_SPECIAL if w == 4 else F64_SPECIAL)
        top = 256 ** w - 1
        lo = 0
    out = []
    for i in range(n):
        j = i + phase
        if j % (len(b) + 3) < len(b):
            out.append(b[j % (len(b) + 3)])
        elif kind[0] == "i":
            out.append(rng.randrange(lo, hi + 1))
        else:
            out.append(rng.getrandbits(8 * w))
    return out


def rand_name(rng, n):
    return lasio.rand_ascii(rng, n, [c for c in range(97, 123)] + [95])


EXACT_SCALES = [0.5, 0.25, 2.0, 1.0, 0.125]
EXACT_OFFSETS = [0.0, 10.0, -3.5, 1024.0]


def rand_extra_dims(rng, k, laspy_side):
    """extra-bytes descriptors. laspy_side: only what ExtraBytesParams can express (type 0 only for > 3 bytes, scale and offset together)"""
    out = []
    for i in range(k):
        r = rng.random()
        if r < 0.2:
            nb = rng.choice([4, 5, 8, 9, 16, 24, 31, 32, 255] if laspy_side else [1, 2, 3, 4, 8, 16, 24, 25, 255])
            dt, opt = 0, nb
        else:
            dt, opt = rng.randrange(1, 31), 0
        kind, cnt = eb_elem(dt, opt)
        d = {"data_type": dt, "nbytes": opt if dt == 0 else 0, "scaled": 0, "scales": [], "offsets": [],
             "name": f"e{i}" + rand_name(rng, rng.choice([0, 1, 7, 30 - len(str(i))])),
             "description": lasio.rand_ascii(rng, rng.choice([0, 1, 31, 32])), "flags": 0, "junk": ""}
        if dt != 0 and kind[0] != "f" and rng.random() < 0.45:
            d["scaled"] = 3 if laspy_side else rng.choice([1, 2, 3])
            d["scales"] = [lasio.f64bits(rng.choice(EXACT_SCALES)) for _ in range(cnt)]
            d["offsets"] = [lasio.f64bits(rng.choice(EXACT_OFFSETS)) for _ in range(cnt)]
        if not laspy_side and dt != 0 and rng.random() < 0.3:
            d["flags"] = rng.randrange(8)           # no_data / min / max bits, with arbitrary contents
            d["junk"] = bytes(rng.randrange(256) for _ in range(72)).hex()
        out.append(d)
    return out


def eb_pairs(extra_dims):
    return [(d["data_type"], d["nbytes"] if d["data_type"] == 0 else 0) for d in extra_dims]


def case_ebs(case):
    """the extra bytes of a case's records: the described ones, then the undocumented trailing bytes (spec-writes direction only)"""
    t = case.get("trailing", 0)
    return eb_pairs(case["extra_dims"]) + ([(TRAIL, t)] if t else [])


# ---------------------------------------------------------------------------------------------------
# VLR payloads the specification defines (second transcription, pure Python): record layouts in the vocabulary of py_dec_fields
# ---------------------------------------------------------------------------------------------------
PY_KNOWN = {
    # Classification Lookup (LASF_Spec, 0): records of  ClassNumber unsigned char; Description char[15]  (a complete table has 256)
    "lookup": [("class_number", "u", 1), ("description", "str", 15)],
    # Waveform Packet Descriptor (LASF_Spec, 100..354): 26 bytes
    "waveform": [("bits_per_sample", "u", 1), ("waveform_compression_type", "u", 1), ("number_of_samples", "u", 4),
                 ("temporal_sample_spacing", "u", 4), ("digitizer_gain", "u", 8), ("digitizer_offset", "u", 8)],
    # GeoKeyDirectoryTag (LASF_Projection, 34735): header of 4 unsigned shorts, then wNumberOfKeys entries of 4 unsigned shorts
    "geokeys_header": [("key_directory_version", "u", 2), ("key_revision", "u", 2), ("minor_revision", "u", 2), ("number_of_keys", "u", 2)],
    "geokey": [("id", "u", 2), ("tiff_tag_location", "u", 2), ("count", "u", 2), ("value_offset", "u", 2)],
}
PY_KNOWN_SIZE = {k: sum(w for _, _, w in v) for k, v in PY_KNOWN.items()}
KNOWN_KINDS = ["lookup-full", "lookup-partial", "lookup-blank", "waveform", "geokeys", "geodoubles", "geoascii", "wkt-cs", "wkt-math", "textarea"]
# laspy's own description of the records it builds through its API objects (not a matter of the specification: not compared)
WKT_SAMPLE = ('PROJCS["NAD83 / UTM zone 17N",GEOGCS["NAD83",DATUM["North_American_Datum_1983",SPHEROID["GRS 1980",6378137,298.257222101]],'
              'PRIMEM["Greenwich",0],UNIT["degree",0.0174532925199433]],PROJECTION["Transverse_Mercator"],PARAMETER["central_meridian",-81],'
              'UNIT["metre",1],AXIS["Easting",EAST],AXIS["Northing",NORTH]]')


def known_kind(uid, rid):
    """which payload layout of the specification a (user id, record id) pair announces"""
    if uid == "LASF_Spec":
        return "lookup" if rid == 0 else "waveform" if 100 <= rid <= 354 else None
    if uid == "LASF_Projection":
        return {34735: "geokeys", 34736: "geodoubles", 34737: "geoascii", 2111: "wkt", 2112: "wkt"}.get(rid)
    return None


def known_vlr(rng, kind, api=False):
    """one record [user id, record id, description, payload hex] whose payload is in the FULL form the specification lays out.
    api: the description is None (the record will be built through laspy's own class, which has its own description)"""
    desc = None if api and not kind == "waveform" else lasio.rand_ascii(rng, rng.choice([0, 1, 21, 32]))
    def text(k):
        # printable ASCII without the "|" separator; blanks inside, and now and then at either end (they are part of the value)
        t = lasio.rand_ascii(rng, k, [c for c in range(32, 127) if c != 124])
        if k and rng.random() < 0.6:
            t = rng.choice([" " + t[1:], t[:-1] + " ", t[:-1] + "\t" if k > 1 else t])
        return t
    if kind.startswith("lookup"):
        if kind == "lookup-full":
            # the complete table: one record per class 0..255, the classes not in use have a blank description
            named = set(rng.sample(range(256), rng.choice([0, 1, 5, 40, 256])))
            recs = [(c, text(rng.choice([1, 6, 14, 15])) if c in named else "") for c in range(256)]
        elif kind == "lookup-blank":
            recs = [(rng.randrange(256), "")]
        else:
            # some records of the table, in the producer's order, at least one of them with a blank description
            cl = rng.sample(range(256), rng.choice([2, 3, 4, 19]))
            recs = [(c, rng.choice(["", text(rng.choice([1, 7, 15]))])) for c in cl]
            j = rng.randrange(len(recs))
            recs[j] = (recs[j][0], "")
        payload = b"".join(bytes([c]) + d.encode().ljust(15, b"\0") for c, d in recs)
        return ["LASF_Spec", 0, desc, payload.hex()]
    if kind == "waveform":
        payload = (bytes([rng.choice([8, 16, 32]), rng.choice([0, 1])]) + rng.choice([0, 1, 88, 2 ** 32 - 1, rng.getrandbits(32)]).to_bytes(4, "little")
                   + rng.choice([0, 1, 1000, 2 ** 32 - 1, rng.getrandbits(32)]).to_bytes(4, "little")
                   + rng.choice(F64_SPECIAL + [rng.getrandbits(64)]).to_bytes(8, "little") + rng.choice(F64_SPECIAL + [rng.getrandbits(64)]).to_bytes(8, "little"))
        return ["LASF_Spec", rng.choice([100, 101, 354, rng.randrange(100, 355)]), desc, payload.hex()]
    if kind == "geokeys":
        n = rng.choice([0, 1, 4, 12, rng.randrange(40)])
        keys = sorted(rng.sample(range(1024, 5120), n))
        payload = b"".join(v.to_bytes(2, "little") for v in [1, 1, 0, n])
        for k in keys:
            loc = rng.choice([0, 0, 34736, 34737])
            payload += b"".join(v.to_bytes(2, "little") for v in [k, loc, 1 if loc == 0 else rng.choice([1, 7, 65535]), rng.choice([0, 1, 4326, 32617, 65535, rng.randrange(65536)])])
        return ["LASF_Projection", 34735, desc, payload.hex()]
    if kind == "geodoubles":
        n = rng.choice([0, 1, 3, 10])
        return ["LASF_Projection", 34736, desc, b"".join(rng.choice(F64_SPECIAL + [rng.getrandbits(64), lasio.f64bits(6378137.0)]).to_bytes(8, "little") for _ in range(n)).hex()]
    if kind == "geoascii":
        # ASCII values of the keys, each ended by "|", the whole ended by a NUL
        parts = [text(rng.choice([1, 9, 40])) for _ in range(rng.choice([1, 2, 5]))]
        return ["LASF_Projection", 34737, desc, ("".join(p + "|" for p in parts).encode() + b"\0").hex()]
    if kind in ("wkt-cs", "wkt-math"):
        w = rng.choice([WKT_SAMPLE, WKT_SAMPLE * 9, WKT_SAMPLE + " ", "\n" + WKT_SAMPLE + "\n", text(1), text(rng.choice([2, 300]))])
        return ["LASF_Projection", 2112 if kind == "wkt-cs" else 2111, desc, (w.encode() + b"\0").hex()]
    # records of the specification laspy has no class for: Text Area Description (LASF_Spec, 3), Superseded (LASF_Spec, 7)
    return ["LASF_Spec", rng.choice([3, 7]), desc if desc is not None else "", lasio.rand_ascii(rng, rng.choice([0, 1, 80, 1000])).encode().hex()]


def known_requests(vl):
    """the reference-decoder requests for the payloads of a VLR list -> (requests, plan); plan: per record None | (kind, number of requests)"""
    reqs, plan = [], []
    for u, r, _, p in vl:
        kind, data = known_kind(u, r), bytes.fromhex(p) if isinstance(p, str) else bytes(p)
        if kind == "lookup":
            k = len(data) // 16
            reqs += [("dec_known", "lookup", data[16 * i:16 * i + 16]) for i in range(k)]
            plan.append((kind, k, data))
        elif kind == "waveform" and len(data) == 26:
            reqs.append(("dec_known", "waveform", data))
            plan.append((kind, 1, data))
        elif kind == "geokeys" and len(data) >= 8:
            k = (len(data) - 8) // 8
            reqs += [("dec_known", "geokeys_header", data[:8])] + [("dec_known", "geokey", data[8 + 8 * i:16 + 8 * i]) for i in range(k)]
            plan.append((kind, 1 + k, data))
        else:
            plan.append((kind, 0, data) if kind in ("geodoubles", "geoascii", "wkt") else None)
    return reqs, plan


def known_views_many(ref, lists):
    """what the specification says the payloads of the known records of several VLR lists hold (one batch of reference requests):
    per list, per record: None (the specification defines no layout) or a view"""
    plans, reqs = [], []
    for vl in lists:
        r, pl = known_requests(vl)
        reqs += r
        plans.append(pl)
    outs, q, res = (ref.batch(reqs) if reqs else []), 0, []
    for plan in plans:
        views = []
        for pl in plan:
            if pl is None:
                views.append(None)
                continue
            kind, k, data = pl
            o = outs[q:q + k]
            q += k
            if any(is_err(x) for x in o):
                views.append({"kind": kind, "error": str([x for x in o if is_err(x)][0])})
            elif kind == "lookup":
                views.append({"kind": kind, "records": [[dict(x[0])["class_number"], dict(x[0])["description"].decode("latin1")] for x in o],
                              "undescribed_bytes": len(data) % 16})
            elif kind == "waveform":
                views.append({"kind": kind, "fields": [v for _, v in o[0][0]]})
            elif kind == "geokeys":
                views.append({"kind": kind, "header": [v for _, v in o[0][0]], "keys": [[v for _, v in x[0]] for x in o[1:]], "undescribed_bytes": (len(data) - 8) % 8})
            elif kind == "geodoubles":
                views.append({"kind": kind, "doubles": [int.from_bytes(data[i:i + 8], "little") for i in range(0, len(data) - 7, 8)], "undescribed_bytes": len(data) % 8})
            elif kind == "geoascii":
                views.append({"kind": kind, "text": data.decode("latin1")})
            else:
                views.append({"kind": kind, "string": data.rstrip(b"\0").decode("latin1"), "terminated": data.endswith(b"\0")})
        res.append(views)
    return res


def known_views(ref, vl):
    return known_views_many(ref, [vl])[0]


def known_laspy_view(v):
    """the same view from the attributes laspy presents for a record it read"""
    cls = type(v).__name__
    try:
        if cls == "ClassificationLookupVlr":
            return {"kind": "lookup", "records": [[int(c), v[c]] for c in v.lookups], "undescribed_bytes": 0}
        if cls == "WaveformPacketVlr":
            r = v.parsed_record
            return {"kind": "waveform", "fields": [int(r.bits_per_sample), int(r.waveform_compression_type), int(r.number_of_samples),
                                                   int(r.temporal_sample_spacing), lasio.f64bits(r.digitizer_gain), lasio.f64bits(r.digitizer_offset)]}
        if cls == "GeoKeyDirectoryVlr":
            h = v.geo_keys_header
            return {"kind": "geokeys", "header": [int(h.key_directory_version), int(h.key_revision), int(h.minor_revision), int(h.number_of_keys)],
                    "keys": [[int(k.id), int(k.tiff_tag_location), int(k.count), int(k.value_offset)] for k in v.geo_keys], "undescribed_bytes": 0}
        if cls == "GeoDoubleParamsVlr":
            return {"kind": "geodoubles", "doubles": [lasio.f64bits(d.value) for d in v.doubles], "undescribed_bytes": 0}
        if cls == "GeoAsciiParamsVlr":
            return {"kind": "geoascii", "text": "\0".join(v.strings)}
        if cls in ("WktCoordinateSystemVlr", "WktMathTransformVlr"):
            return {"kind": "wkt", "string": v.string, "terminated": True}
    except Exception as ex:
        return {"kind": cls, "error": f"{common.exc_kind(ex)}: {str(ex)[:120]}"}
    return {"kind": f"not parsed ({cls})"}


def known_obj(u, r, ds, p):
    """a record of the specification built through the class laspy offers for it, attribute by attribute (the values are the
    python transcription's reading of the payload); None when laspy has no class"""
    import ctypes
    from laspy.vlrs import known as K
    kind, data = known_kind(u, r), bytes.fromhex(p)
    if kind == "lookup":
        v = K.ClassificationLookupVlr()
        for i in range(len(data) // 16):
            v[data[16 * i]] = data[16 * i + 1:16 * i + 16].split(b"\0", 1)[0].decode()
        return v
    if kind == "waveform":
        f = [x for _, x in py_dec_fields(PY_KNOWN["waveform"], data)[0]]
        v = K.WaveformPacketVlr(r) if ds is None else K.WaveformPacketVlr(r, description=ds)
        v.parsed_record = K.WaveformPacketStruct(bits_per_sample=f[0], waveform_compression_type=f[1], number_of_samples=f[2], temporal_sample_spacing=f[3],
                                                 digitizer_gain=lasio.bits_f64(f[4]), digitizer_offset=lasio.bits_f64(f[5]))
        return v
    if kind == "geokeys":
        v = K.GeoKeyDirectoryVlr()
        keys = []
        for i in range((len(data) - 8) // 8):
            f = [x for _, x in py_dec_fields(PY_KNOWN["geokey"], data[8 + 8 * i:16 + 8 * i])[0]]
            e = K.GeoKeyEntryStruct()
            e.id, e.tiff_tag_location, e.count, e.value_offset = f
            keys.append(e)
        v.geo_keys_header.number_of_keys = len(keys)
        v.geo_keys = keys
        return v
    if kind == "geodoubles":
        v = K.GeoDoubleParamsVlr()
        v.doubles = [ctypes.c_double(lasio.bits_f64(int.from_bytes(data[i:i + 8], "little"))) for i in range(0, len(data), 8)]
        return v
    if kind == "geoascii":
        v = K.GeoAsciiParamsVlr()
        v.strings = data.decode("ascii").split("\0")
        return v
    if kind == "wkt":
        s = data.rstrip(b"\0").decode()
        if r == 2112:
            return K.WktCoordinateSystemVlr(s)
        v = K.WktMathTransformVlr()
        v.string = s
        return v
    return None


def known_descriptions(case, api):
    """a record built through laspy's own class carries that class's description (None here: not compared), except the waveform
    packet descriptor, whose class takes one"""
    for x in case["vlrs"] + case["evlrs"]:
        if api and known_kind(x[0], x[1]) in ("lookup", "geokeys", "geodoubles", "geoascii", "wkt"):
            x[2] = None
        elif x[2] is None:
            x[2] = ""


def rand_vlrs(rng, k, big=False, known=0.0, api=False):
    out = []
    for _ in range(k):
        if not big and rng.random() < known:
            # a record whose payload the specification lays out, in its full form
            out.append(known_vlr(rng, rng.choice(KNOWN_KINDS), api))
            continue
        uid = lasio.rand_ascii(rng, rng.choice([0, 1, 15, 16, rng.randrange(17)]))
        if uid in ("LASF_Spec", "LASF_Projection", "laszip encoded", "copc"):
            uid = "U" + uid[1:]
        if not big and rng.random() < 0.15:
            # a record laspy knows by its identity: Waveform Packet Descriptor (LASF_Spec, 100..354; 26 bytes): same identity, same bytes
            out.append(["LASF_Spec", rng.choice([100, 101, 354, rng.randrange(100, 355)]), lasio.rand_ascii(rng, rng.choice([0, 9, 32])),
                        (bytes([rng.choice([8, 16]), rng.choice([0, 1])]) + bytes(rng.randrange(256) for _ in range(8))
                         + rng.choice(F64_SPECIAL + [rng.getrandbits(64)]).to_bytes(8, "little") + rng.getrandbits(64).to_bytes(8, "little")).hex()])
            continue
        n = rng.choice([0, 1, 2, 300, rng.randrange(64)]) if not big else rng.choice([0, 1, 65535, 65536, 70000])
        out.append([uid, rng.choice([0, 1, 4, 65535, rng.randrange(65536)]), lasio.rand_ascii(rng, rng.choice([0, 1, 31, 32, rng.randrange(33)])),
                    bytes(rng.randrange(256) for _ in range(n)).hex()])
    return out


def gen_points(rng, fmt, extra, trailing, n, exact_scaled):
    """n points (values in leaf order) for records of format fmt + the extra dimensions + trailing undocumented bytes.
    exact_scaled: the values of scaled extra dimensions will be assigned through laspy's scaled view: keep
    value * scale + offset exact in binary64"""
    ebs = eb_pairs(extra) + ([(TRAIL, trailing)] if trailing else [])
    cols = []
    for name, kind in py_leaves(fmt, ebs):
        vals = leaf_values(rng, kind, n, rng.randrange(64))
        if name.startswith("e") and name[1:].isdigit():
            d = extra[int(name[1:])]
            if d["scaled"] and d["data_type"] != 0 and exact_scaled:
                w = int(kind[1:])
                lo, hi = (-(2 ** min(8 * w - 1, 40)), 2 ** min(8 * w - 1, 40) - 1) if kind[0] == "i" else (0, 2 ** min(8 * w, 40) - 1)
                vals = [[lo, hi, 0, 1][i] if i < 4 else rng.randrange(lo, hi + 1) for i in range(n)]
        cols.append(vals)
    return [[c[i] for c in cols] for i in range(n)]


PATHS = ["write", "writer", "convert", "append"]
CALLER_BUFFERS = ["fresh", "reused", "reused", "params-object"]
ADD_ROUTES = ["header.add_extra_dim", "header.add_extra_dims", "las.add_extra_dim", "las.add_extra_dims", "interleaved",
              "format.ctor", "format.setter", "format.set_both"]
# format.*: the extra dimensions are added to a PointFormat object of the caller (PointFormat.add_extra_dimension) and the header gets
# the finished object: LasHeader(version=, point_format=object) | header.point_format = object | header.set_version_and_point_format(
# version, object) on a header of another (version, format); caller['stale_dim']: the header had an extra dimension of its own before
FORMAT_ROUTES = [r for r in ADD_ROUTES if r.startswith("format.")]
DESTS = ["bytesio", "bytesio", "path", "fileobj"]


def make_case(rng, version, fmt, n, n_eb, laspy_side, idx, trailing=0, path="write", force_scaled=False, finite=False, add=None, stale=None):
    minor = int(version[2])
    extra = rand_extra_dims(rng, n_eb, laspy_side)
    if force_scaled and extra:
        # the first extra dimension is an integer one with scales and offsets
        d = extra[0]
        if d["data_type"] == 0 or eb_elem(d["data_type"], 0)[0][0] == "f":
            d["data_type"] = rng.choice([1, 2, 3, 4, 5, 6, 7, 8, 13, 14, 15, 16, 23, 26])
            d["nbytes"] = 0
        cnt = eb_elem(d["data_type"], 0)[1]
        d.update(scaled=3 if laspy_side else rng.choice([1, 2, 3]), flags=0, junk="",
                 scales=[lasio.f64bits(rng.choice(EXACT_SCALES)) for _ in range(cnt)],
                 offsets=[lasio.f64bits(rng.choice(EXACT_OFFSETS)) for _ in range(cnt)])
    points = gen_points(rng, fmt, extra, trailing, n, laspy_side)
    y = rng.choice([1, 4, 1900, 2000, 2020, 2024, 9999, rng.randrange(1, 10000)])
    leap = y % 4 == 0 and (y % 100 != 0 or y % 400 == 0)
    yday = rng.choice([1, 59, 60, 365, 366 if leap else 365, rng.randrange(1, 366)])
    if laspy_side or trailing or finite or rng.random() < 0.5:
        scales = [lasio.f64bits(rng.choice([1e-9, 0.001, 0.01, 0.5, 1.0, 1000.0, rng.uniform(1e-6, 10)])) for _ in range(3)]
        offsets = [lasio.f64bits(rng.choice([0.0, -1e9, 1e9, 123456.789, rng.uniform(-1e6, 1e6)])) for _ in range(3)]
    else:
        scales = [rng.choice(F64_SPECIAL + [rng.getrandbits(64)]) for _ in range(3)]
        offsets = [rng.choice(F64_SPECIAL + [rng.getrandbits(64)]) for _ in range(3)]
    ge = rng.choice([0, 1, 0xFFFF, 0x8000, rng.randrange(65536)])
    if fmt >= 6:
        ge |= 16
    hdr = {
        "file_source_id": rng.choice([0, 1, 65535, rng.randrange(65536)]),
        "global_encoding": ge,
        "uuid": bytes(rng.randrange(256) for _ in range(16)).hex(),
        "system_identifier": lasio.rand_ascii(rng, rng.choice([0, 1, 31, 32, 32, rng.randrange(33)])),
        "generating_software": lasio.rand_ascii(rng, rng.choice([0, 1, 31, 32, 32, rng.randrange(33)])),
        "creation": [y, yday] if (laspy_side or rng.random() < 0.9) else None,
        "scales": scales, "offsets": offsets,
        "start_of_waveform": rng.choice([0, 1, 2 ** 64 - 1, rng.getrandbits(64)]) if minor >= 3 else 0,
        "extra_header_bytes": bytes(rng.randrange(256) for _ in range(rng.choice([0, 0, 1, 3, 17]))).hex(),
        "extra_vlr_bytes": bytes(rng.randrange(256) for _ in range(rng.choice([0, 0, 1, 2, 9]))).hex(),
    }
    if not laspy_side:
        hdr["maxs"] = [rng.choice(F64_SPECIAL + [rng.getrandbits(64)]) for _ in range(3)]
        hdr["mins"] = [rng.choice(F64_SPECIAL + [rng.getrandbits(64)]) for _ in range(3)]
        lim = 2 ** 32 - 1 if minor < 4 else 2 ** 64 - 1
        hdr["by_return"] = [rng.choice([0, 1, lim, rng.randrange(lim + 1)]) for _ in range(15 if minor >= 4 else 5)]
    # records whose payload the specification lays out (classification lookup, waveform packet descriptors, GeoTIFF keys / doubles /
    # ASCII, WKT) in their full form among the others, as VLR or EVLR; on laspy's side built through laspy's classes or handed over raw
    known_api = laspy_side and rng.random() < 0.5
    case = {"id": idx, "version": version, "format": fmt, "n": n, "extra_dims": extra, "header": hdr,
            "vlrs": rand_vlrs(rng, rng.choice([0, 0, 1, 2, 4]), known=0.3, api=known_api),
            "evlrs": rand_vlrs(rng, rng.choice([0, 1, 2]), big=rng.random() < 0.2, known=0.3, api=known_api) if minor >= 4 and rng.random() < 0.6 else [],
            "points": points}
    if trailing:
        case["trailing"] = trailing
    if laspy_side:
        # how the file gets written: LasData.write | LasWriter in chunks | laspy.convert from another (version, format), then
        # write | LasData.write of the first points, the rest through the appender
        if path == "convert":
            sv, sf = rng.choice([(v, f) for v in lasio.VERSIONS for f in lasio.COMPAT[v]])
            path = f"convert:{sv}:{sf}"
        case["path"] = path
        # what the caller does with the objects it hands to laspy (the arrays behind scales= / offsets= of ExtraBytesParams, the
        # ExtraBytesParams object, the value arrays): fresh ones every time | one buffer re-used for every dimension and
        # overwritten after each call | one ExtraBytesParams object whose attributes are re-bound for the next dimension;
        # through which entry point the dimensions are added and when their values are assigned; where the file goes
        case["caller"] = {"buffers": rng.choice(CALLER_BUFFERS), "buffer_type": rng.choice(["f8", "f8", "f8", "view", "f4", "i8", "list", "tuple"]),
                          "add": rng.choice(ADD_ROUTES), "clobber_values": rng.random() < 0.5,
                          "type_as": rng.choice(["str", "str", "dtype", "1str", "class"]), "multi_assign": rng.random() < 0.3}
        if add is not None:
            case["caller"]["add"] = add
        if case["caller"]["add"].startswith("format."):
            case["caller"]["stale_dim"] = rng.random() < 0.5 if stale is None else stale
        elif stale or (stale is None and rng.random() < 0.25):
            case["caller"]["stale_dim"] = True
        # how the header attributes are assigned (HEADER_ROUTES, in turn over the cases) and in which form a flag is given
        k = idx if isinstance(idx, int) else rng.randrange(len(HEADER_ROUTES))
        case["caller"].update(header_route=HEADER_ROUTES[k % len(HEADER_ROUTES)], flag_form=FLAG_FORMS[(k // len(HEADER_ROUTES) + k) % len(FLAG_FORMS)],
                              known_as="api" if known_api else "raw")
        case["dest"] = rng.choice(DESTS)
    else:
        # bytes of another producer after the last point record (padding, waveform data packets) / between the last point and the EVLRs
        if rng.random() < 0.25:
            case["tail"] = bytes(rng.randrange(256) for _ in range(rng.choice([1, 2, 13, 57, 300]))).hex()
        if case["evlrs"] and rng.random() < 0.4:
            case["gap"] = bytes(rng.randrange(256) for _ in range(rng.choice([1, 3, 30, 200]))).hex()
    return case


def make_cases(ctx, laspy_side):
    rng = ctx.rng
    cases = []
    pairs = [(v, f) for v in lasio.VERSIONS for f in lasio.COMPAT[v]]
    idx = 0
    for v, f in pairs:                      # every (version, format): no extra bytes, enough points for every bit-field value
        cases.append(make_case(rng, v, f, rng.choice([33, 40, 64]), 0, laspy_side, idx)); idx += 1
    for f in range(11):                     # every format with extra bytes, and one long record run for the full byte ranges
        v = rng.choice([v for v in lasio.VERSIONS if f in lasio.COMPAT[v]])
        cases.append(make_case(rng, v, f, 256 if f in (0, 6, 10) else 35, rng.choice([1, 2, 3, 5]), laspy_side, idx)); idx += 1
    for dt in range(0, 31):                 # every extra-bytes data type at least once (type 0 = undocumented bytes)
        v, f = rng.choice(pairs)
        extra = rand_extra_dims(rng, 1, laspy_side)
        extra[0]["data_type"] = dt
        extra[0]["nbytes"] = (rng.choice([4, 7, 24]) if dt == 0 else 0)
        kind, cnt = eb_elem(dt, extra[0]["nbytes"])
        if dt == 0 or kind[0] == "f":
            extra[0].update(scaled=0, scales=[], offsets=[], flags=0, junk="")
        elif extra[0]["scaled"]:
            extra[0]["scales"] = [lasio.f64bits(rng.choice(EXACT_SCALES)) for _ in range(cnt)]
            extra[0]["offsets"] = [lasio.f64bits(rng.choice(EXACT_OFFSETS)) for _ in range(cnt)]
        c2 = make_case(rng, v, f, rng.choice([0, 1, 2, 9]), 0, laspy_side, idx); idx += 1
        c2["extra_dims"] = extra
        ebs = eb_pairs(extra)
        std = len(py_leaves(f, []))
        tail = py_leaves(f, ebs)[std:]
        for p in c2["points"]:
            for _, kd in tail:
                if extra[0]["scaled"] and laspy_side:
                    w = int(kd[1:])
                    lo, hi = (-(2 ** min(8 * w - 1, 40)), 2 ** min(8 * w - 1, 40) - 1) if kd[0] == "i" else (0, 2 ** min(8 * w, 40) - 1)
                    p.append(rng.choice([lo, hi, 0, rng.randrange(lo, hi + 1)]))
                else:
                    p.append(leaf_values(rng, kd, 1, rng.randrange(64))[0])
        cases.append(c2)
        if not laspy_side and rng.random() < 0.3:
            k = rng.choice([1, 2, 5])
            c2["trailing"] = k
            for p in c2["points"]:
                p += leaf_values(rng, "u1", k, rng.randrange(64))
    if laspy_side:
        # every way of writing: each (version, format) once more through the chunked writer / a conversion / the appender,
        # and every format as the target of a conversion that carries scaled extra dimensions
        for j, (v, f) in enumerate(pairs):
            cases.append(make_case(rng, v, f, rng.choice([0, 1, 2, 7, 12]), rng.choice([0, 0, 1, 2]), True, idx,
                                   path=PATHS[1 + (j + ctx.seed) % 3])); idx += 1
        for f in range(11):
            v = rng.choice([v for v in lasio.VERSIONS if f in lasio.COMPAT[v]])
            cases.append(make_case(rng, v, f, rng.choice([1, 3, 9]), rng.choice([1, 2, 3]), True, idx, path="convert", force_scaled=True)); idx += 1
        # the header gets a finished PointFormat object of the caller: through the constructor / the point_format setter /
        # set_version_and_point_format; onto a header without extra dimensions or one that had its own (with and without new ones)
        for j, r in enumerate(FORMAT_ROUTES):
            for q, (stale, neb) in enumerate([(False, rng.choice([1, 2, 3])), (True, rng.choice([1, 2])), (True, 0)]):
                v, f = rng.choice(pairs)
                cases.append(make_case(rng, v, f, rng.choice([1, 2, 5]), neb, True, idx, path=PATHS[(j + q + ctx.seed) % 4] if q else "write",
                                       add=r, stale=stale)); idx += 1
        # the header had an extra dimension of its own, removed through header / LasData .remove_extra_dim(s) after the others were added
        for j, r in enumerate(r_ for r_ in ADD_ROUTES if not r_.startswith("format.")):
            v, f = rng.choice(pairs)
            cases.append(make_case(rng, v, f, rng.choice([1, 2, 5]), rng.choice([1, 2]), True, idx, path=PATHS[(j + ctx.seed) % 4], add=r, stale=True)); idx += 1
    else:
        # records longer than format + described bytes: undocumented trailing bytes, with and without an Extra Bytes VLR,
        # every format, at least two points (a wrong record length shows from the second record on)
        for f in range(11):
            v = rng.choice([v for v in lasio.VERSIONS if f in lasio.COMPAT[v]])
            cases.append(make_case(rng, v, f, rng.choice([2, 3, 9]), rng.choice([1, 1, 2, 3]), False, idx,
                                   trailing=rng.choice([1, 2, 4, 7, 300]))); idx += 1
            v = rng.choice([v for v in lasio.VERSIONS if f in lasio.COMPAT[v]])
            cases.append(make_case(rng, v, f, rng.choice([2, 5]), 0, False, idx, trailing=rng.choice([1, 3, 8, 255, 256, 1000]))); idx += 1
    # every payload the specification lays out, in its full form (the complete 256-record classification lookup table with blank
    # descriptions, a partial one, a single blank record, waveform packet descriptor, GeoKeyDirectory / doubles / ASCII, both WKT
    # records, text area): once as VLR, once as EVLR, alone / next to another record of its kind / between ordinary records
    for j, kind in enumerate(KNOWN_KINDS):
        for place in ("vlrs", "evlrs"):
            v = "1.4" if place == "evlrs" else rng.choice(lasio.VERSIONS)
            c2 = make_case(rng, v, rng.choice(lasio.COMPAT[v]), rng.choice([0, 1, 3]), rng.choice([0, 0, 1]), laspy_side, idx); idx += 1
            api = laspy_side and (j + (place == "evlrs") + ctx.seed) % 2 == 0
            recs = [known_vlr(rng, kind, api)]
            if (j + ctx.seed) % 3 == 0:
                recs.append(known_vlr(rng, kind if not kind.startswith("lookup") else rng.choice(["lookup-full", "lookup-partial"]), api))
            others = [x for x in c2[place] if known_kind(x[0], x[1]) is None and len(x[3]) <= 2 * 65535][:2]
            c2[place] = others[:1] + recs + others[1:]
            if laspy_side:
                c2["caller"]["known_as"] = "api" if api else "raw"
            known_descriptions(c2, api)
            cases.append(c2)
    for _ in range(ctx.n(25, 600)):         # random mixtures
        v, f = rng.choice(pairs)
        cases.append(make_case(rng, v, f, rng.choice([0, 1, 2, 3, 17, 50]), rng.choice([0, 0, 1, 2, 4]), laspy_side, idx,
                               trailing=0 if laspy_side else rng.choice([0, 0, 0, 1, 6]),
                               path=rng.choice(PATHS), force_scaled=rng.random() < 0.3)); idx += 1
    return cases


# ---------------------------------------------------------------------------------------------------
# laspy side
# ---------------------------------------------------------------------------------------------------
NP = {"u1": np.uint8, "u2": np.uint16, "u4": np.uint32, "u8": np.uint64, "i1": np.int8, "i2": np.int16, "i4": np.int32, "i8": np.int64}


def np_column(kind, vals):
    if isinstance(kind, tuple):
        return np.array(vals, dtype=np.uint8)
    if kind[0] == "f":
        return np.array(vals, dtype=np.uint32 if kind == "f4" else np.uint64).view("<" + kind)
    return np.array(vals, dtype=NP[kind])


def type_str(dt, nb):
    kind, cnt = eb_elem(dt, nb)
    return (str(cnt) if cnt > 1 else "") + kind


def case_date(hdr):
    if hdr["creation"] is None:
        return None
    y, d = hdr["creation"]
    return date(y, 1, 1) + timedelta(d - 1)


def _vlr_objs(lst, api=False):
    """VLR objects for a list of records: plain laspy.VLR objects, or (api) the class laspy has for the record, filled in through
    its attributes"""
    import laspy
    out = []
    for u, r, ds, p in lst:
        v = known_obj(u, r, ds, p) if api else None
        out.append(v if v is not None else laspy.VLR(user_id=u, record_id=r, description=ds or "", record_data=bytes.fromhex(p)))
    return out


SCRATCH = f"/var/tmp/c02_{os.getpid()}"


def scratch(name):
    os.makedirs(SCRATCH, exist_ok=True)
    return os.path.join(SCRATCH, name)


def _cleanup():
    shutil.rmtree(SCRATCH, ignore_errors=True)


atexit.register(_cleanup)


class Dest:
    """where laspy is told to put a file: an io.BytesIO | a path | an open file object of a real file"""

    def __init__(self, kind, name):
        self.kind = kind
        self.path = None if kind == "bytesio" else scratch(f"{name}.las")
        self.obj = io.BytesIO() if kind == "bytesio" else (open(self.path, "w+b") if kind == "fileobj" else None)

    def target(self):
        if self.kind == "path":
            return self.path
        self.obj.seek(0)
        return self.obj

    def kw(self):
        return {} if self.kind == "path" else {"closefd": False}

    def preload(self, data):
        if self.kind == "path":
            with open(self.path, "wb") as f:
                f.write(data)
        else:
            self.obj.seek(0)
            self.obj.truncate()
            self.obj.write(data)
            self.obj.seek(0)

    def value(self):
        if self.kind == "bytesio":
            return self.obj.getvalue()
        if self.obj is not None and not self.obj.closed:
            self.obj.flush()
        with open(self.path, "rb") as f:
            return f.read()

    def close(self):
        if self.obj is not None and not self.obj.closed:
            self.obj.close()
        if self.path is not None:
            try:
                os.remove(self.path)
            except OSError:
                pass


def _clobber(arr):
    """the caller goes on using an array / list it handed to laspy"""
    if isinstance(arr, np.ndarray):
        flat = arr.reshape(-1).view(np.uint8) if arr.flags.c_contiguous else None
        if flat is not None and arr.flags.writeable:
            flat[:] = 0xA5
        elif arr.flags.writeable:
            arr[...] = 77
    elif isinstance(arr, list):
        arr[:] = [77.0] * len(arr)


class Caller:
    """the caller's side of ExtraBytesParams: which objects carry the scales / offsets and what happens to them afterwards"""

    def __init__(self, conf):
        self.conf = dict({"buffers": "fresh", "buffer_type": "f8", "add": "header.add_extra_dim", "clobber_values": False,
                          "type_as": "str", "multi_assign": False, "header_route": "plain", "flag_form": "bool", "known_as": "raw"}, **(conf or {}))
        self.bufs = {}
        self.params = None
        self.handed = []

    def _obj(self, which, vals):
        bt, reuse = self.conf["buffer_type"], self.conf["buffers"] == "reused"
        if bt == "i8" and any(v != int(v) for v in vals):
            bt = "f8"
        if bt in ("list", "tuple"):
            if not reuse:
                return list(vals) if bt == "list" else tuple(vals)
            buf = self.bufs.setdefault((which, len(vals)), [0.0] * len(vals))
            buf[:] = list(vals)
            return buf if bt == "list" else tuple(buf)
        dt = {"f8": np.float64, "view": np.float64, "f4": np.float32, "i8": np.int64}[bt]
        if not reuse:
            return np.array(vals, dtype=dt)
        if bt == "view":
            buf = self.bufs.setdefault((which, 0), np.zeros(3, dtype=dt))[:len(vals)]
        else:
            buf = self.bufs.setdefault((which, len(vals), bt), np.zeros(len(vals), dtype=dt))
        buf[:] = vals
        return buf

    def param(self, d):
        import laspy
        kw = {}
        if d["scaled"]:
            kw = dict(scales=self._obj("s", [lasio.bits_f64(b) for b in d["scales"]]), offsets=self._obj("o", [lasio.bits_f64(b) for b in d["offsets"]]))
            self.handed += list(kw.values())
        ts = type_str(d["data_type"], d["nbytes"])
        # the type of the dimension as a string ("3u2") | a numpy dtype | the old "1u2" spelling of a single element | a numpy scalar class
        ta, (kind, cnt) = self.conf.get("type_as", "str"), eb_elem(d["data_type"], d["nbytes"])
        single = cnt == 1 and d["data_type"] != 0
        ts = np.dtype(ts) if ta == "dtype" else ("1" + ts) if ta == "1str" and single else \
            {**NP, "f4": np.float32, "f8": np.float64}[kind] if ta == "class" and single else ts
        if self.conf["buffers"] == "params-object" and self.params is not None:
            # one ExtraBytesParams object, its attributes re-bound for the next dimension
            p = self.params
            p.name, p.type, p.description = d["name"], np.dtype(type_str(d["data_type"], d["nbytes"])), d["description"]
            p.scales = np.array(kw["scales"]) if kw else None
            p.offsets = np.array(kw["offsets"]) if kw else None
        else:
            p = laspy.ExtraBytesParams(d["name"], ts, description=d["description"], **kw)
            if self.conf["buffers"] == "params-object":
                self.params = p
        return p

    def after_call(self):
        """after laspy returned from add_extra_dim(s): the caller's buffers are used for something else"""
        if self.conf["buffers"] == "reused":
            for a in self.handed:
                _clobber(a)
            for a in self.bufs.values():
                _clobber(a)
        self.handed = []


# how the caller assigns the header attributes: one plain assignment each (global encoding as a number) | every flag of the global
# encoding through its named setter, x/y/z scale and offset through their own attributes | the whole sequence twice (a second pass
# of a pipeline that restates what it produces) | every assignment twice in a row | other values first, then the intended ones |
# assigned, the file written and read back, every attribute confirmed (assigned again) on the header laspy read | through the
# legacy attribute names | a GlobalEncoding object handed to the header, then its flags restated
HEADER_ROUTES = ["plain", "named", "named-twice", "each-twice", "toggled", "confirmed", "old-names", "object"]
FLAG_FORMS = ["bool", "int", "np.bool_", "np.uint8"]
GE_FLAGS = [("gps_time_type", 1), ("waveform_data_packets_internal", 2), ("waveform_data_packets_external", 4),
            ("synthetic_return_numbers", 8), ("wkt", 16)]


def _flag(on, form, name):
    if name == "gps_time_type" and form == "bool":
        from laspy.header import GpsTimeType
        return GpsTimeType(1 if on else 0)
    return {"bool": bool(on), "int": 1 if on else 0, "np.bool_": np.bool_(bool(on)), "np.uint8": np.uint8(1 if on else 0)}[form]


def assign_header(h, case, conf, stage="build"):
    """the header attributes of a case, assigned through laspy's named attributes the way conf['header_route'] says.
    stage 'build': on the fresh header; stage 'confirm': on the header laspy read from the file it wrote (route 'confirmed' only)"""
    from laspy.header import GlobalEncoding
    hd = case["header"]
    route, form = conf.get("header_route", "plain"), conf.get("flag_form", "bool")
    minor = int(case["version"][2])
    want = {"ge": hd["global_encoding"], "fsid": hd["file_source_id"], "uuid": uuidmod.UUID(bytes_le=bytes.fromhex(hd["uuid"])),
            "sysid": hd["system_identifier"], "soft": hd["generating_software"], "date": case_date(hd),
            "scales": [lasio.bits_f64(b) for b in hd["scales"]], "offsets": [lasio.bits_f64(b) for b in hd["offsets"]],
            "wave": hd["start_of_waveform"]}
    other = {"ge": hd["global_encoding"] ^ 0x1F, "fsid": hd["file_source_id"] ^ 0xFFFF, "uuid": uuidmod.UUID(int=0x0123456789ABCDEF),
             "sysid": "something else", "soft": "", "date": date(1999, 12, 31), "scales": [2.0 * x for x in want["scales"]],
             "offsets": [x + 1.0 for x in want["offsets"]], "wave": 12345}

    def plain(v):
        h.file_source_id = v["fsid"]
        h.global_encoding.value = v["ge"]
        h.uuid = v["uuid"]
        h.system_identifier = v["sysid"]
        h.generating_software = v["soft"]
        h.creation_date = v["date"]
        h.scales = np.array(v["scales"])
        h.offsets = np.array(v["offsets"])

    def named(v, reps=1, reserved=True, old=False):
        if reserved:
            # the bits the specification reserves have no named attribute: they come with the number
            h.global_encoding.value = (int(h.global_encoding.value) & 0x1F) | (v["ge"] & 0xFFE0)
        for name, mask in GE_FLAGS:
            for _ in range(reps):
                setattr(h.global_encoding, name, _flag(v["ge"] & mask, form, name))
        for _ in range(reps):
            if old:
                h.filesource_id, h.system_id, h.software_id, h.date = v["fsid"], v["sysid"], v["soft"], v["date"]
                h.scale, h.offset = np.array(v["scales"]), np.array(v["offsets"])
            else:
                h.file_source_id, h.system_identifier, h.generating_software, h.creation_date = v["fsid"], v["sysid"], v["soft"], v["date"]
                h.x_scale, h.y_scale, h.z_scale = v["scales"]
                h.x_offset, h.y_offset, h.z_offset = v["offsets"]
            h.uuid = v["uuid"]
            if minor >= 3 and stage == "confirm":
                h.start_of_waveform_data_packet_record = v["wave"]

    if stage == "confirm":
        # the attributes laspy presents for its own file are what was assigned: confirmed one by one, by name
        named(want, reserved=False)
        return
    if route in ("plain", "confirmed"):
        plain(want)
    elif route == "named":
        named(want)
    elif route == "named-twice":
        named(want)
        named(want)
    elif route == "each-twice":
        named(want, reps=2)
    elif route == "toggled":
        named(other)
        named(want)
    elif route == "old-names":
        named(want, old=True)
        named(want, reserved=False, old=True)
    else:
        h.global_encoding = GlobalEncoding(want["ge"])
        plain(dict(want, ge=h.global_encoding.value))
        named(want, reserved=False)
    h.extra_header_bytes = bytes.fromhex(hd["extra_header_bytes"])
    h.extra_vlr_bytes = bytes.fromhex(hd["extra_vlr_bytes"])


def laspy_write(case):
    """build the file through laspy's API, written the way case['path'] says; returns (bytes, what laspy computed itself:
    mins / maxs / by_return)"""
    import laspy
    from laspy.vlrs.vlrlist import VLRList
    hd = case["header"]
    path = case.get("path", "write").split(":")
    version, fmt = (path[1], int(path[2])) if path[0] == "convert" else (case["version"], case["format"])
    caller = Caller(case.get("caller"))
    add = caller.conf["add"]
    if add.startswith("format."):
        from laspy.header import Version
        pf = laspy.PointFormat(fmt)
        for d in case["extra_dims"]:
            pf.add_extra_dimension(caller.param(d))
            caller.after_call()
        stale = bool(caller.conf.get("stale_dim"))
        if add == "format.ctor":
            h = laspy.LasHeader(version=version, point_format=pf)
        else:
            if add == "format.setter":
                h = laspy.LasHeader(version=version, point_format=fmt)
            else:
                h = laspy.LasHeader(version="1.4", point_format=6) if stale else laspy.LasHeader()
            if stale:
                h.add_extra_dim(laspy.ExtraBytesParams("before", "u2", description="the header's own, before"))
            if add == "format.setter":
                h.point_format = pf
            else:
                h.set_version_and_point_format(Version.from_str(version), pf)
    else:
        h = laspy.LasHeader(version=version, point_format=fmt)
        stale = bool(caller.conf.get("stale_dim"))
        if stale:
            # the header has an extra dimension of its own first; it is removed (header / LasData .remove_extra_dim(s)) once the
            # dimensions of the case exist
            h.add_extra_dim(laspy.ExtraBytesParams("before", "u2", description="the header's own, before"))
    assign_header(h, case, caller.conf)
    if caller.conf["buffers"] == "params-object":
        add = add.replace("add_extra_dims", "add_extra_dim")     # one object: the dimensions are added one call after the other
    n = case["n"]
    ebs = case_ebs(case)
    leaves = py_leaves(case["format"], ebs)
    cols = {}
    for j, (name, kind) in enumerate(leaves):
        cols.setdefault(name, []).append((kind, [p[j] for p in case["points"]]))

    def assign(las, names):
        names = list(names)
        if caller.conf["multi_assign"] and all(nm in names for nm in ("X", "Y", "Z", "intensity")):
            # several dimensions in one call: record[[names]] = structured array
            multi = ["Z", "intensity", "X", "Y"]
            st = np.zeros(n, dtype=[(nm, "<" + cols[nm][0][0]) for nm in multi])
            for nm in multi:
                st[nm] = np_column(*cols[nm][0])
            las.points[multi] = st
            names = [nm for nm in names if nm not in multi]
            if caller.conf["clobber_values"]:
                _clobber(st)
        for name in names:
            parts = cols[name]
            if name.startswith("e") and name[1:].isdigit():
                d = case["extra_dims"][int(name[1:])]
                arrs = [np_column(k, v) for k, v in parts]
                if d["scaled"]:
                    arrs = [np.array(v, dtype=np.float64) * lasio.bits_f64(d["scales"][i]) + lasio.bits_f64(d["offsets"][i])
                            for i, (k, v) in enumerate(parts)]
                val = arrs[0] if len(arrs) == 1 and eb_elem(*ebs[int(name[1:])])[1] == 1 else np.stack(arrs, axis=1)
                las[d["name"]] = val
            else:
                val = np_column(*parts[0])
                las[name] = val
            if caller.conf["clobber_values"]:
                _clobber(val)               # the array the values came from is the caller's: it goes on using it

    eb_names = [nm for nm in cols if nm.startswith("e") and nm[1:].isdigit()]
    assigned = set()
    if add.startswith("header."):
        if add == "header.add_extra_dims" and case["extra_dims"]:
            h.add_extra_dims([caller.param(d) for d in case["extra_dims"]])
            caller.after_call()
        else:
            for d in case["extra_dims"]:
                h.add_extra_dim(caller.param(d))
                caller.after_call()
        if stale:
            (h.remove_extra_dims(["before"]) if add == "header.add_extra_dims" else h.remove_extra_dim("before"))
    known_api = caller.conf.get("known_as") == "api"
    for v in _vlr_objs(case["vlrs"], known_api):
        h.vlrs.append(v)
    las = laspy.LasData(h)
    las.points = laspy.ScaleAwarePointRecord.zeros(n, header=h)
    if not add.startswith("header.") and not add.startswith("format."):
        if add == "las.add_extra_dims" and case["extra_dims"]:
            las.add_extra_dims([caller.param(d) for d in case["extra_dims"]])
            caller.after_call()
        else:
            for i, d in enumerate(case["extra_dims"]):
                las.add_extra_dim(caller.param(d))
                if add == "interleaved" and n:
                    # the values of a dimension are assigned as soon as it exists, before the caller's buffers change
                    assign(las, [f"e{i}"])
                    assigned.add(f"e{i}")
                caller.after_call()
        if stale:
            (las.remove_extra_dims(["before"]) if add == "las.add_extra_dims" else las.remove_extra_dim("before"))
    if path[0] == "convert":
        # assigned before the conversion: the extra dimensions and every dimension the source format has with the same type;
        # after it: the dimensions only the target format has
        src = dict(py_leaves(fmt, []))
        before = [nm for nm in cols if (nm.startswith("e") and nm[1:].isdigit()) or src.get(nm) == cols[nm][0][0]]
        if n:
            assign(las, [nm for nm in before if nm not in assigned])
        las = laspy.convert(las, point_format_id=case["format"], file_version=case["version"])
        if n:
            assign(las, [nm for nm in cols if nm not in before])
    elif n:
        assign(las, [nm for nm in cols if nm not in assigned])
    evlrs = VLRList(_vlr_objs(case["evlrs"], known_api)) if case["evlrs"] else None
    if evlrs is not None:
        las.evlrs = evlrs
    # statistics are laspy's own computation (C03); update_header() also clears the waveform pointer of a 1.4 header, so the
    # attribute is assigned again afterwards: what is written is what the header holds at write time
    las.update_header()
    if int(case["version"][2]) >= 3:
        las.header.start_of_waveform_data_packet_record = hd["start_of_waveform"]
    if caller.conf.get("header_route") == "confirmed":
        # the file is written, read back by laspy, and the caller confirms every header attribute by name on what laspy presents
        # before the file is produced for good
        bio = io.BytesIO()
        las.write(bio)
        las = laspy.read(io.BytesIO(bio.getvalue()))
        assign_header(las.header, case, caller.conf, stage="confirm")
        evlrs = las.evlrs if evlrs is not None else None
    dest = Dest(case.get("dest", "bytesio"), f"w{case['id']}")
    try:
        hh = las.header
        if path[0] == "writer":
            with laspy.open(dest.target(), mode="w", header=las.header, **dest.kw()) as w:
                # the header now belongs to the writer (its own copy): what the caller does to its header object afterwards
                # is not the file's business
                chunks = [las.points[a:b] for a, b in ((0, n // 3), (n // 3, n))]
                if caller.conf["clobber_values"]:
                    mine = las.header
                    mine.file_source_id = (hd["file_source_id"] + 1) % 65536
                    mine.system_identifier = "caller goes on"
                    mine.uuid = uuidmod.UUID(int=7)
                    mine.vlrs.append(laspy.VLR(user_id="later", record_id=9, record_data=b"xyz"))
                for c in chunks:
                    w.write_points(c)
                if evlrs is not None:
                    w.write_evlrs(evlrs)
                hh = w.header
        elif path[0] == "append":
            k = n // 2
            first = laspy.LasData(las.header, las.points[:k])
            if evlrs is not None:
                first.evlrs = evlrs
            first.write(dest.target())
            with laspy.open(dest.target(), mode="a", **dest.kw()) as ap:
                rest = las.points[k:]
                ap.append_points(rest)
                hh = ap.header
        else:
            las.write(dest.target())
        own = {"maxs": [lasio.f64bits(x) for x in hh.maxs], "mins": [lasio.f64bits(x) for x in hh.mins],
               "by_return": [int(x) for x in hh.number_of_points_by_return]}
        return dest.value(), own
    finally:
        dest.close()


def laspy_present(data, case):
    """what laspy.read shows for the file, in the vocabulary of a case"""
    import laspy
    las = laspy.read(io.BytesIO(data))
    h = las.header
    minor = h.version.minor
    cd = h.creation_date
    P = {"header": {
        "file_source_id": int(h.file_source_id), "global_encoding": int(h.global_encoding.value), "uuid": h.uuid.bytes_le.hex(),
        "version": f"{h.version.major}.{h.version.minor}", "system_identifier": h.system_identifier, "generating_software": h.generating_software,
        "creation": None if cd is None else [cd.year, cd.timetuple().tm_yday],
        "scales": [lasio.f64bits(x) for x in h.scales], "offsets": [lasio.f64bits(x) for x in h.offsets],
        "maxs": [lasio.f64bits(x) for x in h.maxs], "mins": [lasio.f64bits(x) for x in h.mins],
        "by_return": [int(x) for x in h.number_of_points_by_return][:15 if minor >= 4 else 5],
        "start_of_waveform": int(h.start_of_waveform_data_packet_record) if minor >= 3 else 0,
        "extra_header_bytes": bytes(h.extra_header_bytes).hex(), "extra_vlr_bytes": bytes(h.extra_vlr_bytes).hex(),
        "format": int(h.point_format.id), "point_size": int(h.point_format.size), "point_count": int(h.point_count), "n_points": len(las.points),
        "offset_to_point_data": int(h.offset_to_point_data),
        "number_of_evlrs": int(h.number_of_evlrs) if minor >= 4 else 0, "start_of_first_evlr": int(h.start_of_first_evlr) if minor >= 4 else 0}}
    P["vlrs"] = [[lasio.sbytes(v.user_id).decode("latin1"), int(v.record_id), lasio.sbytes(v.description).decode("latin1"), bytes(v.record_data_bytes()).hex()]
                 for v in las.vlrs if not (v.user_id == "LASF_Spec" and v.record_id == 4)]
    P["evlrs"] = [[lasio.sbytes(v.user_id).decode("latin1"), int(v.record_id), lasio.sbytes(v.description).decode("latin1"), bytes(v.record_data_bytes()).hex()]
                  for v in (las.evlrs or [])]
    # the records whose payload the specification lays out, as laspy presents their contents (attributes of its classes)
    kv = lambda lst: [known_laspy_view(v) if known_kind(lasio.sbytes(v.user_id).decode("latin1"), int(v.record_id)) else None for v in lst]
    P["known"] = kv([v for v in las.vlrs if not (v.user_id == "LASF_Spec" and v.record_id == 4)])
    P["eknown"] = kv(las.evlrs or [])
    P["extra_dims"] = []
    for d in las.point_format.extra_dimensions:
        dt = d.dtype
        P["extra_dims"].append({"name": d.name, "elem": dt.base.kind + str(dt.base.itemsize), "count": int(d.num_elements), "description": d.description,
                                "scales": None if d.scales is None else [lasio.f64bits(x) for x in d.scales],
                                "offsets": None if d.offsets is None else [lasio.f64bits(x) for x in d.offsets]})
    # the record layout laspy resolved for the file: number of leaves (every sub-field, every element) and record length
    P["resolved"] = [int(sum(int(d.num_elements) for d in las.point_format.dimensions)), int(las.point_format.size)]
    P["record_bytes"] = bytes(las.points.memoryview())
    # points: leaf order of the case; extra dimensions by position (the undocumented trailing bytes come last)
    ebs = case_ebs(case)
    leaves = py_leaves(case["format"], ebs)
    n = len(las.points)
    cols, scaled_cols, seen = [], {}, {}
    for j, (name, kind) in enumerate(leaves):
        if name == TRAIL_NAME or (name.startswith("e") and name[1:].isdigit()):
            i = len(case["extra_dims"]) if name == TRAIL_NAME else int(name[1:])
            k = seen.get(name, 0)
            seen[name] = k + 1
            if i >= len(P["extra_dims"]):
                cols.append(None)
                continue
            dim = list(las.point_format.extra_dimensions)[i]
            view = las[dim.name]
            raw = view.array if dim.scales is not None else np.array(view)
            raw = np.asarray(raw)
            if n == 0:
                cols.append([])
                continue
            raw = raw.reshape(n, -1)
            if k >= raw.shape[1] or raw.dtype.itemsize != int(kind[1:]):
                cols.append(None)
                continue
            col = raw[:, k]
            if dim.scales is not None:
                sc = np.asarray(view).reshape(n, -1)[:, k]
                scaled_cols[j] = [lasio.f64bits(x) for x in sc]
        else:
            try:
                col = np.array(las[name])
            except Exception:
                cols.append(None)
                continue
        if isinstance(kind, str) and kind[0] == "f":
            col = np.ascontiguousarray(col).view(np.uint32 if kind == "f4" else np.uint64)
        cols.append([int(x) for x in col])
    P["points"] = [[(c[i] if c is not None else None) for c in cols] for i in range(n)]
    P["scaled"] = scaled_cols
    # ... and laspy writes what it presents: the file it produces from this LasData is decoded by the reference afterwards
    try:
        bio = io.BytesIO()
        las.write(bio)
        P["rewritten"] = bio.getvalue()
    except Exception as ex:
        P["rewritten"] = {"error": f"{common.exc_kind(ex)}: {str(ex)[:200]}"}
    return P


# ---------------------------------------------------------------------------------------------------
# specification side: decode a file / build a file through a reference
# ---------------------------------------------------------------------------------------------------
def spec_decode_files(ref, files):
    """[(bytes)] -> presented dicts (vocabulary of a case) or {'error': ...}"""
    res = [dict() for _ in files]
    minors = []
    for i, f in enumerate(files):
        m = f[25] if len(f) > 25 and f[:4] == b"LASF" and f[24] == 1 and 1 <= f[25] <= 4 else None
        if m is None:
            res[i]["error"] = "no LASF signature / version 1.1-1.4 at bytes 0..3, 24, 25"
        minors.append(m)
    live = [i for i in range(len(files)) if "error" not in res[i]]
    outs = ref.batch([("dec_hdr", minors[i], files[i][:HS[minors[i]]]) for i in live])
    H = {}
    for i, o in zip(live, outs):
        if is_err(o) or len(files[i]) < HS[minors[i]]:
            res[i]["error"] = f"header: {o if is_err(o) else 'file shorter than the header'}"
            continue
        d, legacy = {}, {}
        for k, v in o[0]:
            if k in d:
                legacy[k] = d[k]        # 1.4: the first binding is the legacy 32-bit field
            d[k] = v
        H[i] = (d, legacy)
    live = [i for i in live if "error" not in res[i]]
    reqs, idx = [], []
    for i in live:
        d, f = H[i][0], files[i]
        if d["number_of_vlrs"] > 10000 or not d["header_size"] <= d["offset_to_point_data"] <= len(f):
            res[i]["error"] = f"header: number_of_vlrs {d['number_of_vlrs']}, header_size {d['header_size']}, offset_to_point_data {d['offset_to_point_data']}"
            continue
        reqs.append(("dec_vlrs", False, d["number_of_vlrs"], f[d["header_size"]:d["offset_to_point_data"]]))
        idx.append((i, False))
        if minors[i] >= 4 and d["number_of_evlrs"] > 0:
            reqs.append(("dec_vlrs", True, d["number_of_evlrs"], f[d["start_of_first_evlr"]:] if d["start_of_first_evlr"] <= len(f) else b""))
            idx.append((i, True))
    V = {}
    for (i, ext), o in zip(idx, ref.batch(reqs)):
        if is_err(o):
            res[i]["error"] = f"{'EVLR' if ext else 'VLR'} chain: {o[1]}"
        else:
            V[(i, ext)] = o
    live = [i for i in live if "error" not in res[i]]
    reqs, idx = [], []
    for i in live:
        for d, payload in V[(i, False)][0]:
            if d["user_id"] == EB_USER_ID and d["record_id"] == EB_RECORD_ID:
                if len(payload) % 192:
                    res[i]["error"] = f"extra-bytes VLR payload of {len(payload)} bytes is not a multiple of 192"
                for k in range(0, len(payload) - 191, 192):
                    reqs.append(("dec_ebd", payload[k:k + 192]))
                    idx.append(i)
    E = {}
    for i, o in zip(idx, ref.batch(reqs)):
        if is_err(o):
            res[i]["error"] = f"extra-bytes descriptor: {o[1]}"
        else:
            E.setdefault(i, []).append(dict(o[0]))
    live = [i for i in live if "error" not in res[i]]
    # record length the descriptors account for; the header's record length delimits the records: what is beyond is undocumented
    EBS = {i: [(e["data_type"], e["options"] if e["data_type"] == 0 else 0) for e in E.get(i, [])] for i in live}
    described = dict(zip(live, ref.batch([("psize", H[i][0]["point_format_id"], EBS[i]) for i in live])))
    # legacy counts of a 1.4 header against the counts of the same header
    lreqs, lidx = [], []
    for i in live:
        d, legacy = H[i]
        for k, v in legacy.items():
            lreqs.append(("legacy_ok", d["point_format_id"], d[k], v))
            lidx.append((i, k, v, d[k]))
    LEG = {}
    for (i, k, v, cnt), ok in zip(lidx, ref.batch(lreqs)):
        if ok is not True:
            LEG.setdefault(i, []).append((k, v, cnt))
    reqs, idx = [], []
    for i in live:
        d = H[i][0]
        ebs = list(EBS[i])
        ps = described[i]
        trail = d["point_size"] - ps if not is_err(ps) and d["point_size"] > ps else 0
        if trail:
            ebs.append((TRAIL, trail))
        # record i is the point_size bytes at offset_to_point_data + i * point_size (Model/RecordPlace.v record_at); the
        # reference gets the file up to the end of the announced records
        end = d["offset_to_point_data"] + d["point_count"] * d["point_size"]
        if end > len(files[i]):
            res[i]["error"] = (f"header announces {d['point_count']} records of {d['point_size']} bytes from byte {d['offset_to_point_data']}: "
                               f"they end at {end}, the file has {len(files[i])} bytes")
            continue
        data = files[i][d["offset_to_point_data"]:end]
        reqs += [("psize", d["point_format_id"], ebs),
                 ("dec_at", d["point_format_id"], ebs, d["offset_to_point_data"], d["point_size"], d["point_count"], files[i][:end])]
        if isinstance(ref, ModelRef):
            reqs.append(("gdec", d["point_format_id"], ebs, data))
        idx.append((i, ebs, len(data)))
    outs = ref.batch(reqs)
    step = 3 if isinstance(ref, ModelRef) else 2
    for k, (i, ebs, dl) in enumerate(idx):
        ps, pts = outs[step * k], outs[step * k + 1]
        d, legacy = H[i]
        minor = minors[i]
        R = res[i]
        cr = None if d["creation_year"] == 0 and d["creation_yday"] == 0 else [d["creation_year"], d["creation_yday"]]
        nret = 15 if minor >= 4 else 5
        R["header"] = {
            "file_source_id": d["file_source_id"], "global_encoding": d["global_encoding"], "uuid": d["uuid"].hex(),
            "version": f"{d['version.major']}.{d['version.minor']}", "system_identifier": d["system_identifier"].decode("latin1"),
            "generating_software": d["generating_software"].decode("latin1"), "creation": cr,
            "scales": [d[f"scales[{j}]"] for j in range(3)], "offsets": [d[f"offsets[{j}]"] for j in range(3)],
            "maxs": [d[f"maxs[{j}]"] for j in range(3)], "mins": [d[f"mins[{j}]"] for j in range(3)],
            "by_return": [d[_by_ret(j)] for j in range(nret)], "start_of_waveform": d.get("start_of_waveform", 0),
            "extra_header_bytes": files[i][HS[minor]:d["header_size"]].hex(),
            "extra_vlr_bytes": files[i][d["header_size"] + V[(i, False)][1]:d["offset_to_point_data"]].hex(),
            "format": d["point_format_id"], "point_size": d["point_size"], "point_count": d["point_count"],
            "offset_to_point_data": d["offset_to_point_data"], "header_size": d["header_size"], "signature": d["signature"].hex(),
            "number_of_vlrs": d["number_of_vlrs"],
            "number_of_evlrs": d.get("number_of_evlrs", 0), "start_of_first_evlr": d.get("start_of_first_evlr", 0),
            "legacy": {k: v for k, v in legacy.items()},
            "file_len": len(files[i]),
            "expected_len": (d["start_of_first_evlr"] + V[(i, True)][1]) if (i, True) in V
            else d["offset_to_point_data"] + d["point_count"] * d["point_size"]}
        conv = lambda lst: [[x["user_id"].decode("latin1"), x["record_id"], x["description"].decode("latin1"), p.hex()] for x, p in lst]
        allv = V[(i, False)][0]
        R["vlrs"] = conv([(x, p) for x, p in allv if not (x["user_id"] == EB_USER_ID and x["record_id"] == EB_RECORD_ID)])
        R["vlr_reserved"] = [x["reserved"].hex() for x, _ in allv]
        R["evlrs"] = conv(V[(i, True)][0]) if (i, True) in V else []
        R["descriptors"] = E.get(i, [])
        R["ebs"] = ebs
        R["spec_point_size"] = described[i]     # format + described extra bytes
        R["trailing"] = ebs[-1][1] if ebs and ebs[-1][0] == TRAIL else 0
        R["record_size"] = ps
        R["legacy_bad"] = LEG.get(i, [])
        R["data_len"] = dl
        R["points"] = pts
        if step == 3 and outs[3 * k + 2] != pts:
            R["gen_differs"] = True
    # the payloads the specification lays out (classification lookup, waveform packet descriptor, GeoTIFF, WKT), read by the reference
    done = [R for R in res if "vlrs" in R]
    kv = known_views_many(ref, [R["vlrs"] for R in done] + [R["evlrs"] for R in done])
    for j, R in enumerate(done):
        R["known"], R["eknown"] = kv[j], kv[len(done) + j]
    return res


def descriptor_values(d, names):
    """positional values of one 192-byte descriptor for enc_ebd"""
    kind, cnt = eb_elem(d["data_type"], d["nbytes"])
    junk = bytes.fromhex(d["junk"]) if d["junk"] else bytes(72)
    if d["data_type"] == 0:
        options = d["nbytes"]
    else:
        options = d["flags"] | (8 if d["scaled"] & 1 else 0) | (16 if d["scaled"] & 2 else 0)
    v = {"reserved": b"\0\0", "data_type": d["data_type"], "options": options, "name": d["name"].encode(), "unused": bytes(4),
         "no_data": junk[0:24], "min": junk[24:48], "max": junk[48:72], "description": d["description"].encode()}
    for j in range(3):
        v[f"scale[{j}]"] = d["scales"][j] if d["scaled"] & 1 and j < cnt else 0
        v[f"offset[{j}]"] = d["offsets"][j] if d["scaled"] & 2 and j < cnt else 0
    return [v[n] for n in names]


def spec_encode_files(ref, cases):
    """build each case's file with the reference encoder; returns [bytes | {'error':...}]"""
    names = ref.batch([("ebd_names",), ("vlr_names", False), ("vlr_names", True)] + [("hdr_names", m) for m in (1, 2, 3, 4)])
    ebd_names, vn, evn = names[0], names[1], names[2]
    hdr_names = {m: names[2 + m] for m in (1, 2, 3, 4)}
    reqs, plan = [], []
    for c in cases:
        ebs = case_ebs(c)
        start = len(reqs)
        reqs.append(("psize", c["format"], ebs))
        reqs.append(("enc", c["format"], ebs, c["points"]))
        for d in c["extra_dims"]:
            reqs.append(("enc_ebd", descriptor_values(d, ebd_names)))
        vl = list(c["vlrs"])
        if c["extra_dims"]:
            vl = [["LASF_Spec", 4, "Extra Bytes Record", None]] + vl
        for u, r, ds, p in vl:
            plen = 192 * len(c["extra_dims"]) if p is None else len(p) // 2
            v = {"reserved": b"\0\0", "user_id": u.encode(), "record_id": r, "record_length": plen, "description": ds.encode()}
            reqs.append(("enc_vlr", False, [v[n] for n in vn]))
        for u, r, ds, p in c["evlrs"]:
            v = {"reserved": b"\0\0", "user_id": u.encode(), "record_id": r, "record_length": len(p) // 2, "description": ds.encode()}
            reqs.append(("enc_vlr", True, [v[n] for n in evn]))
        plan.append((start, len(c["extra_dims"]), vl))
    outs = ref.batch(reqs)
    files, hreqs, parts = [None] * len(cases), [], []
    for ci, (c, (start, neb, vl)) in enumerate(zip(cases, plan)):
        o = outs[start:start + 2 + neb + len(vl) + len(c["evlrs"])]
        bad = [x for x in o if is_err(x)]
        if bad:
            files[ci] = {"error": f"reference encoder refused: {bad[0]}"}
            continue
        psize, pts = o[0], o[1]
        descs = b"".join(o[2:2 + neb])
        vb = b""
        for (u, r, ds, p), hb in zip(vl, o[2 + neb:2 + neb + len(vl)]):
            vb += hb + (descs if p is None else bytes.fromhex(p))
        eb = b""
        for (u, r, ds, p), hb in zip(c["evlrs"], o[2 + neb + len(vl):]):
            eb += hb + bytes.fromhex(p)
        hd = c["header"]
        minor = int(c["version"][2])
        ehb, evb = bytes.fromhex(hd["extra_header_bytes"]), bytes.fromhex(hd["extra_vlr_bytes"])
        hsize = HS[minor] + len(ehb)
        off = hsize + len(vb) + len(evb)
        n = c["n"]
        gapb = bytes.fromhex(c.get("gap", "")) if c["evlrs"] else b""
        v = {"signature": b"LASF", "file_source_id": hd["file_source_id"], "global_encoding": hd["global_encoding"], "uuid": bytes.fromhex(hd["uuid"]),
             "version.major": 1, "version.minor": minor, "system_identifier": hd["system_identifier"].encode(),
             "generating_software": hd["generating_software"].encode(),
             "creation_yday": hd["creation"][1] if hd["creation"] else 0, "creation_year": hd["creation"][0] if hd["creation"] else 0,
             "header_size": hsize, "offset_to_point_data": off, "number_of_vlrs": len(vl), "point_format_id": c["format"], "point_size": psize,
             "start_of_waveform": hd["start_of_waveform"], "start_of_first_evlr": off + n * psize + len(gapb) if c["evlrs"] else 0, "number_of_evlrs": len(c["evlrs"])}
        for j in range(3):
            v[f"scales[{j}]"], v[f"offsets[{j}]"] = hd["scales"][j], hd["offsets"][j]
            v[f"maxs[{j}]"], v[f"mins[{j}]"] = hd["maxs"][j], hd["mins"][j]
        vals, seen = [], set()
        for nm in hdr_names[minor]:
            first = nm not in seen
            seen.add(nm)
            legacy = minor >= 4 and first and (nm == "point_count" or nm.startswith("number_of_points_by_return")) \
                and hdr_names[minor].count(nm) == 2
            if nm == "point_count":
                # legacy field of a 1.4 header: the count when the format allows it (0-5), else zero
                vals.append((n if c["format"] <= 5 else 0) if legacy else n)
            elif nm.startswith("number_of_points_by_return"):
                j = int(nm[nm.index("[") + 1:-1])
                br = hd["by_return"][j]
                vals.append((br if c["format"] <= 5 and br < 2 ** 32 else 0) if legacy else br)
            else:
                vals.append(v[nm])
        hreqs.append(("enc_hdr", minor, vals))
        parts.append((ci, ehb + vb + evb + pts + gapb + eb + bytes.fromhex(c.get("tail", ""))))
    for (ci, tail), hb in zip(parts, ref.batch(hreqs)):
        files[ci] = {"error": f"reference header encoder refused: {hb}"} if is_err(hb) else hb + tail
    return files


# ---------------------------------------------------------------------------------------------------
# comparisons
# ---------------------------------------------------------------------------------------------------
HDR_KEYS = ["file_source_id", "global_encoding", "uuid", "version", "system_identifier", "generating_software", "creation",
            "scales", "offsets", "start_of_waveform", "extra_header_bytes", "extra_vlr_bytes"]


def expected_descriptor(d):
    kind, cnt = eb_elem(d["data_type"], d["nbytes"])
    return kind, cnt


def compare_laspy_writes(case, own, R):
    """case: what was assigned; own: what laspy computed itself; R: what the reference decoder read. -> [(class, detail)]"""
    if "error" in R:
        return [("file structure", R["error"])]
    out = []
    hd, rh = case["header"], R["header"]
    minor = int(case["version"][2])
    for k in HDR_KEYS:
        exp = case["version"] if k == "version" else hd[k]
        if rh[k] != exp:
            out.append((f"header {k}", f"assigned {exp!r}, decoder read {rh[k]!r}"))
    ebs = case_ebs(case)
    psize = py_size(case["format"], ebs)
    nv = len(case["vlrs"]) + (1 if case["extra_dims"] else 0)
    vbytes = sum(54 + len(p) // 2 for _, _, _, p in case["vlrs"]) + ((54 + 192 * len(ebs)) if ebs else 0)
    hsize = HS[minor] + len(hd["extra_header_bytes"]) // 2
    off = hsize + vbytes + len(hd["extra_vlr_bytes"]) // 2
    exp = {"signature": b"LASF".hex(), "format": case["format"], "point_size": psize, "point_count": case["n"], "header_size": hsize,
           "offset_to_point_data": off, "number_of_vlrs": nv, "maxs": own["maxs"], "mins": own["mins"],
           "by_return": own["by_return"][:15 if minor >= 4 else 5]}
    if minor >= 4:
        exp["number_of_evlrs"] = len(case["evlrs"])
        if case["evlrs"]:
            exp["start_of_first_evlr"] = off + case["n"] * psize
    for k, e in exp.items():
        if rh[k] != e:
            out.append((f"header {k}", f"expected {e!r}, decoder read {rh[k]!r}"))
    if R["spec_point_size"] != rh["point_size"]:
        out.append(("header point_size", f"record length in the header {rh['point_size']}, specification {R['spec_point_size']} for format {rh['format']} + extra bytes {R['ebs']}"))
    for k, v, cnt in R["legacy_bad"]:
        out.append((f"header legacy {k.split('[')[0]}", f"LAS 1.4 header, point format {rh['format']}: legacy field {k} = {v} while the file's {k} = {cnt}: "
                    + ("the specification says it must be zero for point formats 6-10" if rh["format"] >= 6 else "must be zero or the count (when it fits 32 bits)")))
    if rh["file_len"] != rh["expected_len"]:
        out.append(("file length", f"file of {rh['file_len']} bytes; header + VLRs + {rh['point_count']} records of {rh['point_size']} bytes + EVLRs end at {rh['expected_len']}"))
    if any(x != "0000" for x in R["vlr_reserved"]):
        out.append(("vlr reserved", f"{R['vlr_reserved']}"))
    for nm, a, b, kb in (("vlr", case["vlrs"], R["vlrs"], R["known"]), ("evlr", case["evlrs"], R["evlrs"], R["eknown"])):
        if len(a) != len(b):
            out.append((f"{nm} count", f"assigned {len(a)}, decoder read {len(b)}"))
        for j, (x, y) in enumerate(zip(a, b)):
            for f_, xa, ya in zip(("user_id", "record_id", "description", "payload"), x, y):
                if xa != ya and xa is not None:
                    out.append((f"{nm} {f_}", f"{nm} {j}: assigned {str(xa)[:70]!r}, decoder read {len(ya) // 2 if f_ == 'payload' else ''} {str(ya)[:70]!r}"))
        # the contents of the records the specification lays out: the values the caller gave (to laspy's class, or as bytes in
        # the specification's form), as the decoder finds them
        for j, (e, g) in enumerate(zip(known_views(PyRef(), a), kb)):
            if e != g:
                out.append((f"{nm} known-record values", f"{nm} {j} ({a[j][0]}, {a[j][1]}): assigned {str(e)[:160]}, decoder read {str(g)[:160]}"))
    if len(R["descriptors"]) != len(case["extra_dims"]):
        out.append(("extra-bytes descriptor count", f"assigned {len(case['extra_dims'])}, decoder read {len(R['descriptors'])}"))
    for j, (d, r) in enumerate(zip(case["extra_dims"], R["descriptors"])):
        kind, cnt = eb_elem(d["data_type"], d["nbytes"])
        e = {"data_type": d["data_type"], "options": d["nbytes"] if d["data_type"] == 0 else (24 if d["scaled"] else 0),
             "name": d["name"].encode(), "description": d["description"].encode(), "reserved": b"\0\0", "unused": bytes(4)}
        if d["scaled"]:
            for i in range(cnt):
                e[f"scale[{i}]"], e[f"offset[{i}]"] = d["scales"][i], d["offsets"][i]
        for k, ev in e.items():
            if r[k] != ev:
                out.append((f"extra-bytes descriptor {k}", f"dimension {j} ({type_str(d['data_type'], d['nbytes'])}): assigned {ev!r}, decoder read {r[k]!r}"))
    if out:
        return out
    pts = R["points"]
    if is_err(pts) or is_err(R["spec_point_size"]):
        return [("point records", f"decoder: {pts}")]
    if len(pts) != case["n"]:
        return [("point records", f"{case['n']} points assigned, {len(pts)} records of {R['spec_point_size']} bytes found")]
    leaves = py_leaves(case["format"], ebs)
    for i, (a, b) in enumerate(zip(case["points"], pts)):
        if a != b:
            for j, (x, y) in enumerate(zip(a, b)):
                if x != y:
                    out.append((f"point field {leaves[j][0] if not leaves[j][0][1:].isdigit() else 'extra:' + type_str(*_eb_of(case, leaves[j][0]))}",
                                f"point {i} {leaves[j][0]}: assigned {x}, decoder read {y}", i))
                    break
            if len(out) >= 3:
                break
    return out


def _eb_of(case, leaf):
    d = case["extra_dims"][int(leaf[1:])]
    return d["data_type"], d["nbytes"]


def compare_spec_writes(case, P, point_data=None, known=None):
    """case: what the reference encoder wrote; P: what laspy presents; point_data: the bytes of the file's point records"""
    if "error" in P:
        return [("laspy.read", P["error"])]
    out = []
    hd, ph = case["header"], P["header"]
    minor = int(case["version"][2])
    ebs = case_ebs(case)
    trailing = case.get("trailing", 0)
    for k in HDR_KEYS + ["maxs", "mins"]:
        exp = case["version"] if k == "version" else hd[k]
        if ph[k] != exp:
            out.append((f"header {k}", f"written {exp!r}, laspy presents {ph[k]!r}"))
    psize = py_size(case["format"], ebs)
    exp = {"format": case["format"], "point_size": psize, "point_count": case["n"], "n_points": case["n"], "by_return": hd["by_return"],
           "number_of_evlrs": len(case["evlrs"]) if minor >= 4 else 0}
    for k, e in exp.items():
        if ph[k] != e:
            out.append((f"header {k}", f"written {e!r}, laspy presents {ph[k]!r}"))
    for nm, a, b in (("vlr", case["vlrs"], P["vlrs"]), ("evlr", case["evlrs"], P["evlrs"])):
        if len(a) != len(b):
            out.append((f"{nm} count", f"written {len(a)}, laspy presents {len(b)}"))
        for j, (x, y) in enumerate(zip(a, b)):
            for f_, xa, ya in zip(("user_id", "record_id", "description", "payload"), x, y):
                if xa != ya:
                    out.append((f"{nm} {f_}", f"{nm} {j}: written {f'{len(xa) // 2} bytes ' if f_ == 'payload' else ''}{str(xa)[:70]!r}, "
                                f"laspy presents {f'{len(ya) // 2} bytes ' if f_ == 'payload' else ''}{str(ya)[:70]!r}"))
    # the records whose payload the specification lays out: the reference's reading of the payload against the contents laspy presents
    for nm, a, ex, got in (("vlr", case["vlrs"], (known or ([], []))[0], P.get("known", [])), ("evlr", case["evlrs"], (known or ([], []))[1], P.get("eknown", []))):
        for j, (e, g) in enumerate(zip(ex, got)):
            if e is not None and e != g:
                out.append((f"{nm} known-record values", f"{nm} {j} ({a[j][0]}, {a[j][1]}): written {str(e)[:160]}, laspy presents {str(g)[:160]}"))
    if len(P["extra_dims"]) != len(case["extra_dims"]) + (1 if trailing else 0):
        out.append(("extra-bytes descriptor count", f"written {len(case['extra_dims'])} descriptors and {trailing} undocumented bytes per record, "
                    f"laspy presents {len(P['extra_dims'])} extra dimensions: {[(p['name'], p['elem'], p['count']) for p in P['extra_dims']]}"))
    elif trailing:
        p = P["extra_dims"][-1]
        if (p["elem"], p["count"]) != ("u1", trailing):
            out.append(("undocumented extra bytes", f"{trailing} undocumented bytes per record, laspy presents {p['name']}: {p['count']} x {p['elem']}"))
    if P["resolved"][1] != psize:
        out.append(("record length", f"header says {psize}-byte records, laspy's point format is {P['resolved'][1]} bytes long"))
    if point_data is not None and P["record_bytes"] != point_data:
        out.append(("record bytes", f"the records laspy holds ({len(P['record_bytes'])} bytes) are not the {len(point_data)} bytes of point data of the file "
                    f"({case['n']} records of {psize} bytes)"))
    one, zero = lasio.f64bits(1.0), 0
    for j, (d, p) in enumerate(zip(case["extra_dims"], P["extra_dims"])):
        kind, cnt = eb_elem(d["data_type"], d["nbytes"])
        sc = d["scaled"] if d["data_type"] != 0 else 0
        e = {"name": d["name"], "description": d["description"], "elem": kind, "count": cnt,
             "scales": None if not sc else [d["scales"][i] if sc & 1 else one for i in range(cnt)],
             "offsets": None if not sc else [d["offsets"][i] if sc & 2 else zero for i in range(cnt)]}
        for k, ev in e.items():
            if p[k] != ev:
                out.append((f"extra-bytes descriptor {k}", f"dimension {j} (data_type {d['data_type']}, options scale={sc & 1} offset={sc >> 1}): written {ev!r}, laspy presents {p[k]!r}"))
    if out:
        return out
    leaves = py_leaves(case["format"], ebs)
    for i, (a, b) in enumerate(zip(case["points"], P["points"])):
        if a != b:
            for j, (x, y) in enumerate(zip(a, b)):
                if x != y:
                    out.append((f"point field {leaves[j][0] if not leaves[j][0][1:].isdigit() else 'extra:' + type_str(*_eb_of(case, leaves[j][0]))}",
                                f"point {i} {leaves[j][0]}: written {x}, laspy presents {y}", i))
                    break
            if len(out) >= 3:
                break
    # the scaled view of a scaled extra dimension is raw * scale + offset in binary64
    for j, bits in P["scaled"].items():
        d = case["extra_dims"][int(leaves[j][0][1:])]
        k = sum(1 for q in range(j) if leaves[q][0] == leaves[j][0])
        s = lasio.bits_f64(d["scales"][k]) if d["scaled"] & 1 else 1.0
        o = lasio.bits_f64(d["offsets"][k]) if d["scaled"] & 2 else 0.0
        for i, pt in enumerate(case["points"]):
            e = lasio.f64bits(float(np.float64(pt[j]) * np.float64(s) + np.float64(o)))
            if bits[i] != e and not (e & 0x7FF0000000000000 == 0x7FF0000000000000 and bits[i] & 0x7FF0000000000000 == 0x7FF0000000000000):
                out.append(("scaled extra dimension value", f"point {i} {d['name']}: raw {pt[j]} scale {s} offset {o}: expected bits {e:#x}, laspy presents {bits[i]:#x}", i))
                break
    return out


# ---------------------------------------------------------------------------------------------------
# the two directions over a list of cases
# ---------------------------------------------------------------------------------------------------
_CACHE = {}


def laspy_written(cases):
    """laspy output per case (computed once per run, shared by the correspondence and the search)"""
    out = []
    for c in cases:
        key = ("w", c["id"], c["version"], c["format"], c["n"])
        if key not in _CACHE:
            try:
                _CACHE[key] = laspy_write(c)
            except Exception as ex:
                _CACHE[key] = ({"error": f"laspy refused the assignment / write: {common.exc_kind(ex)}: {str(ex)[:200]}"}, None)
        out.append(_CACHE[key])
    return out


def run_laspy_writes(ref, cases):
    """-> per case list of mismatches"""
    W = laspy_written(cases)
    ok = [i for i, w in enumerate(W) if not isinstance(w[0], dict)]
    dec = spec_decode_files(ref, [W[i][0] for i in ok])
    res = [None] * len(cases)
    for i, w in enumerate(W):
        if isinstance(w[0], dict):
            res[i] = [("laspy write", w[0]["error"])]
    for i, R in zip(ok, dec):
        res[i] = compare_laspy_writes(cases[i], W[i][1], R)
        if R.get("gen_differs"):
            res[i].append(("gen-layout codec differs from the specification codec", "gdec != dec"))
    return res


def _finite(bits):
    return bits & 0x7FF0000000000000 != 0x7FF0000000000000


def compare_file(case, R, label="re-written file: ", exact_len=True, verbs=("read", "written back")):
    """case: what the reference encoder wrote, laspy read and wrote again; R: what the reference decoder reads in laspy's file.
    Header statistics and dates are laspy's own business on a write (C03 / C07): compared are the record layout, the
    descriptors, the VLRs and every point value."""
    if "error" in R:
        return [(label + "structure", R["error"])]
    rd, wr = verbs
    out = []
    ebs = case_ebs(case)
    rh = R["header"]
    exp = {"format": case["format"], "point_size": py_size(case["format"], ebs), "point_count": case["n"], "version": case["version"]}
    for k, e in exp.items():
        if rh[k] != e:
            out.append((label + f"header {k}", f"{rd} {e!r}, {wr} {rh[k]!r}"))
    if R["trailing"] != case.get("trailing", 0):
        out.append((label + "undocumented extra bytes", f"{rd} {case.get('trailing', 0)} per record, {wr} {R['trailing']}"))
    if rh["file_len"] != rh["expected_len"] if exact_len else rh["file_len"] < rh["expected_len"]:
        out.append((label + "file length", f"file of {rh['file_len']} bytes; header + VLRs + {rh['point_count']} records of {rh['point_size']} bytes + EVLRs end at {rh['expected_len']}"))
    for k, v, cnt in R["legacy_bad"]:
        out.append((label + f"header legacy {k.split('[')[0]}", f"point format {rh['format']}: legacy field {k} = {v}, {k} = {cnt}"))
    for nm, a, b in (("vlr", case["vlrs"], R["vlrs"]), ("evlr", case["evlrs"], R["evlrs"])):
        if len(a) != len(b):
            out.append((label + f"{nm} count", f"{rd} {len(a)}, {wr} {len(b)}"))
        for j, (x, y) in enumerate(zip(a, b)):
            for f_, xa, ya in zip(("user_id", "record_id", "description", "payload"), x, y):
                if xa != ya:
                    out.append((label + f"{nm} {f_}", f"{nm} {j}: read {f'{len(xa) // 2} bytes ' if f_ == 'payload' else ''}{str(xa)[:70]!r}, "
                                f"{wr} {f'{len(ya) // 2} bytes ' if f_ == 'payload' else ''}{str(ya)[:70]!r}"))
        for j, (e, g) in enumerate(zip(known_views(PyRef(), a), R.get("known" if nm == "vlr" else "eknown", []))):
            if e != g:
                out.append((label + f"{nm} known-record values", f"{nm} {j} ({a[j][0]}, {a[j][1]}): {rd} {str(e)[:160]}, {wr} {str(g)[:160]}"))
    if len(R["descriptors"]) != len(case["extra_dims"]):
        out.append((label + "extra-bytes descriptor count", f"{rd} {len(case['extra_dims'])}, {wr} {len(R['descriptors'])}"))
    for j, (d, r) in enumerate(zip(case["extra_dims"], R["descriptors"])):
        kind, cnt = eb_elem(d["data_type"], d["nbytes"])
        sc = d["scaled"] if d["data_type"] != 0 else 0
        e = {"data_type": d["data_type"], "name": d["name"].encode()}
        if d["data_type"] == 0:
            e["options"] = d["nbytes"]
        for i in range(cnt if sc else 0):
            if sc & 1:
                e[f"scale[{i}]"] = d["scales"][i]
            if sc & 2:
                e[f"offset[{i}]"] = d["offsets"][i]
        for k, ev in e.items():
            if r[k] != ev:
                out.append((label + f"extra-bytes descriptor {k}", f"dimension {j}: read {ev!r}, {wr} {r[k]!r}"))
        if d["data_type"] != 0 and (r["options"] >> 3) & 3 != sc:
            out.append((label + "extra-bytes descriptor options", f"dimension {j}: scale/offset bits {rd} {sc}, {wr} options {r['options']}"))
    if out:
        return out
    pts = R["points"]
    if is_err(pts) or len(pts) != case["n"]:
        return [(label + "point records", f"{case['n']} points {rd}, decoder: {str(pts)[:100]}")]
    leaves = py_leaves(case["format"], ebs)
    for i, (a, b) in enumerate(zip(case["points"], pts)):
        if a != b:
            for j, (x, y) in enumerate(zip(a, b)):
                if x != y:
                    nm = leaves[j][0]
                    out.append((label + f"point field {nm if not (nm[0] == 'e' and nm[1:].isdigit()) else 'extra:' + type_str(*_eb_of(case, nm))}",
                                f"point {i} {nm}: {rd} {x}, {wr} {y}", i))
                    break
            if len(out) >= 3:
                break
    return out


def compare_rewrite(case, R):
    return compare_file(case, R)


def run_spec_writes(ref, cases, files=None):
    files = files if files is not None else spec_encode_files(ref, cases)
    res, again = [], []
    kv = known_views_many(ref, [c["vlrs"] for c in cases] + [c["evlrs"] for c in cases])
    for ci, (c, f) in enumerate(zip(cases, files)):
        if isinstance(f, dict):
            res.append([("reference encoder", f["error"])])
            continue
        try:
            P = laspy_present(f, c)
        except Exception as ex:
            P = {"error": f"{common.exc_kind(ex)}: {str(ex)[:200]}"}
        off = int.from_bytes(f[96:100], "little")
        res.append(compare_spec_writes(c, P, f[off:off + c["n"] * py_size(c["format"], case_ebs(c))],
                                       known=(kv[ci], kv[len(cases) + ci])))
        if "error" not in P and all(_finite(b) for b in c["header"]["scales"] + c["header"]["offsets"]):
            # (a NaN or infinite scale factor has no meaning: laspy's writer is not asked to reproduce such a header)
            if isinstance(P["rewritten"], dict):
                res[-1].append(("re-written file: laspy write", P["rewritten"]["error"]))
            else:
                again.append((len(res) - 1, c, P["rewritten"]))
    # laspy writes what it presents: the files laspy wrote from what it read, through the reference decoder
    for (k, c, _), R in zip(again, spec_decode_files(ref, [b for _, _, b in again])):
        res[k] += compare_rewrite(c, R)
        if R.get("gen_differs"):
            res[k].append(("gen-layout codec differs from the specification codec", "gdec != dec"))
    return res, files


def reduce_case(case, point):
    c = dict(case)
    if point is not None and case["n"] > 1:
        c["points"] = [case["points"][point]]
        c["n"] = 1
        c["id"] = f"{case['id']}.p{point}"
    return c


def finding(direction, case, mm, ref, tag):
    """one mismatch -> dict for the report; tries to shrink to the single offending point (with the python reference)"""
    cls, detail = mm[0], mm[1]
    point = mm[2] if len(mm) > 2 else None
    small = case
    if point is not None:
        cand = reduce_case(case, point)
        try:
            again = (run_laspy_writes(PyRef(), [cand])[0] if direction == "laspy-writes" else run_spec_writes(PyRef(), [cand])[0][0])
            if any(m[0] == cls for m in again):
                small, detail = cand, [m for m in again if m[0] == cls][0][1]
        except Exception:
            pass
    d = {"kind": f"{direction}: {cls}", "input": {"direction": direction, "case": small}}
    d[tag] = detail
    return d


def sample_of(direction, c):
    return {"direction": direction, "version": c["version"], "format": c["format"], "points": c["n"],
            "extra_dims": [type_str(d["data_type"], d["nbytes"]) + ("*scaled" if d["scaled"] else "") for d in c["extra_dims"]],
            "vlrs": len(c["vlrs"]), "evlrs": len(c["evlrs"]), "first_point": c["points"][0][:8] if c["points"] else [],
            "written_through": c.get("path"), "undocumented_trailing_bytes": c.get("trailing", 0)}


# ---------------------------------------------------------------------------------------------------
# the classification lookup table as laspy's class builds it from a payload (model: lookup_parse)
# ---------------------------------------------------------------------------------------------------
def lookup_inputs(ctx, cases):
    rng = ctx.rng
    out = [bytes.fromhex(x[3]) for c in cases for x in c["vlrs"] + c["evlrs"] if known_kind(x[0], x[1]) == "lookup"]
    for _ in range(ctx.n(30, 400)):
        k = rng.choice([0, 1, 2, 5, 40])
        recs = []
        for _ in range(k):
            c = rng.choice([0, 1, 255, rng.randrange(256)] + [r[0] for r in recs[:3]])     # class numbers may repeat
            d = bytes(rng.choice([0, 0, 65, 66, 122, rng.randrange(1, 128)]) for _ in range(15)) if rng.random() < 0.4 \
                else lasio.rand_ascii(rng, rng.choice([0, 1, 14, 15])).encode().ljust(15, b"\0")
            recs.append(bytes([c]) + d)
        out.append(b"".join(recs) + bytes(rng.randrange(1, 256) for _ in range(rng.choice([0, 0, 0, 1, 15, 17]))))
    return out


def lookup_impl(payload):
    """laspy's table for a payload, in the model driver's vocabulary"""
    from laspy.vlrs.known import ClassificationLookupVlr
    v = ClassificationLookupVlr()
    try:
        v.parse_record_data(payload)
    except Exception:
        return "none"
    return "ok " + (";".join(f"{int(c)}:{common.hexb(d.encode('latin1'))}" for c, d in v.lookups.items()) or "-")


# ---------------------------------------------------------------------------------------------------
# which records a file has: (format, Extra Bytes VLR or none, record length of the header) in every relation to each other,
# including the files both sides must refuse
# ---------------------------------------------------------------------------------------------------
def resolve_inputs(ctx):
    rng = ctx.rng
    out = []
    desc_sets = [[], [3], [5, (0, 3)], [26, 1]]
    for fmt in [0, 1, 3, 6, 10] + [rng.randrange(11) for _ in range(ctx.n(2, 20))]:
        version = rng.choice([v for v in lasio.VERSIONS if fmt in lasio.COMPAT[v]])
        for ds in desc_sets:
            extra = []
            for i, dt in enumerate(ds):
                d = rand_extra_dims(rng, 1, False)[0]
                d.update(data_type=dt[0] if isinstance(dt, tuple) else dt, nbytes=dt[1] if isinstance(dt, tuple) else 0,
                         scaled=0, scales=[], offsets=[], flags=0, junk="", name=f"e{i}")
                extra.append(d)
            std, full = PY_SIZES[fmt], py_size(fmt, eb_pairs(extra))
            for hv in ([True, False] if ds else [False, True]):
                for ps in sorted({std - 1, std, std + 1, full - 1, full, full + 1, full + rng.choice([2, 17, 300])}):
                    out.append({"direction": "resolve", "version": version, "format": fmt, "extra_dims": extra if hv else [], "has_vlr": hv,
                                "point_size": ps, "n": rng.choice([0, 2, 3]), "seed": rng.randrange(1 << 30)})
    return out


def resolve_file(inp):
    """the file of a resolve input, built with the python transcription: header, the Extra Bytes VLR (if any), n records of
    point_size arbitrary bytes"""
    import random
    rng = random.Random(inp["seed"])
    c = make_case(rng, inp["version"], inp["format"], 0, 0, False, "resolve")
    c.update(extra_dims=inp["extra_dims"], vlrs=[], evlrs=[], tail="", gap="")
    c["header"].update(extra_header_bytes="", extra_vlr_bytes="")
    if inp["has_vlr"] and not inp["extra_dims"]:
        # an Extra Bytes VLR without descriptors
        c["vlrs"] = [["LASF_Spec", 4, "Extra Bytes Record", ""]]
    f = spec_encode_files(PyRef(), [c])[0]
    if isinstance(f, dict):
        raise RuntimeError(f["error"])
    n, ps = inp["n"], inp["point_size"]
    f = bytearray(f)
    f[105:107] = ps.to_bytes(2, "little")
    f[107:111] = n.to_bytes(4, "little")
    if inp["version"] == "1.4":
        f[247:255] = n.to_bytes(8, "little")
    data = bytes(rng.randrange(256) for _ in range(n * ps))
    return bytes(f) + data, data


def resolve_impl(inp):
    """what laspy makes of the file: ('ok', leaves, record length, records are the file's bytes) | ('err', kind)"""
    import laspy
    f, data = resolve_file(inp)
    try:
        las = laspy.read(io.BytesIO(f))
    except Exception as ex:
        return ("err", common.exc_kind(ex), str(ex)[:120])
    pf = las.point_format
    return ("ok", int(sum(int(d.num_elements) for d in pf.dimensions)), int(pf.size), len(las.points), bytes(las.points.memoryview()) == data)


def resolve_oracle(inp):
    """the property on the implementation: the header's record length delimits the records. A file whose records can hold the
    format and what the VLR describes must be read, in records of that length, byte for byte; no file may be read with records
    of another length."""
    std = PY_SIZES[inp["format"]]
    d = py_size(inp["format"], eb_pairs(inp["extra_dims"])) - std
    ps, hv = inp["point_size"], inp["has_vlr"]
    readable = (ps >= std + d) if (hv and ps != std) else ps >= std
    r = resolve_impl(inp)
    if r[0] == "err":
        return f"laspy refuses the file ({r[1]}: {r[2]}): format {inp['format']} needs {std} bytes, the VLR describes {d}, records are {ps} bytes" if readable else None
    if r[2] != ps or r[3] != inp["n"] or not r[4]:
        return (f"header says {inp['n']} records of {ps} bytes (format {inp['format']}: {std}, described by the VLR: {d if hv else 'no VLR'}); "
                f"laspy reads {r[3]} records of {r[2]} bytes, identical to the file's: {r[4]}")
    return None


# ---------------------------------------------------------------------------------------------------
# sessions: a file of another producer (built by a reference encoder: padding or waveform data packets after the last point,
# unused bytes before the EVLRs, extra bytes in header and VLR area, undocumented bytes in every record) goes through one of
# laspy's routes that write point records into / next to existing ones; the reference decoder then reads the result
# ---------------------------------------------------------------------------------------------------
ROUTES = ["append", "mmap", "copy", "edit"]
TAILS = ["none", "tail", "waveform", "evlrs", "gap", "evlrs+tail"]
EVLR_EDITS = ["clear", "rebind", "del-slice", "pop-all", "keep-first"]     # copy route: anything but keep-first = the writer is given no EVLR


def make_session(rng, version, fmt, route, tailkind, idx, evlr_edit=None):
    minor = int(version[2])
    n = rng.choice([0, 1, 2, 5, 9]) if route in ("append", "copy") else rng.choice([1, 2, 5, 9])
    trailing = rng.choice([0, 0, 0, 3])
    base = make_case(rng, version, fmt, n, rng.choice([0, 0, 1, 2]), False, f"s{idx}", trailing=trailing, finite=True,
                     force_scaled=rng.random() < 0.3)
    base.pop("tail", None)
    base.pop("gap", None)
    # (whole columns are assigned again on some routes: the stored integers of scaled extra dimensions must survive the scaled view)
    base["points"] = gen_points(rng, fmt, base["extra_dims"], trailing, n, True)
    hd = base["header"]
    hd["by_return"] = [0] * len(hd["by_return"])
    hd["maxs"] = [lasio.f64bits(rng.uniform(0, 1e6)) for _ in range(3)]
    hd["mins"] = [lasio.f64bits(-rng.uniform(0, 1e6)) for _ in range(3)]
    if hd["creation"] is None:
        hd["creation"] = [2020, 1]
    if tailkind in ("waveform",) and minor < 3:
        tailkind = "tail"
    if tailkind in ("evlrs", "gap", "evlrs+tail") and minor < 4:
        tailkind = "tail"
    rb = lambda k: bytes(rng.randrange(256) for _ in range(k)).hex()
    if tailkind in ("none", "tail", "waveform"):
        base["evlrs"] = []
    elif not base["evlrs"]:
        base["evlrs"] = rand_vlrs(rng, rng.choice([1, 2]))
    if tailkind in ("tail", "evlrs+tail"):
        # fewer / as many / more bytes than the records that will be written
        base["tail"] = rb(rng.choice([1, 13, 28, 57, 200, 1000]))
    if tailkind == "waveform":
        # LAS 1.3+: waveform data packets stored in the file after the points ("internal", global encoding bit 1)
        hd["global_encoding"] |= 2
        base["tail"] = rb(60 + 16 * max(n, 1))
        hd["start_of_waveform"] = None          # = end of the point records: filled in by session_original
    if tailkind == "gap":
        base["gap"] = rb(rng.choice([1, 3, 30, 200]))
    sess = {"id": f"s{idx}", "route": route, "tailkind": tailkind, "base": base,
            "entry": rng.choice(["open", "class", "path", "fileobj"]), "record": rng.choice(["scaleaware", "packed"])}
    # read + edit + write / reader -> writer: the caller confirms (assigns again, by name) every header attribute laspy presents
    sess["confirm"] = route in ("edit", "copy") and rng.random() < 0.6
    ex = base["extra_dims"]
    if route == "append":
        sess["chunks"] = [gen_points(rng, fmt, ex, trailing, m, True) for m in rng.choice([[1], [3], [2, 0, 1], [0], [4, 1], [7]])]
    elif route in ("mmap", "edit"):
        how = rng.choice(["indexed", "column", "slice"])
        if how == "slice":
            a, st = rng.randrange(n), rng.choice([1, 2, 3])
            sel = list(range(a, n, st))
            sess["slice"] = [a, n, st]
        else:
            sel = sorted(rng.sample(range(n), rng.randrange(1, n + 1)))
        sess["how"], sess["sel"], sess["index_as"] = how, sel, rng.choice(["array", "list"])
        sess["points"] = gen_points(rng, fmt, ex, trailing, len(sel), True)
    else:
        sess["chunk_size"] = rng.choice([1, 2, 3, 100])
    # read + edit + write / reader -> writer: the caller does not pass on everything the file had — the EVLRs are removed
    # (cleared in place / the list re-bound / deleted by slice / the writer is not given any) or only the first one is kept: the
    # new file must announce what it has, not what the file the header came from had
    if route in ("edit", "copy") and base["evlrs"] and (evlr_edit is not None or rng.random() < 0.4):
        sess["evlr_edit"] = evlr_edit or rng.choice(EVLR_EDITS)
    # read + edit + write: the caller keeps only the first m points (las.points = las.points[:m]): every count and offset of the
    # new file follows the records it has
    if route == "edit" and rng.random() < (0.5 if evlr_edit else 0.25):
        sess["keep_points"] = rng.choice([0, 1, n - 1, rng.randrange(n + 1)])
    return sess


def make_sessions(ctx):
    rng = ctx.rng
    pairs = [(v, f) for v in lasio.VERSIONS for f in lasio.COMPAT[v]]
    out = []
    for j, (v, f) in enumerate(pairs):
        # every (version, format): one append session, the kinds of foreign bytes in turn; one of the other routes in turn
        out.append(make_session(rng, v, f, "append", TAILS[1 + (j + ctx.seed) % 5], len(out)))
        out.append(make_session(rng, v, f, ROUTES[1 + (j + ctx.seed) % 3], TAILS[(j // 3 + ctx.seed) % 6], len(out)))
    for _ in range(ctx.n(24, 800)):
        v, f = rng.choice(pairs)
        out.append(make_session(rng, v, f, rng.choice(ROUTES + ["append"]), rng.choice(TAILS), len(out)))
    # every way of not passing on the EVLRs of the file, through read + edit + write and through reader -> writer
    for j, ed in enumerate(EVLR_EDITS):
        for route in ("edit", "copy"):
            out.append(make_session(rng, "1.4", rng.choice(lasio.COMPAT["1.4"]), route, ["evlrs", "gap", "evlrs+tail"][(j + ctx.seed) % 3], len(out), evlr_edit=ed))
    return out


def session_base(sess):
    """the case of the original file: the waveform pointer of an 'internal waveform' file is the end of its point records"""
    base = sess["base"]
    if base["header"]["start_of_waveform"] is None:
        base = dict(base, header=dict(base["header"]))
        minor = int(base["version"][2])
        ebs = case_ebs(base)
        vb = sum(54 + len(p) // 2 for _, _, _, p in base["vlrs"]) + ((54 + 192 * len(base["extra_dims"])) if base["extra_dims"] else 0)
        off = HS[minor] + len(base["header"]["extra_header_bytes"]) // 2 + vb + len(base["header"]["extra_vlr_bytes"]) // 2
        base["header"]["start_of_waveform"] = off + base["n"] * py_size(base["format"], ebs)
    return base


def session_expected(sess):
    base = session_base(sess)
    pts = [list(p) for p in base["points"]]
    if sess["route"] == "append":
        for ch in sess["chunks"]:
            pts += ch
    elif sess["route"] in ("mmap", "edit"):
        for i, p in zip(sess["sel"], sess["points"]):
            pts[i] = list(p)
    if sess.get("keep_points") is not None:
        pts = pts[:sess["keep_points"]]
    if sess.get("evlr_edit"):
        base = dict(base, evlrs=base["evlrs"][:1] if sess["evlr_edit"] == "keep-first" else [])
    return dict(base, points=pts, n=len(pts))


def assign_points(target, case, points, sel=None):
    """values (leaf order of the case) -> target[dimension] (sel None: whole columns) or target[dimension][sel]: through the
    named dimensions of the file's point format, extra dimensions by position"""
    ebs = case_ebs(case)
    leaves = py_leaves(case["format"], ebs)
    cols = {}
    for j, (name, kind) in enumerate(leaves):
        cols.setdefault(name, []).append((kind, [p[j] for p in points]))
    extra = list(target.point_format.extra_dimensions)
    for name, parts in cols.items():
        if name == TRAIL_NAME or (name.startswith("e") and name[1:].isdigit()):
            i = len(case["extra_dims"]) if name == TRAIL_NAME else int(name[1:])
            dname = extra[i].name
            arrs = [np_column(k, v) for k, v in parts]
            d = case["extra_dims"][i] if name != TRAIL_NAME else None
            if d is not None and d["scaled"] and d["data_type"] != 0:
                sc = [lasio.bits_f64(b) if d["scaled"] & 1 else 1.0 for b in d["scales"]]
                of = [lasio.bits_f64(b) if d["scaled"] & 2 else 0.0 for b in d["offsets"]]
                arrs = [np.array(v, dtype=np.float64) * sc[q] + of[q] for q, (k, v) in enumerate(parts)]
            val = arrs[0] if len(arrs) == 1 and eb_elem(*ebs[i])[1] == 1 and ebs[i][0] != TRAIL and ebs[i][0] != 0 else np.stack(arrs, axis=1)
            if val.ndim == 2 and val.shape[1] == 1 and int(extra[i].num_elements) == 1:
                val = val[:, 0]
        else:
            dname, val = name, np_column(*parts[0])
        if sel is None:
            target[dname] = val
        else:
            target[dname][sel] = val


def confirm_header(h):
    """the caller restates what the header of a file says: every named attribute is assigned the value it presents"""
    ge = h.global_encoding
    for name, _ in GE_FLAGS:
        setattr(ge, name, getattr(ge, name))
    for name in ("file_source_id", "uuid", "system_identifier", "generating_software", "x_scale", "y_scale", "z_scale",
                 "x_offset", "y_offset", "z_offset"):
        setattr(h, name, getattr(h, name))


def session_run(sess, original):
    """the laspy side of a session -> bytes of the resulting file"""
    import laspy
    from laspy.lasappender import LasAppender
    from laspy.vlrs.vlrlist import VLRList
    base = session_base(sess)
    route = sess["route"]
    kind = {"open": "bytesio", "class": "bytesio", "path": "path", "fileobj": "fileobj"}[sess["entry"]]
    if route == "mmap":
        kind = "path"
    dest = Dest(kind, sess["id"])
    try:
        if route == "append":
            dest.preload(original)
            ap = LasAppender(dest.target(), closefd=False) if sess["entry"] == "class" else laspy.open(dest.target(), mode="a", **dest.kw())
            with ap:
                for ch in sess["chunks"]:
                    m = len(ch)
                    rec = (laspy.ScaleAwarePointRecord.zeros(m, header=ap.header) if sess["record"] == "scaleaware"
                           else laspy.PackedPointRecord.zeros(m, ap.header.point_format))
                    if m:
                        assign_points(rec, base, ch)
                    ap.append_points(rec)
            return dest.value()
        if route == "mmap":
            dest.preload(original)
            with laspy.mmap(dest.path) as las:
                _session_edit(las, sess, base)
            return dest.value()
        if route == "edit":
            las = laspy.read(io.BytesIO(original))
            if sess.get("confirm"):
                confirm_header(las.header)
            _session_edit(las, sess, base)
            if sess.get("keep_points") is not None:
                las.points = las.points[:sess["keep_points"]]
            ed = sess.get("evlr_edit")
            if ed == "clear":
                las.evlrs.clear()
            elif ed == "rebind":
                las.evlrs = VLRList()
            elif ed == "del-slice":
                del las.evlrs[:]
            elif ed == "pop-all":
                while len(las.evlrs):
                    las.evlrs.pop()
            elif ed == "keep-first":
                las.evlrs = VLRList(list(las.evlrs)[:1])
            las.write(dest.target())
            return dest.value()
        # copy: reader -> writer, chunk by chunk
        src = Dest("path" if sess["entry"] in ("path", "fileobj") else "bytesio", sess["id"] + "src")
        try:
            src.preload(original)
            with laspy.open(src.target()) as rd:
                if sess.get("confirm"):
                    confirm_header(rd.header)
                with laspy.open(dest.target(), mode="w", header=rd.header, **dest.kw()) as w:
                    for pts in rd.chunk_iterator(sess["chunk_size"]):
                        w.write_points(pts)
                    ed = sess.get("evlr_edit")
                    if ed == "keep-first":
                        w.write_evlrs(VLRList(list(rd.evlrs)[:1]))
                    elif rd.evlrs and not ed:
                        w.write_evlrs(rd.evlrs)
            return dest.value()
        finally:
            src.close()
    finally:
        dest.close()


def _session_edit(las, sess, base):
    how, sel = sess["how"], sess["sel"]
    if how == "column":
        # whole columns: the file's values with the selected points replaced
        pts = session_expected({k: v for k, v in sess.items() if k != "keep_points"})["points"]
        assign_points(las, base, pts)
    elif how == "slice":
        a, b, st = sess["slice"]
        assign_points(las, base, sess["points"], slice(a, b, st))
    else:
        assign_points(las, base, sess["points"], np.array(sel) if sess.get("index_as") == "array" else list(sel))


_SESSION_OUT = {}


def model_sessions(sessions, io_):
    """the model of the in-place routes (Model/RecordPlace.v: append_session over Gen/GenC02.v append_start, edit_record) against
    laspy: the records encoded by the laspy-layout encoder of the model, written where the model says, must be the bytes laspy's
    file has from offset_to_point_data to the end of its records (append) / the whole file (memory map) -> disagreements"""
    ref = ModelRef()
    todo = [s for s in sessions if s["id"] in io_ and s["route"] in ("append", "mmap")]
    reqs = []
    for s in todo:
        base = session_base(s)
        pts = [p for ch in s["chunks"] for p in ch] if s["route"] == "append" else s["points"]
        reqs.append(("genc", base["format"], case_ebs(base), pts))
    encs = ref.batch(reqs)
    lines, live = [], []
    for s, e in zip(todo, encs):
        original, result, R0 = io_[s["id"]]
        h = R0["header"]
        ps = h["point_size"]
        if is_err(e) or len(e) % ps:
            continue
        recs = [e[i:i + ps] for i in range(0, len(e), ps)]
        if s["route"] == "append":
            chunks, q = [], 0
            for ch in s["chunks"]:
                chunks.append(b"".join(recs[q:q + len(ch)]))
                q += len(ch)
            lines.append(f"append {h['offset_to_point_data']} {h['point_count']} {ps} {int(h['version'][2])} {h['number_of_evlrs']} "
                         f"{h['start_of_first_evlr']} {common.hexb(original)} " + ";".join(common.hexb(c) for c in chunks))
        else:
            lines.append(f"edits {h['offset_to_point_data']} {ps} {common.hexb(original)} " + ";".join(f"{i}:{common.hexb(r)}" for i, r in zip(s["sel"], recs)))
        live.append((s, len(recs)))
    dis = []
    for (s, k), o in zip(live, common.run_model(lines, name="c02")):
        original, result, R0 = io_[s["id"]]
        h = R0["header"]
        if not o.startswith("x"):
            dis.append({"kind": f"session {s['route']}: model", "input": {"direction": "session", "session": s}, "model": o[:200], "impl": "a file"})
            continue
        m = common.unhex(o)
        if s["route"] == "append":
            a, b = h["offset_to_point_data"], h["offset_to_point_data"] + (h["point_count"] + k) * h["point_size"]
            same = m[:b][a:] == result[:b][a:] and m[HS[int(h["version"][2])]:a] == result[HS[int(h["version"][2])]:a]
            what = f"bytes {a}..{b} (the point records) and the VLR area"
        else:
            same, what = m == result, "the whole file"
        if not same:
            dis.append({"kind": f"session {s['route']}: where the records are written", "input": {"direction": "session", "session": s},
                        "model": f"{what}: {len(m)} bytes, records at offset_to_point_data + i * record_length", "impl": f"{len(result)} bytes, different there"})
    return dis


def model_writer_sessions(sessions, io_):
    """the model of a header between two files (Model/RecordPlace.v writer_evlr_fields over Gen/GenC02.v partial_reset_evlrs /
    write_evlrs_fields, translated from LasHeader.partial_reset / LasWriter.write_evlrs): the EVLR fields the new file's header
    announces, given the fields the header had when it was read and the number of EVLRs the writer was given -> disagreements"""
    todo = [s for s in sessions if s["id"] in io_ and s["route"] in ("edit", "copy")]
    lines, impl = ["pf_sync"], []
    for s in todo:
        original, result, R0 = io_[s["id"]]
        minor = int(R0["header"]["version"][2])
        k = len(session_expected(s)["evlrs"])
        if s["route"] == "edit":
            given = k if minor >= 4 else None           # LasData.write hands its EVLR list (an empty one too) to the writer of a 1.4 file
        else:
            given = k if k else None
        d = dict(py_dec_fields(py_hdr_layout(minor), result[:HS[minor]])[0]) if len(result) >= HS[minor] else None
        if not isinstance(d, dict):
            impl.append("no header")
            lines.append("pf_sync")
            continue
        end = d["offset_to_point_data"] + d["point_count"] * d["point_size"]
        lines.append(f"wevlr {minor} {R0['header']['start_of_first_evlr']} {R0['header']['number_of_evlrs']} {end} {'-' if given is None else given}")
        impl.append(f"ok {d.get('start_of_first_evlr', 0)} {d.get('number_of_evlrs', 0)}")
    outs = common.run_model(lines, name="c02")
    dis = []
    if outs[0] != "T":
        dis.append({"kind": "header: a method that binds the point format does not rebuild the Extra Bytes VLR", "input": {"direction": "translated"},
                    "model": "point_format_writers_sync = " + outs[0], "impl": "see Gen/GenC02.v point_format_writers"})
    for s, o, i in zip(todo, outs[1:], impl):
        if i != "no header" and o != i:
            dis.append({"kind": f"session {s['route']}: EVLR fields of the written header", "input": {"direction": "session", "session": s},
                        "model": o, "impl": i})
    return dis


def run_sessions(ref, sessions, io_=None):
    """-> per session list of mismatches"""
    res = [[] for _ in sessions]
    originals = spec_encode_files(ref, [session_base(s) for s in sessions])
    outs, idx = [], []
    for k, (s, f) in enumerate(zip(sessions, originals)):
        if isinstance(f, dict):
            res[k].append(("reference encoder", f["error"]))
            continue
        key = (repr(s["id"]), f)
        if key not in _SESSION_OUT:
            try:
                _SESSION_OUT[key] = session_run(s, f)
            except Exception as ex:
                _SESSION_OUT[key] = {"error": f"{common.exc_kind(ex)}: {str(ex)[:200]}"}
        o = _SESSION_OUT[key]
        if isinstance(o, dict):
            res[k].append((f"session {s['route']}: laspy refused", o["error"]))
        else:
            outs.append(o)
            idx.append(k)
    dec = spec_decode_files(ref, outs + [originals[k] for k in idx])
    for q, k in enumerate(idx):
        if io_ is not None and "error" not in dec[len(idx) + q]:
            io_[sessions[k]["id"]] = (originals[k], outs[q], dec[len(idx) + q])
        res[k] += compare_session(sessions[k], originals[k], outs[q], dec[len(idx) + q], dec[q])
        if dec[q].get("gen_differs"):
            res[k].append(("gen-layout codec differs from the specification codec", "gdec != dec"))
    return res


SESSION_KEEPS = ["file_source_id", "global_encoding", "uuid", "version", "system_identifier", "scales", "offsets",
                 "extra_header_bytes", "extra_vlr_bytes", "header_size", "offset_to_point_data", "number_of_vlrs", "number_of_evlrs"]


def compare_session(sess, original, result, R0, R):
    """R0 / R: what the reference decoder reads in the original / in the file after the session"""
    route = sess["route"]
    label = f"session {route}: "
    if "error" in R0:
        return [("reference decoder on the reference encoder's file", R0["error"])]
    exp = session_expected(sess)
    in_place = route in ("append", "mmap")
    verbs = ("the file had / was given", "the decoder finds at offset_to_point_data + i * record_length")
    out = compare_file(exp, R, label, exact_len=not in_place, verbs=verbs)
    if "error" in R:
        # the decoder could not walk the file: say what the header block announces against what the file has
        minor = int(exp["version"][2])
        if minor >= 4 and len(result) >= HS[4]:
            d = dict(py_dec_fields(py_hdr_layout(4), result[:HS[4]])[0])
            if d["number_of_evlrs"] and d["start_of_first_evlr"] + 60 * d["number_of_evlrs"] > len(result):
                out.append((label + "header announces EVLRs the file does not have",
                            f"number_of_evlrs {d['number_of_evlrs']}, start_of_first_evlr {d['start_of_first_evlr']}; the file has {len(result)} bytes "
                            f"(the original had {R0['header']['number_of_evlrs']} EVLRs at {R0['header']['start_of_first_evlr']}; "
                            f"{len(exp['evlrs'])} were passed on)"))
        return out
    if in_place:
        # the file is still the producer's: its header block, VLR area and the bytes between them stay where and what they were
        for k in SESSION_KEEPS:
            if R["header"][k] != R0["header"][k]:
                out.append((label + f"header {k}", f"original file {R0['header'][k]!r}, after the session {R['header'][k]!r}"))
        off = R0["header"]["offset_to_point_data"]
        if result[HS[int(exp["version"][2])]:off] != original[HS[int(exp["version"][2])]:off]:
            out.append((label + "VLR area", "the bytes between the header block and the first point record changed"))
    if sess.get("confirm"):
        # what the caller confirmed by name is what the file said: the new file says the same
        for k in ("file_source_id", "global_encoding", "uuid", "system_identifier", "generating_software", "scales", "offsets"):
            if R["header"][k] != R0["header"][k]:
                out.append((label + f"header {k}", f"original file {R0['header'][k]!r}, confirmed through laspy's attribute, new file {R['header'][k]!r}"))
    if route == "mmap":
        n, ps = R0["header"]["point_count"], R0["header"]["point_size"]
        off = R0["header"]["offset_to_point_data"]
        if result[:off] != original[:off] or result[off + n * ps:] != original[off + n * ps:]:
            out.append((label + "bytes outside the point records", "changed by editing points through the memory map"))
    if route == "append" and R["header"]["number_of_evlrs"]:
        end = R["header"]["offset_to_point_data"] + R["header"]["point_count"] * R["header"]["point_size"]
        if R["header"]["start_of_first_evlr"] < end:
            out.append((label + "header start_of_first_evlr", f"{R['header']['start_of_first_evlr']}, inside the point records that end at {end}"))
    return out


def session_sample(s):
    b = s["base"]
    return {"direction": "session", "route": s["route"], "version": b["version"], "format": b["format"], "points in the file": b["n"],
            "after the points": s["tailkind"], "entry": s["entry"], "appended": [len(c) for c in s.get("chunks", [])],
            "edited": s.get("sel"), "evlrs": s.get("evlr_edit", "passed on"), "points kept": s.get("keep_points", "all"), "extra_dims": [type_str(d["data_type"], d["nbytes"]) for d in b["extra_dims"]],
            "undocumented_trailing_bytes": b.get("trailing", 0)}


def register_sessions(ctx, sessions):
    for s in sessions:
        b = s["base"]
        ctx.count("session")
        ctx.count(f"session route {s['route']}")
        ctx.count(f"session original: {s['tailkind']}")
        ctx.count(f"session entry {s['entry']}")
        if s.get("evlr_edit"):
            ctx.count(f"session {s['route']}: EVLRs of the file {s['evlr_edit']}")
        if s.get("keep_points") is not None:
            ctx.count("session edit: only the first points kept")
        k = sum(len(c) for c in s.get("chunks", [])) + len(s.get("sel", []))
        ctx.case(("session", s["route"], s["tailkind"], b["version"], b["format"], tuple(case_ebs(b)), b["header"]["uuid"], k),
                 nontrivial=k > 0 or b["n"] > 0, sample=session_sample(s))
        ctx.evaluations += (b["n"] + k) * len(py_leaves(b["format"], case_ebs(b)))
        ctx.traces += 1 + b["n"] + k


def session_finding(s, mm, tag):
    d = {"kind": mm[0], "input": {"direction": "session", "session": s}}
    d[tag] = mm[1]
    return d


# ---------------------------------------------------------------------------------------------------
# (v) records and headers from DIFFERENT sources: a header (an API-built one, one read from a file) that declares one list of
# extra dimensions meets a record whose own point format declares a variant of it — the same set in another order, two names
# exchanged, a type of equal size, other scales / offsets, another name / description, one dimension split in two, another point
# format padded to the same record length, or the header grew after the record was made from it. The record is handed over through
# every route that pairs the two (laspy.open(mode="w") / LasWriter.write_points, LasData(header, points=..), las.points = ..,
# laspy.open(mode="a") / LasAppender.append_points). laspy may refuse; what it accepts must be found by the specification decoder,
# under the descriptors OF THE FILE, with the values that were assigned through the record's named dimensions.
# ---------------------------------------------------------------------------------------------------
MIX_RELATIONS = ["same", "permuted", "swapped-names", "retyped", "rescaled", "renamed", "redescribed", "resplit", "other-format", "grown"]
MIX_ROUTES = ["open-w", "LasWriter", "LasData-init", "points-setter", "open-a", "LasAppender"]
MIX_SOURCES = ["packed-zeros", "scaleaware-zeros", "lasdata", "file-read", "file-chunks"]


def _eb_size(d):
    kind, cnt = eb_elem(d["data_type"], d["nbytes"])
    return int(kind[1:]) * cnt


def _same_size_types(d):
    """(data_type, nbytes) of every other type laspy can declare that takes as many bytes per point"""
    size = _eb_size(d)
    out = [(dt, 0) for dt in range(1, 31) if _eb_size({"data_type": dt, "nbytes": 0}) == size]
    if 3 < size < 256:
        out.append((0, size))
    return [t for t in out if t != (d["data_type"], d["nbytes"] if d["data_type"] == 0 else 0)]


def _set_type(rng, d, dt, nb, scaled=None):
    d.update(data_type=dt, nbytes=nb if dt == 0 else 0)
    kind, cnt = eb_elem(dt, nb)
    can = dt != 0 and kind[0] != "f"
    sc = (d["scaled"] if scaled is None else scaled) if can else 0
    d.update(scaled=3 if sc else 0, flags=0, junk="",
             scales=[lasio.f64bits(rng.choice(EXACT_SCALES)) for _ in range(cnt)] if sc else [],
             offsets=[lasio.f64bits(rng.choice(EXACT_OFFSETS)) for _ in range(cnt)] if sc else [])


def _pad_dims(rng, diff):
    """extra dimensions of diff bytes that stand where another point format has standard fields (named like them when they fit)"""
    mk = lambda name, dt, nb=0: {"data_type": dt, "nbytes": nb, "scaled": 0, "scales": [], "offsets": [], "name": name,
                                 "description": "", "flags": 0, "junk": ""}
    if diff == 8:
        return [mk("gps_time", 10)]
    if diff == 6:
        return [mk("red", 3), mk("green", 3), mk("blue", 3)]
    if diff == 2:
        return [mk("nir", 3)]
    if diff <= 3:
        return [mk("pad", [1, 11, 21][diff - 1])]
    if diff < 256:
        return [mk("pad", 0, diff)]
    return None


def make_mix(rng, idx, relation, route, source, header_src):
    import copy
    for _ in range(50):
        version, fa = rng.choice([(v, f) for v in lasio.VERSIONS for f in lasio.COMPAT[v]])
        k = rng.choice([2, 2, 3, 4]) if relation in ("permuted", "swapped-names") else rng.choice([1, 2, 3])
        A = rand_extra_dims(rng, k, True)
        for i, d in enumerate(A):
            d["name"] = f"e{i}" + rand_name(rng, rng.choice([0, 1, 5]))
        B, fb = copy.deepcopy(A), fa
        j = rng.randrange(k)
        if relation == "permuted":
            perm = list(range(k))
            while perm == list(range(k)):
                rng.shuffle(perm)
            B = [B[p] for p in perm]
        elif relation == "swapped-names":
            # two dimensions of one type exchange their names: the bytes line up, the names do not
            j2 = (j + 1) % k
            _set_type(rng, A[j2], A[j]["data_type"], A[j]["nbytes"], scaled=0)
            _set_type(rng, A[j], A[j]["data_type"], A[j]["nbytes"], scaled=0)
            B = copy.deepcopy(A)
            B[j]["name"], B[j2]["name"] = A[j2]["name"], A[j]["name"]
        elif relation == "retyped":
            others = _same_size_types(A[j])
            if not others:
                continue
            dt, nb = rng.choice(others)
            _set_type(rng, B[j], dt, nb)
        elif relation == "rescaled":
            if A[j]["data_type"] == 0 or eb_elem(A[j]["data_type"], 0)[0][0] == "f":
                _set_type(rng, A[j], rng.choice([3, 4, 5, 6, 13, 14, 24, 26]), 0)
                B = copy.deepcopy(A)
            if not A[j]["scaled"] or rng.random() < 0.7:
                # other scales or offsets (or scaled against plain)
                for _ in range(20):
                    _set_type(rng, B[j], B[j]["data_type"], 0, scaled=1)
                    if (B[j]["scales"], B[j]["offsets"]) != (A[j]["scales"], A[j]["offsets"]):
                        break
            else:
                _set_type(rng, B[j], B[j]["data_type"], 0, scaled=0)
        elif relation == "renamed":
            B[j]["name"] = A[j]["name"] + "x"
        elif relation == "redescribed":
            B[j]["description"] = (A[j]["description"] + "!")[-32:] if len(A[j]["description"]) < 32 else A[j]["description"][:-1]
        elif relation == "resplit":
            _set_type(rng, A[j], rng.choice([3, 4, 5, 6, 7, 8, 9, 10]), 0, scaled=0)
            B = copy.deepcopy(A)
            half = {2: [1, 2], 4: [3, 4], 8: [5, 6, 9]}[_eb_size(A[j])]
            lo, hi = copy.deepcopy(A[j]), copy.deepcopy(A[j])
            _set_type(rng, lo, rng.choice(half), 0, scaled=0)
            _set_type(rng, hi, rng.choice(half), 0, scaled=0)
            lo["name"], hi["name"] = A[j]["name"] + "l", A[j]["name"] + "h"
            B[j:j + 1] = [lo, hi]
        elif relation == "other-format":
            fb = rng.choice([f for f in lasio.COMPAT[version] if f != fa])
            diff = PY_SIZES[fa] - PY_SIZES[fb]
            pad = _pad_dims(rng, abs(diff))
            if pad is None:
                continue
            # (named like the other format's fields only where the receiving format has no field of that name)
            taken = {nm for nm, _ in PY_FORMATS[fb if diff > 0 else fa]} | {nm for nm, _ in py_leaves(fb if diff > 0 else fa, [])}
            for q, d in enumerate(pad):
                if d["name"] in taken:
                    d["name"] = f"pad{q}"
            if diff > 0:
                B = pad + B
            else:
                A = pad + A
        elif relation == "grown":
            B = B[:-1]
        if len({d["name"] for d in A}) != len(A) or len({d["name"] for d in B}) != len(B):
            continue
        break
    n0, n = rng.choice([0, 1, 3]), rng.choice([1, 2, 4, 5])
    if relation == "grown":
        source = rng.choice(["packed-zeros", "scaleaware-zeros", "lasdata"])
        header_src = "api"
    return {"id": f"m{idx}", "version": version, "format": fa, "format_b": fb, "dims_a": A, "dims_b": B, "relation": relation,
            "route": route, "source": source, "header_src": header_src, "chunk": rng.choice([1, 2, 3]),
            "scales": [lasio.f64bits(rng.choice([0.001, 0.01, 0.5, 1.0])) for _ in range(3)],
            "offsets": [lasio.f64bits(rng.choice([0.0, -1000.0, 123456.75])) for _ in range(3)],
            "n0": n0, "n": n, "points_a": gen_points(rng, fa, A, 0, n0, True), "points_b": gen_points(rng, fb, B, 0, n, True)}


def make_mixes(ctx):
    rng = ctx.rng
    out = []
    # every relation through every route (sources and kinds of header in turn), then random combinations
    for a, rel in enumerate(MIX_RELATIONS):
        for b, route in enumerate(MIX_ROUTES):
            out.append(make_mix(rng, len(out), rel, route, MIX_SOURCES[(a + b + ctx.seed) % len(MIX_SOURCES)], ["api", "file"][(a + b) % 2]))
    for _ in range(ctx.n(20, 1500)):
        out.append(make_mix(rng, len(out), rng.choice(MIX_RELATIONS + ["same", "permuted", "retyped"]), rng.choice(MIX_ROUTES),
                            rng.choice(MIX_SOURCES), rng.choice(["api", "file"])))
    return out


def _mix_header(mix, fmt, dims):
    import laspy
    h = laspy.LasHeader(version=mix["version"], point_format=fmt)
    h.scales = np.array([lasio.bits_f64(b) for b in mix["scales"]])
    h.offsets = np.array([lasio.bits_f64(b) for b in mix["offsets"]])
    if dims:
        h.add_extra_dims([Caller(None).param(d) for d in dims])
    return h


def mix_run(mix):
    """the laspy side -> {"file": bytes | None, "accepted": [points of each chunk laspy took], "refused": [exception kinds],
    "replaced": the accepted record replaces the destination's own points}"""
    import laspy
    from laspy.lasappender import LasAppender
    A, B, n0, n = mix["dims_a"], mix["dims_b"], mix["n0"], mix["n"]
    case_a, case_b = {"format": mix["format"], "extra_dims": A}, {"format": mix["format_b"], "extra_dims": B}
    grown = mix["relation"] == "grown"
    ha = _mix_header(mix, mix["format"], B if grown else A)
    if mix["header_src"] == "file" and not grown:
        bio = io.BytesIO()
        laspy.LasData(ha).write(bio)
        if mix["n"] % 2:
            ha = laspy.read(io.BytesIO(bio.getvalue())).header
        else:
            with laspy.open(io.BytesIO(bio.getvalue())) as rd:
                ha = rd.header
    hb = ha if grown else _mix_header(mix, mix["format_b"], B)
    src = mix["source"]
    if src == "packed-zeros":
        rec = laspy.PackedPointRecord.zeros(n, hb.point_format)
        assign_points(rec, case_b, mix["points_b"])
        chunks = [rec]
    elif src == "scaleaware-zeros":
        rec = laspy.ScaleAwarePointRecord.zeros(n, header=hb)
        assign_points(rec, case_b, mix["points_b"])
        chunks = [rec]
    else:
        lb = laspy.LasData(hb)
        lb.points = laspy.ScaleAwarePointRecord.zeros(n, header=hb)
        assign_points(lb, case_b, mix["points_b"])
        if src == "lasdata":
            chunks = [lb.points]
        else:
            bio = io.BytesIO()
            lb.write(bio)
            if src == "file-read":
                chunks = [laspy.read(io.BytesIO(bio.getvalue())).points]
            else:
                with laspy.open(io.BytesIO(bio.getvalue())) as rd:
                    chunks = list(rd.chunk_iterator(mix["chunk"]))
    if grown:
        # the header the record was made from gets one more dimension afterwards
        ha.add_extra_dim(Caller(None).param(A[-1]))
    rec_a = laspy.ScaleAwarePointRecord.zeros(n0, header=ha)
    if n0:
        assign_points(rec_a, case_a, mix["points_a"])
    res = {"file": None, "accepted": [], "refused": [], "replaced": False,
           "model_in": (int(ha.point_format.id), impl_dims(ha.point_format), int(chunks[0].point_format.id),
                        impl_dims(chunks[0].point_format, chunks[0].array.dtype))}

    def hand(fn, chunk):
        try:
            fn(chunk)
            res["accepted"].append(len(chunk))
        except Exception as ex:
            res["accepted"].append(0)
            res["refused"].append(common.exc_kind(ex))
    out = io.BytesIO()
    route = mix["route"]
    if route in ("open-w", "LasWriter"):
        w = laspy.open(out, mode="w", header=ha, closefd=False) if route == "open-w" else laspy.LasWriter(out, ha, closefd=False)
        with w:
            if n0:
                w.write_points(rec_a)
            for c in chunks:
                hand(w.write_points, c)
        res["file"] = out.getvalue()
    elif route in ("open-a", "LasAppender"):
        laspy.LasData(ha, rec_a).write(out)
        out.seek(0)
        ap = laspy.open(out, mode="a", closefd=False) if route == "open-a" else LasAppender(out, closefd=False)
        with ap:
            for c in chunks:
                hand(ap.append_points, c)
        res["file"] = out.getvalue()
    elif route == "LasData-init":
        made = []
        hand(lambda c: made.append(laspy.LasData(ha, points=c)), chunks[0])
        res["replaced"] = True
        if made:
            made[0].write(out)
            res["file"] = out.getvalue()
    else:
        las = laspy.LasData(ha, rec_a)

        def setter(c):
            las.points = c
        hand(setter, chunks[0])
        res["replaced"] = bool(res["accepted"][0])
        las.write(out)
        res["file"] = out.getvalue()
    return res


def impl_dims(pf, array_dtype=None):
    """the extra dimensions of a point format in the vocabulary of the model (Gen/GenC02.v dim_info): name, DimensionKind value,
    bits, elements, is_standard, description, offsets, scales.  With array_dtype: the dimensions the record's ARRAY really has (its
    fields beyond the format's standard ones), described by the point format where it knows them"""
    from laspy.point import dims as ldims

    def arr(a):
        return "N" if a is None else (",".join(str(lasio.f64bits(float(x))) for x in np.asarray(a).reshape(-1)) or "e")

    def tok(name, kind, bits, cnt, std, desc, of, sc):
        return f"{name}:{int(kind.value)}:{int(bits)}:{int(cnt)}:{'T' if std else 'F'}:x{desc.encode('latin1', 'replace').hex()}:{arr(of)}:{arr(sc)}"
    out = []
    if array_dtype is None:
        for d in pf.extra_dimensions:
            out.append(tok(d.name, d.kind, d.num_bits, d.num_elements, d.is_standard, d.description, d.offsets, d.scales))
    else:
        std = set(ldims.ALL_POINT_FORMATS_DTYPE[pf.id].names)
        known = {d.name: d for d in pf.extra_dimensions}
        for name in array_dtype.names:
            if name in std:
                continue
            ft = array_dtype.fields[name][0]
            cnt = int(ft.shape[0]) if ft.ndim == 1 else 1
            d = known.get(name)
            out.append(tok(name, ldims.DimensionKind.from_letter(ft.base.kind), ft.itemsize * 8, cnt, False,
                           d.description if d is not None else "", d.offsets if d is not None else None, d.scales if d is not None else None))
    return ";".join(out) or "-"


def model_mixes(mixes, outcomes, dis):
    """the model of the hand-over (Model/RecordPlace.v handover_accepts over Gen/GenC02.v point_format_eq / dim_info_eq, translated
    from PointFormat.__eq__ and DimensionInfo.__eq__) against laspy: taken or refused; and the Extra Bytes descriptors the model
    derives from the header's dimensions (ebs_of_dims) against the descriptors the specification decoder finds in the file"""
    lines, idx = [], []
    for m, (_, r) in zip(mixes, outcomes):
        if "error" in r or "model_in" not in r:
            continue
        hid, hd, rid, rd = r["model_in"]
        lines += [f"accepts {hid} {hd} {rid} {rd}", f"ebs_of_dims {hd}"]
        idx.append((m, r))
    outs = common.run_model(lines, name="c02")
    files = [r["file"] for _, r in idx if r["file"] is not None]
    dec = iter(spec_decode_files(PyRef(), files))
    for q, (m, r) in enumerate(idx):
        verdict, ebs = outs[2 * q], outs[2 * q + 1]
        took = bool(r["accepted"] and r["accepted"][0])
        if verdict not in ("T", "F") or (verdict == "T") != took:
            dis.append({"kind": ("stale record" if m["relation"] == "grown" else "mixed sources") + ": taken or refused", "input": {"direction": "mix", "mix": m}, "model": f"accepts = {verdict} for {r['model_in']}",
                        "impl": f"{m['route']}: " + ("taken" if took else f"refused ({r['refused'][:1]})")})
        if r["file"] is not None:
            R = next(dec)
            if "error" not in R:
                want = "ok " + (";".join(f"{d['name'].decode('latin1')}:{d['data_type']}:{d['options'] if d['data_type'] == 0 else 0}" for d in R["descriptors"]) or "-")
                if ebs != want:
                    dis.append({"kind": "mixed sources: descriptors the header declares", "input": {"direction": "mix", "mix": m}, "model": ebs, "impl": want})


def elem_triples(case, i, refused=()):
    """the assignments to dimension i of an element case as (point, element, stored value) triples, in order"""
    d = case["extra_dims"][i]
    n, cnt = case["n"], eb_elem(d["data_type"], 0)[1]
    I = np.arange(n * cnt).reshape((n, cnt) if cnt > 1 else (n,))
    out = []
    for q, op in enumerate(case["ops"]):
        if op["dim"] != i or q in refused:
            continue
        pos = np.asarray(I[_elem_sel(op, n, cnt)])
        vals = np.empty(pos.shape, dtype=object)
        vals[...] = np.array(op["raws"], dtype=object).reshape(pos.shape) if isinstance(op["raws"], list) else op["raws"]
        out += [(int(p) // cnt, int(p) % cnt, int(v)) for p, v in zip(pos.reshape(-1), vals.reshape(-1))]
    return out


def model_elems(cases, dis):
    """the model of the assignments (Model/RecordPlace.v assign_elems: the named positions get their values, nothing else changes)
    against the stored values the specification decoder finds in laspy's file"""
    outs = [_ELEM_OUT.get(repr(c["id"]) + repr(c["ops"])) for c in cases]
    live = [(c, o) for c, o in zip(cases, outs) if o is not None and not isinstance(o, dict)]
    dec = spec_decode_files(PyRef(), [o[0] for _, o in live])
    lines, idx = [], []
    for (c, o), R in zip(live, dec):
        if "error" in R or is_err(R["points"]) or len(R["points"]) != c["n"]:
            continue
        refused = {q for q, _ in o[1]}
        leaves = py_leaves(c["format"], eb_pairs(c["extra_dims"]))
        for i, d in enumerate(c["extra_dims"]):
            cnt = eb_elem(d["data_type"], 0)[1]
            cols = [j for j, (nm, _) in enumerate(leaves) if nm == f"e{i}"]
            got = ";".join(",".join(str(p[j]) for j in cols) for p in R["points"])
            sel = ";".join(f"{a}:{b}:{v}" for a, b, v in elem_triples(c, i, refused)) or "-"
            lines.append("assign " + ";".join(",".join(["0"] * cnt) for _ in range(c["n"])) + " " + sel)
            idx.append((c, i, got))
    for (c, i, got), o in zip(idx, common.run_model(lines, name="c02")):
        if o != got:
            dis.append({"kind": "element assignment: stored values", "input": {"direction": "elements", "case": c},
                        "model": f"dimension {i}: {o[:300]}", "impl": f"dimension {i}: {got[:300]}"})


def _sem(kind, sc, of, raw):
    """the value a stored integer / bit pattern stands for: the number, after the descriptor's scale and offset"""
    if isinstance(kind, tuple):
        return raw
    if kind[0] == "f":
        v = float(np.array([raw], dtype=np.uint32 if kind == "f4" else np.uint64).view("<" + kind)[0])
        return ("nan", kind, raw) if v != v else v
    if sc is None and of is None:
        return raw
    return float(raw) * (1.0 if sc is None else sc) + (0.0 if of is None else of)


def _named_case_columns(fmt, dims):
    """[(dimension name, element index, kind, scale, offset)] per leaf of a record of format fmt + dims"""
    out, seen = [], {}
    for name, kind in py_leaves(fmt, eb_pairs(dims)):
        if name[0] == "e" and name[1:].isdigit():
            d = dims[int(name[1:])]
            k = seen.get(name, 0)
            seen[name] = k + 1
            sc = lasio.bits_f64(d["scales"][k]) if d["scaled"] and d["data_type"] else None
            of = lasio.bits_f64(d["offsets"][k]) if d["scaled"] and d["data_type"] else None
            out.append((d["name"], k, kind, sc, of))
        else:
            out.append((name, 0, kind, None, None))
    return out


def _named_file_columns(R):
    """{(dimension name, element index): (kind, scale, offset, leaf index)} of a decoded file, under ITS descriptors"""
    out, seen = {}, {}
    descs = R["descriptors"]
    for j, (name, kind) in enumerate(py_leaves(R["header"]["format"], R["ebs"])):
        if name[0] == "e" and name[1:].isdigit():
            d = descs[int(name[1:])]
            k = seen.get(name, 0)
            seen[name] = k + 1
            opts = d["options"] if d["data_type"] != 0 else 0
            sc = lasio.bits_f64(d[f"scale[{k}]"]) if opts & 8 and k < 3 else None
            of = lasio.bits_f64(d[f"offset[{k}]"]) if opts & 16 and k < 3 else None
            out.setdefault((d["name"].decode("latin1"), k), (kind, sc, of, j))
        elif name != TRAIL_NAME:
            out.setdefault((name, 0), (kind, None, None, j))
    return out


def mix_compare(mix, res, R):
    """-> [(class, detail)]"""
    if res["file"] is None:
        return []
    if "error" in R:
        return [("file structure", R["error"])]
    took = sum(res["accepted"])
    rows = [] if res["replaced"] else [("a", p) for p in mix["points_a"]]
    rows += [("b", p) for p in mix["points_b"][:took]]
    pts = R["points"]
    if is_err(pts) or is_err(R["record_size"]):
        return [("file structure", f"point records: {pts}")]
    if R["header"]["point_size"] != R["spec_point_size"] or R["header"]["file_len"] != R["header"]["expected_len"]:
        return [("file structure", f"record length {R['header']['point_size']}, format + described bytes {R['spec_point_size']}; file of "
                 f"{R['header']['file_len']} bytes, header + VLRs + records end at {R['header']['expected_len']}")]
    if len(pts) != len(rows):
        return [("point count", f"{len(rows)} points were accepted, the file has {len(pts)}")]
    cols = {"a": _named_case_columns(mix["format"], mix["dims_a"]), "b": _named_case_columns(mix["format_b"], mix["dims_b"])}
    fcols = _named_file_columns(R)
    out = []
    for r, (src, vals) in enumerate(rows):
        for j, (name, k, kind, sc, of) in enumerate(cols[src]):
            f_ = fcols.get((name, k))
            if f_ is None:
                out.append(("dimension missing in the file", f"point {r}: {name}[{k}] was assigned {vals[j]} through the record's dimension "
                            f"{name!r}; the file's header and descriptors declare no such dimension / element"))
                break
            want, got = _sem(kind, sc, of, vals[j]), _sem(f_[0], f_[1], f_[2], pts[r][f_[3]])
            if want != got:
                out.append(("point values", f"point {r} ({'the destination own' if src == 'a' else 'the accepted'} record): {name}[{k}] assigned {want!r} "
                            f"(stored {vals[j]} as {kind}), the decoder reads {got!r} ({pts[r][f_[3]]} as {f_[0]}) under the file's descriptors"))
                break
        if out:
            break
    return out


_MIX_OUT = {}


def run_mixes(ref, mixes):
    """-> per mix (list of mismatches, outcome of the laspy side)"""
    runs = []
    for m in mixes:
        key = repr(m["id"]) + repr(m["relation"]) + repr(m["points_b"][:1])
        if key not in _MIX_OUT:
            try:
                _MIX_OUT[key] = mix_run(m)
            except Exception as ex:
                _MIX_OUT[key] = {"error": f"{common.exc_kind(ex)}: {str(ex)[:200]}"}
        runs.append(_MIX_OUT[key])
    live = [i for i, r in enumerate(runs) if "error" not in r and r["file"] is not None]
    dec = dict(zip(live, spec_decode_files(ref, [runs[i]["file"] for i in live])))
    res = []
    for i, (m, r) in enumerate(zip(mixes, runs)):
        if "error" in r:
            res.append(([("laspy failed outside the hand-over", r["error"])], r))
        else:
            res.append((mix_compare(m, r, dec.get(i, {})), r))
    return res


def mix_finding(m, mm, tag):
    # (a record made from the header itself, before the header grew, is the one relation where nothing comes from another source:
    # its own class of failure)
    d = {"kind": ("stale record: " if m["relation"] == "grown" else "mixed sources: ") + mm[0], "input": {"direction": "mix", "mix": m}}
    d[tag] = f"route {m['route']}, record from {m['source']}, header from {m['header_src']}; header and record are '{m['relation']}' ({[type_str(x['data_type'], x['nbytes']) + ':' + x['name'] for x in m['dims_a']]} / " \
             f"{[type_str(x['data_type'], x['nbytes']) + ':' + x['name'] for x in m['dims_b']]}): {mm[1]}"
    return d


def register_mixes(ctx, mixes, outcomes):
    for m, (_, r) in zip(mixes, outcomes):
        took = sum(r.get("accepted", [])) if "error" not in r else 0
        ctx.count("mixed sources")
        ctx.count(f"mixed sources: {m['relation']} " + ("accepted" if took else "refused"))
        ctx.count(f"mixed sources route {m['route']}")
        ctx.case(("mix", m["relation"], m["route"], m["source"], m["header_src"], m["version"], m["format"], m["format_b"],
                  tuple(eb_pairs(m["dims_a"])), tuple(eb_pairs(m["dims_b"])), repr(m["points_b"][:1])), nontrivial=True,
                 sample={"direction": "mix", "relation": m["relation"], "route": m["route"], "record_from": m["source"], "header_from": m["header_src"],
                         "header_dims": [type_str(d["data_type"], d["nbytes"]) for d in m["dims_a"]],
                         "record_dims": [type_str(d["data_type"], d["nbytes"]) for d in m["dims_b"]], "accepted_points": took})
        ctx.evaluations += (m["n0"] + took) * len(py_leaves(m["format"], eb_pairs(m["dims_a"])))
        ctx.traces += 1


# ---------------------------------------------------------------------------------------------------
# (vi) every assignment route into the elements of an extra dimension (1, 2 or 3 elements; scaled and not): the whole dimension,
# one element of all points ([:, k], [..., k]), of the points a mask / a list / an array of indices / an integer / a slice selects,
# a block [slice, slice], whole points ([i], [mask], [list], [slice]), through a sub-view; the value an array, a list, one scalar;
# the view taken from LasData[name], LasData.<name>, LasData.points[name], a record, a memory-mapped file. The expected content is
# kept by the same selection on a plain table; the specification decoder reads the written file.
# ---------------------------------------------------------------------------------------------------
ELEM_KEYS_MULTI = ["whole", "whole[:]", "whole[...]", "attr", "points[name]", "col", "ecol", "mask", "idx", "idx-array", "int", "int-np", "int-neg",
                   "slice-k", "block", "row", "row-colon", "rows-mask", "rows-idx", "rows-slice", "subview", "subview-slice", "mask-block"]
ELEM_KEYS_SINGLE = ["whole", "whole[:]", "attr", "points[name]", "mask1", "idx1", "idx1-array", "int1", "slice1"]
ELEM_VALUES = ["array", "list", "scalar", "other-dtype", "np-scalar"]      # other-dtype: an array of another numpy type that holds the same numbers
ELEM_WHOLE_BY_NAME = ("whole", "attr", "points[name]")      # las[name] = v, las.name = v, las.points[name] = v: laspy takes no scalar there (any dimension)
ELEM_CONTAINERS = ["las[name]", "las.name", "las.points[name]", "record", "mmap"]
ELEM_FLOATS = [0.0, 1.5, -2.25, 1024.0, -0.5, 3.0, 65536.0, -1.0, 0.125, 7.0]


def _elem_sel(op, n, cnt):
    """the numpy key that names the positions an op assigns, on a table of shape (n, cnt) / (n,)"""
    t = op["t"]
    if t in ("whole", "whole[:]", "whole[...]", "attr", "points[name]"):
        return Ellipsis
    if t in ("col", "ecol", "subview"):
        return (slice(None), op["k"])
    if t in ("mask", "mask1"):
        m = np.array(op["mask"], dtype=bool)
        return (m, op["k"]) if t == "mask" else m
    if t in ("idx", "idx-array"):
        return (list(op["idx"]), op["k"])
    if t in ("idx1", "idx1-array"):
        return list(op["idx"])
    if t in ("int", "int-np", "int-neg"):
        return (op["i"], op["k"])
    if t == "int1":
        return op["i"]
    if t in ("slice-k", "subview-slice"):
        return (slice(*op["ps"]), op["k"])
    if t == "slice1":
        return slice(*op["ps"])
    if t == "block":
        return (slice(*op["ps"]), slice(*op["es"]))
    if t == "mask-block":
        return (np.array(op["mask"], dtype=bool), slice(*op["es"]))
    if t in ("row", "row-colon"):
        return op["i"]
    if t == "rows-mask":
        return np.array(op["mask"], dtype=bool)
    if t == "rows-idx":
        return list(op["idx"])
    if t == "rows-slice":
        return slice(*op["ps"])
    raise KeyError(t)


ELEM_FIELDS = {"k": ("col", "ecol", "mask", "idx", "idx-array", "int", "int-np", "int-neg", "slice-k", "subview", "subview-slice"),
               "mask": ("mask", "mask1", "rows-mask", "mask-block"), "idx": ("idx", "idx-array", "idx1", "idx1-array", "rows-idx"),
               "i": ("int", "int-np", "int-neg", "int1", "row", "row-colon"),
               "ps": ("slice-k", "slice1", "block", "rows-slice", "subview-slice"), "es": ("block", "mask-block")}


def make_elem_op(rng, t, n, cnt, dim, vform):
    """one assignment: key type t on dimension dim (cnt elements, n points), the value given as vform; only the selectors t uses"""
    mask = [rng.random() < 0.5 for _ in range(n)]
    if not any(mask):
        mask[rng.randrange(n)] = True
    a = rng.randrange(n)
    k0 = rng.randrange(cnt)
    every = {"k": rng.randrange(cnt), "es": [k0, rng.randrange(k0 + 1, cnt + 1), 1], "mask": mask,
             "idx": rng.sample(range(n), rng.randrange(1, n)), "i": rng.randrange(n) - (n if t == "int-neg" else 0),
             "ps": [a, rng.randrange(a + 1, n + 1), rng.choice([1, 1, 2, 3])]}
    op = {"t": t, "dim": dim, "value": vform}
    op.update({f: v for f, v in every.items() if t in ELEM_FIELDS[f]})
    return op


def make_elem_case(rng, idx, plan, container):
    """plan: [(key type, scaled, value form)] to be covered by this case's ops"""
    version, fmt = rng.choice([(v, f) for v in lasio.VERSIONS for f in lasio.COMPAT[v]])
    n = rng.choice([5, 6, 7, 9])
    dims, ops = [], []
    for t, scaled, vform in plan:
        single = t in ("mask1", "idx1", "idx1-array", "int1", "slice1") or (t in ("whole", "whole[:]", "attr", "points[name]") and rng.random() < 0.25)
        # a dimension of the wanted shape: re-used when the case already has one
        want = lambda d: (eb_elem(d["data_type"], 0)[1] == 1) == single and bool(d["scaled"]) == scaled
        have = [i for i, d in enumerate(dims) if want(d)]
        if have and (len(dims) >= 3 or rng.random() < 0.6):
            i = rng.choice(have)
        else:
            d = rand_extra_dims(rng, 1, True)[0]
            base = rng.choice([1, 2, 3, 4, 5, 6, 7, 8] if scaled else [1, 2, 3, 4, 5, 6, 7, 8, 9, 10])
            _set_type(rng, d, base + (0 if single else rng.choice([10, 20])), 0, scaled=1 if scaled else 0)
            d["name"] = f"e{len(dims)}" + rand_name(rng, rng.choice([0, 2]))
            dims.append(d)
            i = len(dims) - 1
            # every dimension starts with an assignment of all its elements
            ops.append(make_elem_op(rng, rng.choice(["whole", "whole[:]", "attr", "points[name]"]), n, eb_elem(d["data_type"], 0)[1], i, "array"))
        ops.append(make_elem_op(rng, t, n, eb_elem(dims[i]["data_type"], 0)[1], i, vform))
    case = {"id": f"a{idx}", "version": version, "format": fmt, "n": n, "extra_dims": dims, "container": container, "ops": ops,
            "entry": rng.choice(["write", "writer"])}
    # the stored values each op assigns: a table per dimension follows the ops; new values differ from what is there
    tables = [_elem_table(n, d) for d in dims]
    for op in ops:
        d = dims[op["dim"]]
        kind, cnt = eb_elem(d["data_type"], 0)
        T = tables[op["dim"]]
        sel = _elem_sel(op, n, cnt)
        cur = T[sel]
        if op["value"] in ("scalar", "np-scalar") and d["scaled"] and cnt > 1 and np.ndim(cur) > 0:
            # one scaled value for elements that have their own scale and offset is not one stored value: element by element then
            S = np.empty((n, cnt), dtype=object)
            for q in range(cnt):
                S[:, q] = f"{d['scales'][q]}/{d['offsets'][q]}"
            if len(set(np.asarray(S[sel], dtype=object).reshape(-1).tolist())) > 1:
                op["value"] = "list"
        if op["value"] in ("scalar", "np-scalar") or np.ndim(cur) == 0:
            cur_list = [cur] if np.ndim(cur) == 0 else list(np.asarray(cur, dtype=object).reshape(-1))
            for _ in range(50):
                v = _elem_raw(rng, kind, d["scaled"])
                if v not in cur_list:
                    break
            op["raws"] = v
            T[sel] = v
        else:
            flat = [_elem_raw(rng, kind, d["scaled"], avoid=c) for c in np.asarray(cur, dtype=object).reshape(-1)]
            new = np.empty(len(flat), dtype=object)
            new[:] = flat
            new = new.reshape(np.shape(cur))
            op["raws"] = new.tolist()
            T[sel] = new
    return case


def _elem_table(n, d):
    cnt = eb_elem(d["data_type"], 0)[1]
    T = np.empty((n, cnt) if cnt > 1 else (n,), dtype=object)
    T[...] = 0
    return T


def _elem_raw(rng, kind, scaled, avoid=None):
    """a stored value of one element: an integer in range (kept below 2**40 for scaled dimensions: the scaled value is exact),
    the bit pattern of a float that every value form carries exactly"""
    for _ in range(50):
        if kind[0] == "f":
            x = rng.choice(ELEM_FLOATS + [float(rng.randrange(-1000, 1000)) / 4])
            v = int(np.array([x], dtype="<" + kind).view(np.uint32 if kind == "f4" else np.uint64)[0])
        else:
            w = int(kind[1:])
            cap = 40 if scaled else 8 * w
            lo, hi = (-(2 ** min(8 * w - 1, cap)), 2 ** min(8 * w - 1, cap) - 1) if kind[0] == "i" else (0, 2 ** min(8 * w, cap) - 1)
            v = rng.choice([lo, hi, 1, rng.randrange(lo, hi + 1), rng.randrange(lo, hi + 1)])
        if v != avoid:
            return v
    return v


def make_elem_cases(ctx):
    rng = ctx.rng
    plan = [(t, sc, vf) for t in ELEM_KEYS_MULTI + [k for k in ELEM_KEYS_SINGLE if k not in ELEM_KEYS_MULTI]
            for sc in (True, False) for vf in ELEM_VALUES if not (vf in ("scalar", "np-scalar") and t in ELEM_WHOLE_BY_NAME)]
    rng.shuffle(plan)
    extra = [(rng.choice(ELEM_KEYS_MULTI[5:]), rng.random() < 0.6, rng.choice(ELEM_VALUES)) for _ in range(ctx.n(20, 3000))]
    plan += [e for e in extra if not (e[2] in ("scalar", "np-scalar") and e[0] in ELEM_WHOLE_BY_NAME)]
    out = []
    while plan:
        k = rng.choice([3, 4, 5, 6])
        out.append(make_elem_case(rng, len(out), plan[:k], ELEM_CONTAINERS[(len(out) + ctx.seed) % len(ELEM_CONTAINERS)]))
        plan = plan[k:]
    return out


def _other_dtype(arr, kind, scaled):
    """the same numbers in an array of another numpy type (None when no other type holds them all exactly)"""
    if scaled or kind[0] != "f":
        alt = arr.astype(np.float32 if scaled else np.float64)
        if scaled:
            return alt if np.array_equal(alt.astype(np.float64), arr) else None
        back = alt.astype(arr.dtype) if np.all(np.abs(alt) < 2.0 ** 63) else None
        return alt if back is not None and np.array_equal(back, arr) and np.all(np.abs(alt) <= 2.0 ** 53) else None
    alt = arr.astype(np.float64 if kind == "f4" else np.float32)
    return alt if np.array_equal(alt.astype(arr.dtype), arr) else None


def _elem_value(op, d, n):
    """the object the caller assigns: scaled values for a scaled dimension (stored * scale + offset, per element)"""
    kind, cnt = eb_elem(d["data_type"], 0)
    sel = _elem_sel(op, n, cnt)
    raws, form = op["raws"], op["value"]
    if d["scaled"]:
        S = np.empty((n, cnt) if cnt > 1 else (n,), dtype=np.float64)
        O = np.empty_like(S)
        S[...] = [lasio.bits_f64(b) for b in d["scales"]] if cnt > 1 else lasio.bits_f64(d["scales"][0])
        O[...] = [lasio.bits_f64(b) for b in d["offsets"]] if cnt > 1 else lasio.bits_f64(d["offsets"][0])
        if not isinstance(raws, list):
            s, o = np.asarray(S[sel]).reshape(-1), np.asarray(O[sel]).reshape(-1)
            arr = np.float64(float(raws) * float(s[0]) + float(o[0]))
        else:
            arr = np.array(raws, dtype=np.float64) * S[sel] + O[sel]
    elif kind[0] == "f":
        arr = np.array([raws] if not isinstance(raws, list) else raws, dtype=np.uint32 if kind == "f4" else np.uint64).view("<" + kind)
        arr = arr if isinstance(raws, list) else arr[0]
    else:
        arr = np.array(raws, dtype=NP[kind])
    if form == "other-dtype":
        alt = _other_dtype(np.asarray(arr), kind, d["scaled"])
        alt = np.asarray(arr) if alt is None else alt
        return alt if alt.ndim else alt[()]       # one value: the numpy scalar (not a 0-d array)
    if np.ndim(arr) == 0:
        # one value: a python number, or a numpy scalar / 0-d array
        return arr if form in ("array", "np-scalar") else arr.item()
    return arr.tolist() if form == "list" else arr


def _elem_apply(view_of, setter, op, d, n):
    """one op on the implementation; view_of() -> the view of the dimension, setter(value) -> whole-dimension assignment by name"""
    kind, cnt = eb_elem(d["data_type"], 0)
    val = _elem_value(op, d, n)
    t = op["t"]
    if t in ("whole", "attr", "points[name]"):
        setter(t, val)
    elif t == "whole[:]":
        view_of()[:] = val
    elif t == "whole[...]":
        view_of()[...] = val
    elif t == "ecol":
        view_of()[..., op["k"]] = val
    elif t == "subview":
        view_of()[..., op["k"]][:] = val
    elif t == "subview-slice":
        view_of()[slice(*op["ps"])][:, op["k"]] = val
    elif t in ("idx-array", "idx1-array"):
        view_of()[(np.array(op["idx"]), op["k"]) if cnt > 1 else np.array(op["idx"])] = val
    elif t == "int-np":
        view_of()[np.int64(op["i"]), op["k"]] = val
    elif t == "row-colon":
        view_of()[op["i"], :] = val
    else:
        view_of()[_elem_sel(op, n, cnt)] = val


def elem_run(case):
    """the laspy side -> bytes of the file | {"error": ...} (an assignment laspy refused: which op, which exception)"""
    import laspy
    dims, n = case["extra_dims"], case["n"]
    h = laspy.LasHeader(version=case["version"], point_format=case["format"])
    h.add_extra_dims([Caller(None).param(d) for d in dims])
    cont = case["container"]
    las = laspy.LasData(h)
    las.points = laspy.ScaleAwarePointRecord.zeros(n, header=h)
    las.X = np.arange(1, n + 1)
    las.intensity = np.arange(n) * 7
    names = [d.name for d in las.point_format.extra_dimensions]
    dest, refused = None, []
    try:
        if cont == "mmap":
            dest = Dest("path", f"el{case['id']}")
            las.write(dest.path)
            target = laspy.mmap(dest.path)
        elif cont == "record":
            target = laspy.ScaleAwarePointRecord.zeros(n, header=h)
            target["X"] = np.arange(1, n + 1)
            target["intensity"] = np.arange(n) * 7
        else:
            target = las
        for q, op in enumerate(case["ops"]):
            name = names[op["dim"]]
            if cont in ("las.points[name]",):
                view_of = lambda: target.points[name]
            elif cont == "las.name":
                view_of = lambda: getattr(target, name)
            else:
                view_of = lambda: target[name]

            def setter(t, val):
                if t == "attr":
                    setattr(target, name, val)
                elif t == "points[name]" and cont != "record":
                    target.points[name] = val
                else:
                    target[name] = val
            try:
                _elem_apply(view_of, setter, op, dims[op["dim"]], n)
            except Exception as ex:
                # a refused assignment: reported, and it must have stored nothing (the following ops and the file are still judged)
                refused.append((q, f"op {q} ({op['t']}, value as {op['value']}) on {type_str(dims[op['dim']]['data_type'], 0)}"
                                   f"{' scaled' if dims[op['dim']]['scaled'] else ''} through {cont}: {common.exc_kind(ex)}: {str(ex)[:160]}"))
        if cont == "mmap":
            target.close()
            return dest.value(), refused
        if cont == "record":
            las = laspy.LasData(h, target)
        out = io.BytesIO()
        if case["entry"] == "writer":
            with laspy.open(out, mode="w", header=las.header, closefd=False) as w:
                w.write_points(las.points[:n // 2])
                w.write_points(las.points[n // 2:])
        else:
            las.write(out)
        return out.getvalue(), refused
    finally:
        if dest is not None:
            dest.close()


def elem_expected(case, refused):
    """the stored values after the ops, those laspy refused left out"""
    n, dims = case["n"], case["extra_dims"]
    tables = [_elem_table(n, d) for d in dims]
    for q, op in enumerate(case["ops"]):
        if q in refused:
            continue
        T = tables[op["dim"]]
        sel = _elem_sel(op, n, eb_elem(dims[op["dim"]]["data_type"], 0)[1])
        if np.ndim(T[sel]) == 0 or not isinstance(op["raws"], list):
            T[sel] = op["raws"]
        else:
            new = np.empty(np.shape(T[sel]), dtype=object)
            new[...] = np.array(op["raws"], dtype=object).reshape(np.shape(T[sel]))
            T[sel] = new
    return [T.tolist() for T in tables]


def elem_compare(case, R, refused=()):
    if "error" in R:
        return [("file structure", R["error"])]
    pts, n = R["points"], case["n"]
    if is_err(pts) or len(pts) != n:
        return [("file structure", f"{n} points, decoder: {str(pts)[:100]}")]
    dims = case["extra_dims"]
    if [(d["data_type"], d["name"]) for d in R["descriptors"]] != [(d["data_type"], d["name"].encode()) for d in dims]:
        return [("descriptors", f"declared {[(d['data_type'], d['name']) for d in dims]}, decoder read {[(d['data_type'], d['name']) for d in R['descriptors']]}")]
    leaves = py_leaves(case["format"], eb_pairs(dims))
    expected = elem_expected(case, set(refused))
    seen = {}
    for j, (name, kind) in enumerate(leaves):
        if name[0] == "e" and name[1:].isdigit():
            i = int(name[1:])
            k = seen.get(name, 0)
            seen[name] = k + 1
            T = expected[i]
            for p in range(n):
                want = T[p][k] if isinstance(T[p], list) else T[p]
                if pts[p][j] != want:
                    hist = [f"op {q}: {o['t']} {dict((a, o[a]) for a in ('k', 'i', 'idx', 'mask', 'ps', 'es') if a in o)} = {o['raws']} as {o['value']}"
                            for q, o in enumerate(case["ops"]) if o["dim"] == i]
                    return [("element values", f"dimension {dims[i]['name']} ({type_str(dims[i]['data_type'], 0)}{' scaled' if dims[i]['scaled'] else ''}) "
                             f"point {p} element {k}: the assignments leave the stored value {want}, the decoder reads {pts[p][j]}; assignments to it through "
                             f"{case['container']}: {hist}")]
        elif name in ("X", "intensity"):
            for p in range(n):
                if pts[p][j] != (p + 1 if name == "X" else p * 7):
                    return [("other dimensions disturbed", f"point {p} {name}: assigned {p + 1 if name == 'X' else p * 7}, decoder reads {pts[p][j]}")]
    return []


_ELEM_OUT = {}


def run_elems(ref, cases):
    outs = []
    for c in cases:
        key = repr(c["id"]) + repr(c["ops"])
        if key not in _ELEM_OUT:
            try:
                _ELEM_OUT[key] = elem_run(c)
            except Exception as ex:
                _ELEM_OUT[key] = {"error": f"outside the assignments: {common.exc_kind(ex)}: {str(ex)[:200]}"}
        outs.append(_ELEM_OUT[key])
    live = [i for i, o in enumerate(outs) if not isinstance(o, dict)]
    dec = dict(zip(live, spec_decode_files(ref, [outs[i][0] for i in live])))
    res = []
    for i, (c, o) in enumerate(zip(cases, outs)):
        if isinstance(o, dict):
            res.append([("laspy failed", o["error"])])
            continue
        mms = []
        for q, text in o[1]:
            op = c["ops"][q]
            mms.append((f"refused ({op['t']}{' scaled' if c['extra_dims'][op['dim']]['scaled'] else ''})", text))
        res.append(mms + elem_compare(c, dec[i], [q for q, _ in o[1]]))
    return res


def elem_finding(c, mm, tag):
    """one mismatch -> dict for the report; the case is shrunk (python reference) to the assignments that still show the class"""
    small, detail = c, mm[1]
    try:
        q = len(small["ops"]) - 1
        while q >= 0:
            cand = dict(small, ops=small["ops"][:q] + small["ops"][q + 1:], id=f"{c['id']}.s")
            again = [m for m in run_elems(PyRef(), [cand])[0] if m[0] == mm[0]]
            if again:
                small, detail = cand, again[0][1]
            q -= 1
    except Exception:
        pass
    d = {"kind": f"element assignment: {mm[0]}", "input": {"direction": "elements", "case": small}}
    d[tag] = detail
    return d


def register_elems(ctx, cases):
    for c in cases:
        ctx.count("element assignment cases")
        ctx.count(f"element assignment through {c['container']}")
        for op in c["ops"]:
            d = c["extra_dims"][op["dim"]]
            ctx.count(f"element assignment {op['t']}" + (" scaled" if d["scaled"] else ""))
            ctx.traces += 1
        ctx.case(("elements", c["version"], c["format"], tuple(eb_pairs(c["extra_dims"])), repr(c["ops"])), nontrivial=True,
                 sample={"direction": "elements", "through": c["container"], "dims": [type_str(d["data_type"], 0) + ("*scaled" if d["scaled"] else "") for d in c["extra_dims"]],
                         "ops": [(o["t"], o["value"]) for o in c["ops"]]})
        ctx.evaluations += c["n"] * len(py_leaves(c["format"], eb_pairs(c["extra_dims"])))


_CASES = {}


def cases_for(ctx):
    if "w" not in _CASES:
        _CASES["w"] = make_cases(ctx, True)
        _CASES["r"] = make_cases(ctx, False)
        _CASES["s"] = make_sessions(ctx)
        _CASES["m"] = make_mixes(ctx)
        _CASES["e"] = make_elem_cases(ctx)
    return _CASES["w"], _CASES["r"]


def register(ctx, direction, cases):
    for c in cases:
        ebs = case_ebs(c)
        if "path" in c:
            ctx.count(f"written through {c['path'].split(':')[0]}")
        ctx.count("files with undocumented trailing bytes", 1 if c.get("trailing") else 0)
        ctx.case((direction, c["version"], c["format"], tuple(ebs), repr(c["points"][:3]), c["header"]["uuid"]),
                 nontrivial=c["n"] > 0 or bool(c["vlrs"]) or bool(ebs), sample=sample_of(direction, c))
        ctx.evaluations += c["n"] * len(py_leaves(c["format"], ebs))
        ctx.count(direction)
        ctx.count(f"format {c['format']}")
        ctx.count(f"version {c['version']}")
        for d in c["extra_dims"]:
            ctx.count(f"extra data_type {d['data_type']}" + (" scaled" if d["scaled"] else ""))
        ctx.count("files with EVLRs", 1 if c["evlrs"] else 0)
        if "caller" in c:
            ctx.count(f"header assigned: {c['caller'].get('header_route', 'plain')}")
            ctx.count(f"extra dimensions added through {c['caller'].get('add')}" + (" (header had its own before)" if c['caller'].get('stale_dim') else ""))
        for place in ("vlrs", "evlrs"):
            for x in c[place]:
                k = known_kind(x[0], x[1])
                if k:
                    ctx.count(f"specification payload {k} as {place[:-1].upper()}" + (" (complete 256-record table)" if k == "lookup" and len(x[3]) == 8192 else ""))
        ctx.traces += 1 + c["n"] + len(c["vlrs"]) + len(c["evlrs"]) + len(ebs)


def correspond(ctx):
    ctx.extra["rule"] = (
        "whole files in both directions. Per direction: every (version, format) pair with 33-64 points (every value of every bit field), "
        "every format with 1-5 extra dimensions (formats 0/6/10 with 256 points: the full range of the one-byte fields), every extra-bytes "
        "data_type 0..30 once (scaled or not), plus random mixtures with 0..50 points. Field values: boundaries (0, 1, max, max-1, signed min/max/-1), "
        "float specials by bit pattern (+-0, +-inf, quiet/signalling NaN payloads, subnormal, max finite) and random patterns; header strings of length "
        "0/1/31/32, VLR user ids of length 0..16, payloads 0..300 bytes (EVLR payloads up to 70000), extra header / VLR bytes. "
        "(i) values assigned through LasHeader attributes, ExtraBytesParams, VLR objects and las[dimension] -> extracted specification decoder on the bytes; "
        "(ii) extracted specification encoder -> laspy.read, the records laspy holds = the file's bytes, and laspy's re-written file through the decoder again; "
        "every format with 1-1000 undocumented bytes per record beyond what the Extra Bytes VLR describes (and without VLR), at least two points. "
        "(i) is written through LasData.write, LasWriter in two chunks, laspy.convert from a random (version, format) (every target format with scaled "
        "extra dimensions) and write + appender; every (version, format) through one of the last three in turn. The decoder also checks the file against "
        "itself: legacy counts of a 1.4 header (zero for formats 6-10, zero or the count below), file length = header + VLRs + records + EVLRs. "
        "Caller side of (i): destination BytesIO / path / file object; add_extra_dim(s) on header or LasData, all first or interleaved with the "
        "assignment; scales / offsets handed over as fresh arrays, one re-used buffer overwritten after every call (float64, view, float32, int64, "
        "list, tuple) or one re-bound ExtraBytesParams object; dimension types as string / dtype / '1u2' / numpy class; value arrays overwritten after "
        "the assignment; X, Y, Z, intensity through one structured assignment; the caller's header modified after the hand-over to LasWriter. "
        "(iv) sessions on reference-encoded originals (after the points: nothing / padding shorter, equal, longer than what is appended / internal "
        "waveform packets / EVLRs / gap + EVLRs / EVLRs + padding; every (version, format) appended to once, plus one of mmap-edit / copy / read-edit-write "
        "in turn, plus random ones): appender entry points x record classes x chunkings; edits indexed / sliced / whole column; the reference decoder on "
        "the result and the model of append_session / edit_record on the same bytes; read-edit-write / copy sessions on files with EVLRs where the "
        "caller drops them (clear / rebind / del [:] / pop / writer not given any / first only: each once per route, 40% of the random ones) or keeps "
        "only the first m points; model of the EVLR fields of the written header (writer_evlr_fields) against the file. "
        "Extra dimensions of (i) also through a PointFormat object handed to LasHeader(..) / the point_format setter / "
        "set_version_and_point_format (each: fresh header, header with a dimension of its own, the latter with no new dimension), and with a "
        "dimension of the header's own removed by header / LasData .remove_extra_dim(s) on every add route. "
        "(v) records and headers from different sources: every relation (same, permuted, swapped-names, retyped to an equal size, rescaled, "
        "renamed, redescribed, resplit, other-format padded to the same length, header grown after the record was made) through every "
        "route (open-w, LasWriter, LasData-init, points-setter, open-a, LasAppender), record sources and header sources in turn, plus random "
        "combinations: refused, or decoded by name under the file's descriptors; model of the hand-over (taken / refused, descriptors). "
        "(vi) element assignment routes: every (key type x scaled / plain x array / list / scalar) at least once over dimensions with 1-3 "
        "elements of every integer and float type, 3-6 assignments per case after a whole-dimension assignment, new values always "
        "different from what is stored; through LasData[name] / .name / .points[name] / a record / a memory map; decoder on the file "
        "and the model of the assignments on the same triples. "
        "(iii) record-length resolution sweep: formats x descriptor sets x VLR present/absent x record length in {std-1, std, std+1, std+described-1, "
        "std+described, +1, +2..300}: model of read_from vs laspy, refusals included. "
        "(vii) header attributes of (i) assigned in turn: plain / flags of the global encoding by name (bool, int, numpy forms) and x/y/z "
        "scale / offset by attribute / whole sequence twice / each assignment twice / other values first / confirmed by name after a write + "
        "read / legacy names / GlobalEncoding object; sessions edit / copy confirm every named attribute laspy presents before writing. "
        "(viii) every VLR payload the specification lays out in its full form (256-record classification lookup with blank descriptions, partial "
        "tables with blanks, one blank record, waveform descriptor, GeoKeyDirectory, GeoDoubleParams, GeoAsciiParams, WKT cs / math, text area) once "
        "as VLR and once as EVLR per direction (alone / two adjacent / between ordinary records), and in 30% of the records of every other case; "
        "(i) through laspy's class or raw; (ii) reference reading of the payload vs the contents laspy's classes present, the payload laspy holds and "
        "re-writes; lookup-table model (dict semantics) vs ClassificationLookupVlr on those tables and on 30+ malformed ones. "
        "non-trivial = at least one point, VLR or extra dimension; distinct by (direction, version, format, "
        "extra-bytes layout, first points, uuid)")
    W, Rc = cases_for(ctx)
    ref = ModelRef()
    dis = []
    # names of the leaves: the model's labels are laspy's dimension names and agree with the python transcription
    combos = sorted({(c["format"], tuple(case_ebs(c))) for c in W + Rc})
    outs = ref.batch([("names", f, list(e)) for f, e in combos] + [("psize", f, list(e)) for f, e in combos])
    for k, (f, e) in enumerate(combos):
        if outs[k] != [n for n, _ in py_leaves(f, list(e))] or outs[len(combos) + k] != py_size(f, list(e)):
            dis.append({"kind": "reference codecs differ: leaf names / record length", "input": {"format": f, "extra": list(e)},
                        "model": str(outs[k])[:200], "impl": str([n for n, _ in py_leaves(f, list(e))])[:200]})
    register(ctx, "laspy-writes", W)
    for c, mms in zip(W, run_laspy_writes(ref, W)):
        seen = set()
        for mm in mms:
            if mm[0] not in seen:
                seen.add(mm[0])
                f_ = finding("laspy-writes", c, mm, ref, "impl")
                f_["model"] = "the values assigned through laspy's API"
                dis.append(f_)
    register(ctx, "spec-writes", Rc)
    res, files = run_spec_writes(ref, Rc)
    _CACHE["spec_files"] = files
    for c, mms in zip(Rc, res):
        seen = set()
        for mm in mms:
            if mm[0] not in seen:
                seen.add(mm[0])
                f_ = finding("spec-writes", c, mm, ref, "impl")
                f_["model"] = "the values given to the specification encoder"
                dis.append(f_)
    # sessions on files of another producer: reference encoder -> laspy appends / edits / copies -> reference decoder
    S = _CASES["s"]
    register_sessions(ctx, S)
    io_ = {}
    for s_, mms in zip(S, run_sessions(ref, S, io_)):
        seen = set()
        for mm in mms:
            if mm[0] not in seen:
                seen.add(mm[0])
                f_ = session_finding(s_, mm, "impl")
                f_["model"] = "the original file's values, then the values assigned to the appended / edited points, each record at offset_to_point_data + i * record_length"
                dis.append(f_)
    dis += model_sessions(S, io_)
    dis += model_writer_sessions(S, io_)
    ctx.traces += len(io_)
    # records and headers from different sources: the specification decoder on what laspy accepted; the model of the hand-over
    MX = _CASES["m"]
    mix_out = run_mixes(ref, MX)
    register_mixes(ctx, MX, mix_out)
    for m_, (mms, _) in zip(MX, mix_out):
        for mm in mms:
            f_ = mix_finding(m_, mm, "impl")
            f_["model"] = "refused, or every value assigned through a named dimension of the record found under that name by the decoder"
            dis.append(f_)
    model_mixes(MX, mix_out, dis)
    # assignment routes into the elements of extra dimensions: decoder on the written file; the model of the assignments
    EL = _CASES["e"]
    register_elems(ctx, EL)
    for c_, mms in zip(EL, run_elems(ref, EL)):
        for mm in mms:
            f_ = elem_finding(c_, mm, "impl")
            f_["model"] = "the positions each assignment names hold its values, every other element is what it was"
            dis.append(f_)
    model_elems(EL, dis)
    # payloads of the other records the specification lays out: field names of the two transcriptions; the model of the
    # classification lookup table (Model/PointLayout.v lookup_parse: dict semantics of ClassificationLookupVlr.parse_record_data)
    # against laspy's class on the tables of the cases and on malformed ones (class numbers repeated, bytes behind the NUL of a
    # description, a payload that is not a whole number of records)
    outs = common.run_model([f"known_names {k}" for k in PY_KNOWN], name="c02")
    for k, o in zip(PY_KNOWN, outs):
        if o.split("|") != [n for n, _, _ in PY_KNOWN[k]]:
            dis.append({"kind": "reference codecs differ: fields of a known payload", "input": {"payload": k}, "model": o[:200], "impl": str(PY_KNOWN[k])[:200]})
    LI = _CASES.setdefault("lookups", lookup_inputs(ctx, Rc + [s_["base"] for s_ in S]))
    outs = common.run_model([f"lookup {common.hexb(pl)}" for pl in LI], name="c02")
    for pl, o in zip(LI, outs):
        impl_o = lookup_impl(pl)
        ctx.case(("lookup", pl), nontrivial=len(pl) > 0, sample={"direction": "lookup-table", "payload_bytes": len(pl)})
        ctx.count("classification lookup payload: " + ("whole records" if len(pl) % 16 == 0 else "not a whole number of records"))
        ctx.traces += 1
        if o != impl_o:
            dis.append({"kind": "lookup table: ClassificationLookupVlr.parse_record_data", "input": {"direction": "lookup-table", "payload": pl.hex()},
                        "model": o[:300], "impl": impl_o[:300]})
    # which records a file has: the model of LasHeader.read_from (Gen/GenC02.v resolve_record over laspy's tables) against laspy
    RI = _CASES.setdefault("resolve", resolve_inputs(ctx))
    outs = common.run_model([f"resolve {i['format']} {eb_tok(eb_pairs(i['extra_dims']))} {'T' if i['has_vlr'] else 'F'} {i['point_size']}" for i in RI], name="c02")
    for inp, o in zip(RI, outs):
        gen_o, spec_o = o.split(" / ")
        r = resolve_impl(inp)
        impl_o = f"ok {r[1]} {r[2]}" if r[0] == "ok" else f"err {r[1]}"
        ctx.case(("resolve", inp["format"], tuple(eb_pairs(inp["extra_dims"])), inp["has_vlr"], inp["point_size"]), nontrivial=True,
                 sample={k: inp[k] for k in ("direction", "format", "has_vlr", "point_size", "n")})
        ctx.count("record-length resolution: " + ("refused" if r[0] == "err" else "read"))
        ctx.traces += 1
        if gen_o != impl_o or (r[0] == "ok" and (r[3] != inp["n"] or not r[4])):
            dis.append({"kind": "resolve: record layout of the file", "input": inp, "model": gen_o,
                        "impl": impl_o + (f"; {r[3]} records, identical to the file's bytes: {r[4]}" if r[0] == "ok" else f" ({r[2]})")})
        elif gen_o != spec_o:
            dis.append({"kind": "resolve: laspy's rule differs from the specification's", "input": inp, "model": spec_o, "impl": impl_o})
    # keep one disagreement per class (the evidence file stays small), all classes
    uniq, seen = [], set()
    for d in dis:
        if d["kind"] not in seen:
            seen.add(d["kind"])
            uniq.append(d)
    ctx.extra["disagreement_classes"] = sorted(seen)
    return uniq


def search(ctx, seeds):
    """the property on the implementation, with the python transcription as the specification-only decoder / encoder"""
    W, Rc = cases_for(ctx)
    ref = PyRef()
    failing, seen = [], set()

    def add(direction, c, mms):
        for mm in mms:
            k = f"{direction}: {mm[0]}"
            if k not in seen:
                seen.add(k)
                failing.append(finding(direction, c, mm, ref, "observed"))
    # cases named by the correspondence first
    seeded_w = [s["input"]["case"] for s in seeds if isinstance(s.get("input"), dict) and s["input"].get("direction") == "laspy-writes"]
    seeded_r = [s["input"]["case"] for s in seeds if isinstance(s.get("input"), dict) and s["input"].get("direction") == "spec-writes"]
    seeds = [s for s in seeds if isinstance(s.get("input"), dict)]
    for c, mms in zip(seeded_w, run_laspy_writes(ref, seeded_w)):
        add("laspy-writes", c, mms)
    res, _ = run_spec_writes(ref, seeded_r)
    for c, mms in zip(seeded_r, res):
        add("spec-writes", c, mms)
    for c, mms in zip(W, run_laspy_writes(ref, W)):
        add("laspy-writes", c, mms)
    res, files = run_spec_writes(ref, Rc)
    for c, mms in zip(Rc, res):
        add("spec-writes", c, mms)
    # sessions: the ones named by the correspondence first
    SS = [s_["input"]["session"] for s_ in seeds if s_["input"].get("direction") == "session"] + _CASES["s"]
    for s_, mms in zip(SS, run_sessions(ref, SS)):
        for mm in mms:
            if mm[0] not in seen:
                seen.add(mm[0])
                failing.append(session_finding(s_, mm, "observed"))
    # records and headers from different sources; assignment routes into the elements of extra dimensions
    MM = [s_["input"]["mix"] for s_ in seeds if s_["input"].get("direction") == "mix"] + _CASES["m"]
    for m_, (mms, _) in zip(MM, run_mixes(ref, MM)):
        for mm in mms:
            f_ = mix_finding(m_, mm, "observed")
            if f_["kind"] not in seen:
                seen.add(f_["kind"])
                failing.append(f_)
    EE = [s_["input"]["case"] for s_ in seeds if s_["input"].get("direction") == "elements"] + _CASES["e"]
    for c_, mms in zip(EE, run_elems(ref, EE)):
        for mm in mms:
            if "element assignment: " + mm[0] not in seen:
                seen.add("element assignment: " + mm[0])
                failing.append(elem_finding(c_, mm, "observed"))
    # record-length resolution: the inputs named by the correspondence, then the whole sweep
    RI = _CASES.setdefault("resolve", resolve_inputs(ctx))
    for inp in [s_["input"] for s_ in seeds if isinstance(s_.get("input"), dict) and s_["input"].get("direction") == "resolve"] + RI:
        if "resolve" in seen:
            break
        obs = resolve_oracle(inp)
        if obs:
            seen.add("resolve")
            failing.append({"kind": "resolve: record length of the header not honoured", "input": inp, "observed": obs})
    # the two transcriptions of the specification must build the same files (harness self-check, recorded, not a failing input)
    mf = _CACHE.get("spec_files")
    if mf is not None:
        diff = [c["id"] for c, a, b in zip(Rc, mf, files) if a != b]
        if diff:
            ctx.notes.append(f"the extracted encoder and the python transcription built different files for cases {diff[:10]}")
    # wrongly decoded values first, then the other classes, assignments / hand-overs laspy refused and stale records last
    failing.sort(key=lambda f_: 2 if ("refused" in f_["kind"] or f_["kind"].startswith("stale record")) else
                 0 if any(w in f_["kind"] for w in ("point values", "element values", "point field")) else 1)
    return failing[:10]


def replay(ctx, data):
    inp = data.get("failing_input", {}).get("input")
    if isinstance(inp, dict) and inp.get("direction") in ("mix", "elements"):
        mms = run_mixes(PyRef(), [inp["mix"]])[0][0] if inp["direction"] == "mix" else run_elems(PyRef(), [inp["case"]])[0]
        for mm in mms:
            print(f"REPRODUCED: {inp['direction']}: {mm[0]}: {mm[1]}")
        if not mms:
            print("not reproduced")
        return 1 if mms else 0
    if isinstance(inp, dict) and inp.get("direction") == "resolve":
        obs = resolve_oracle(inp)
        print(f"REPRODUCED: resolve: {obs}" if obs else "not reproduced")
        return 1 if obs else 0
    if isinstance(inp, dict) and inp.get("direction") == "session":
        mms = run_sessions(PyRef(), [inp["session"]])[0]
        for mm in mms:
            print(f"REPRODUCED: {mm[0]}: {mm[1]}")
        if not mms:
            print("not reproduced")
        return 1 if mms else 0
    if not isinstance(inp, dict) or "case" not in inp:
        print("nothing to replay")
        return 0
    c = inp["case"]
    if inp["direction"] == "laspy-writes":
        mms = run_laspy_writes(PyRef(), [c])[0]
    else:
        mms = run_spec_writes(PyRef(), [c])[0][0]
    for mm in mms:
        print(f"REPRODUCED: {inp['direction']}: {mm[0]}: {mm[1]}")
    if not mms:
        print("not reproduced")
    return 1 if mms else 0
