"""C01 — lossless write/read round trip of point records.
Model: file_of / read_file of Model/Las.v. Correspondence: bytes written by LasData.write vs file_of; laspy.read of them vs read_file.
Search: round trip, idempotent rewrite and non-mutation directly on the implementation, over destination kinds."""
import io
import os
import shutil
import tempfile

import numpy as np

from harness import common, lasio, sessions

DRIVER = "c04"      # the aliasing models (Model/WriterAlias.v, Model/DataAlias.v) are served by bin/lasmodel_c04

ASSUMPTIONS = ["numpy's packed structured dtype memory image is the concatenation of its fields (checked by the byte comparison)",
               "uncompressed destinations"]

_CASES = None


def make_case(rng):
    import laspy
    h = lasio.rand_header(rng)
    if rng.random() < 0.45:
        lasio.add_extra_dims(rng, h)
    if rng.random() < 0.12:
        # legal names that begin or end with a blank, or contain one
        nm = rng.choice([" lead", "trail ", " both ", "in side", "x" * 31 + " ", " "])
        h.add_extra_dim(laspy.ExtraBytesParams(nm, rng.choice(["u1", "i2", "f4", "2u2", "f8"]), description=rng.choice(["", " d ", "desc"])))
    n = rng.choice([0, 1, 1, 2, 7, 64])
    pts = lasio.rand_points(rng, h, n)
    kind = rng.choice(["lasdata", "lasdata", "index", "rescale"])
    las = laspy.LasData(header=h, points=pts)
    if kind == "rescale" and n:
        # scale-aware record whose scaling differs from the header's at write time: the writer rescales a copy-in-place
        # and must hand the caller's record back untouched
        small = lasio.rand_points(rng, h, n, pattern="small")
        for k in "XYZ":
            small.array[k] = np.array([rng.randrange(-100000, 100000) for _ in range(n)], dtype=np.int32)
        h.scales = np.array([0.001, 0.001, 0.001]); h.offsets = np.array([0.0, 10.0, -5.0])
        las = laspy.LasData(header=h, points=small)
        # the header is edited afterwards: the record keeps the scaling it was created with
        las.header.scales = np.array([0.01, 0.001, 0.05])
        las.header.offsets = np.array([0.005, 10.0, 0.0])
        if not (np.any(las.points.scales != las.header.scales) or np.any(las.points.offsets != las.header.offsets)):
            return las, "bytesio"
        las._verif_rescale = True
    if kind == "index" and n:
        # a one-point (or few-point) cloud obtained by indexing
        ix = rng.choice([0, n - 1, slice(0, 1), np.array([n - 1]), slice(None, None, 2), slice(None, None, -1), slice(1, None, 3)])
        las = las[ix]      # the strided selection las[::2] included: its records are not contiguous in memory
    if las.header.version.minor >= 4 and rng.random() < 0.5:
        las.evlrs = laspy.vlrs.vlrlist.VLRList([lasio.rand_vlr(rng, 70000 if rng.random() < 0.05 else 300) for _ in range(rng.choice([1, 2]))])
    dest = rng.choice(["bytesio", "bytesio", "stream", "path"])
    return las, dest


def write_to(las, dest, tmpdir):
    if dest == "bytesio":
        b = io.BytesIO()
        las.write(b)
        return b.getvalue(), b.closed
    path = os.path.join(tmpdir, "t.las")
    if dest == "path":
        las.write(path)
        closed = None
    else:
        with open(path, "wb+") as f:
            las.write(f)
            closed = f.closed
    with open(path, "rb") as f:
        return f.read(), closed


def read_routes(rng, raw):
    """the records of the file through the other reading routes of laspy.open, every piece kept alive until all are read"""
    import laspy
    out = {}
    try:
        with laspy.open(io.BytesIO(raw)) as r:
            n = r.header.point_count
            k = rng.choice([1, 2, 3, max(1, n // 2), max(1, n), n + 5])
            pieces = list(r.chunk_iterator(k))
            out[f"chunk_iterator({k}) pieces kept"] = b"".join(lasio.rec_bytes(p) for p in pieces)
        with laspy.open(io.BytesIO(raw)) as r:
            a = r.read_points(n // 2)
            b = r.read_points(n // 2)
            c = r.read_points(-1)
            out["read_points(n//2) twice then the rest, all kept"] = lasio.rec_bytes(a) + lasio.rec_bytes(b) + lasio.rec_bytes(c)
        with laspy.open(io.BytesIO(raw)) as r:
            a = r.read_points(n // 2)
            b = r.read()
            out["read_points(n//2) then read()"] = lasio.rec_bytes(a) + lasio.rec_bytes(b.points)
    except Exception as ex:
        out["error"] = f"{type(ex).__name__}: {ex}"
    return out


def foreign_cases(ctx):
    """files laspy did not write: the extra-bytes VLR describes only the FIRST extra dimensions of the record, the rest of the
    extra bytes is undescribed (legal: a reader must keep them). Built from a laspy file by dropping trailing descriptors."""
    import laspy
    out = []
    for _ in range(ctx.n(40, 400)):
        rng = ctx.rng
        h = lasio.rand_header(rng, nvlrs=rng.choice([0, 1]))
        h.extra_vlr_bytes = b""
        lasio.add_extra_dims(rng, h, k=rng.choice([2, 3]))
        n = rng.choice([0, 1, 2, 9])
        las = laspy.LasData(header=h, points=lasio.rand_points(rng, h, n))
        raw = bytearray(lasio.write_las(las.header, las.points))
        hs = int.from_bytes(raw[94:96], "little")
        nv = int.from_bytes(raw[100:104], "little")
        pos = hs
        done = False
        for _v in range(nv):
            uid = bytes(raw[pos + 2:pos + 18]).split(b"\0")[0]
            rid = int.from_bytes(raw[pos + 18:pos + 20], "little")
            ln = int.from_bytes(raw[pos + 20:pos + 22], "little")
            if uid == b"LASF_Spec" and rid == 4 and ln >= 2 * 192:
                drop = rng.randrange(1, ln // 192)
                del raw[pos + 54 + ln - 192 * drop:pos + 54 + ln]
                raw[pos + 20:pos + 22] = (ln - 192 * drop).to_bytes(2, "little")
                off = int.from_bytes(raw[96:100], "little")
                raw[96:100] = (off - 192 * drop).to_bytes(4, "little")
                done = True
                break
            pos += 54 + ln
        if done:
            out.append((bytes(raw), lasio.rec_bytes(las.points), {"version": str(h.version), "format": h.point_format.id, "points": n,
                                                                   "extra": [(d.name, str(d.dtype)) for d in h.point_format.extra_dimensions], "descriptors_dropped": drop}))
    return out


def cases(ctx):
    global _CASES
    if _CASES is None:
        import laspy
        tmp = tempfile.mkdtemp(prefix="verif_c01_", dir="/var/tmp")
        _CASES = []
        try:
            for _ in range(ctx.n(300, 4000)):
                las, dest = make_case(ctx.rng)
                snap0 = sessions.snapshot(las)
                rec = {"las": las, "dest": dest, "desc": {"version": str(las.header.version), "format": las.header.point_format.id,
                                                           "extra": [(d.name, str(d.dtype), d.scales is not None) for d in las.point_format.extra_dimensions],
                                                           "points": len(las.points), "vlrs": len(las.vlrs), "evlrs": len(las.evlrs or []), "dest": dest}}
                try:
                    raw, closed = write_to(las, dest, tmp)
                    rec.update(raw=raw, closed=closed, write_error=None)
                except Exception as ex:
                    rec.update(raw=None, write_error=f"{type(ex).__name__}: {ex}")
                rec["unchanged"] = sessions.snapshot(las) == snap0
                rec["snap"] = snap0
                if rec["raw"] is not None:
                    try:
                        back = laspy.read(io.BytesIO(rec["raw"]))
                        rec["back"] = back
                        b2 = io.BytesIO()
                        back.write(b2)
                        rec["raw2"] = b2.getvalue()
                        rec["routes"] = read_routes(ctx.rng, rec["raw"])
                    except Exception as ex:
                        rec["read_error"] = f"{type(ex).__name__}: {ex}"
                _CASES.append(rec)
        finally:
            shutil.rmtree(tmp, ignore_errors=True)
    return _CASES


def correspond(ctx):
    ctx.extra["rule"] = ("LasData objects over every version/format, 45% with 1-3 extra dimensions (30 element types, scaled or not, opaque byte arrays), "
                         "counts {0,1,2,7,64} incl. one-point clouds obtained by indexing, record bytes uniform random / all ones / small / extremes "
                         "(NaN and inf patterns in float fields), +-VLRs, +-EVLRs, destinations BytesIO / binary file stream / path. "
                         "non-trivial = at least one point; distinct by the produced bytes")
    cs = cases(ctx)
    cmds, idx = [], []
    for i, c in enumerate(cs):
        if c["raw"] is None:
            continue
        las = c["las"]
        if getattr(las, "_verif_rescale", False):
            continue   # rescaling on write is not part of the byte-level model (C11); oracle only
        h = las.header
        d = lasio.header_assoc(h)
        evl = las.evlrs if (h.version.minor >= 4 and las.evlrs is not None) else []
        cmds.append(f"file_of {lasio.assoc_tok(d)} {lasio.vlrs_tok(h.vlrs)} {h.point_format.id} {h.point_format.size} {common.hexb(lasio.rec_bytes(las.points))} {lasio.vlrs_tok(evl)}")
        idx.append(i)
        cmds.append("read_file " + common.hexb(c["raw"]))
        idx.append(i)
    outs = common.run_model(cmds)
    dis = []
    for k in range(0, len(outs), 2):
        c = cs[idx[k]]
        ctx.traces += 1
        ctx.case(c["raw"], nontrivial=c["desc"]["points"] > 0, sample=c["desc"])
        ctx.count("dest:" + c["dest"])
        ctx.count("points:" + str(c["desc"]["points"]))
        if outs[k] != "ok " + common.hexb(c["raw"]):
            dis.append({"kind": "written bytes", "input": c["desc"], "model": outs[k][:80], "impl": common.hexb(c["raw"])[:80]})
        t = outs[k + 1].split(" ")
        back = c.get("back")
        if back is None:
            if t[0] == "ok":
                dis.append({"kind": "read of written file", "input": c["desc"], "model": "ok", "impl": c.get("read_error")})
            continue
        if t[0] != "ok" or common.unhex(t[7]) != lasio.rec_bytes(back.points) or int(t[5]) != back.header.point_format.size:
            dis.append({"kind": "read of written file", "input": c["desc"], "model": outs[k + 1][:80], "impl": f"{len(back.points)} points"})
    # ---- histories over derived LasData objects vs Model/DataAlias.v; writer sessions with caller edits vs Model/WriterAlias.v
    ctx.extra["rule"] += (" || histories (2..8 steps) over several live LasData: derive by indexing (slices incl. strided / reversed, masks, index lists, "
                          "one integer), laspy.convert, reading back, two read() of one open reader; edit ONE object in place (add/remove extra dimensions, "
                          "header scale/offset setters and arrays, change_scaling, vlrs, evlrs, global encoding, strings, record contents, points "
                          "re-assignment); after every derivation a structural sharing probe of parent and child perturbs each shared mutable object through "
                          "the child; after every step EVERY live object is written and read back and judged against what was done to that object alone. "
                          "|| files streamed through a writer kept open (LasWriter / laspy.open mode w, with-blocks incl. left by an exception) while the "
                          "caller edits in place the header it handed in, read back and compared with the header as it was at open")
    hs = [h for h in histories(ctx) if h.get("cmd")]
    mo = common.run_model([h["cmd"] for h in hs], name="c04")
    for h, line in zip(hs, mo):
        ctx.traces += 1
        got = [] if line == "-" else line.split(" ")
        want = [("ok:" + common.hexb(raw)) if raw is not None else "err" for _, raw in h["written"]]
        if len(got) != len(want) or any(g != w and not (w == "err" and g.startswith("err")) for g, w in zip(got, want)):
            which = [nm for (nm, _), g, w in zip(h["written"], got, want) if g != w]
            dis.append({"kind": KIND_READER if h["reader_twice"] else "derived objects: file written at the end of the history",
                        "input": h["desc"], "model": line[:100], "impl": f"objects whose file differs from the model's: {which or 'count'}"})
    st = [r for r in streamed(ctx) if r.get("cmd")]
    mo = common.run_model([r["cmd"] for r in st], name="c04")
    for r, line in zip(st, mo):
        ctx.traces += 1
        m = line.split(" ")
        exp_outs = ",".join(r["outs"]) or "-"
        if len(m) < 2 or m[0] != exp_outs:
            bad = [i for i, (a, b) in enumerate(zip(m[0].split(","), r["outs"])) if a != b]
            if bad and r["expect"][bad[0]] == "refused" and r["outs"][bad[0]] == "ok":
                ctx.count("streamed:chunk-of-another-format-accepted(C04's subject, reported there)")
                continue
            dis.append({"kind": "streamed: outcomes of the session", "input": r["desc"], "model": m[0][:100], "impl": exp_outs})
        elif r["raw"] is not None and m[1] != common.hexb(r["raw"]):
            dis.append({"kind": "streamed: file bytes", "input": r["desc"], "model": f"{(len(m[1]) - 1) // 2} bytes", "impl": f"{len(r['raw'])} bytes"})
    return dis


def search(ctx, seeds):
    failing, seen = [], set()

    def add(kind, inp, why):
        if kind not in seen:
            seen.add(kind)
            failing.append({"kind": kind, "input": inp, "observed": why})
    for c in cases(ctx):
        d = c["desc"]
        las = c["las"]
        if c["write_error"]:
            add("write failed: " + c["write_error"].split(":")[0], d, c["write_error"])
            continue
        if not c["unchanged"]:
            add("write modified the caller's object", d, "snapshot of records / header / VLRs differs after LasData.write")
        if c["dest"] in ("bytesio", "stream") and c["closed"]:
            add("write closed the caller's stream", d, "stream.closed after LasData.write")
        if "read_error" in c:
            add("written file cannot be read", d, c["read_error"])
            continue
        back = c["back"]
        if getattr(las, "_verif_rescale", False):
            # coordinates presented before the write are kept to within half a step of the file's scaling
            for i, k in enumerate("xyz"):
                err = np.abs(np.array(back[k]) - np.array(las.points[k]))
                if len(err) and float(err.max()) > 0.5 * float(back.header.scales[i]) * (1 + 1e-9) + 1e-12:
                    add("rescaled write moved coordinates", d, f"{k}: max error {float(err.max())} > half a step {0.5 * float(back.header.scales[i])}")
            if c.get("raw2") != c["raw"]:
                add("write after read is not idempotent", d, "rescaled file rewritten differently")
            continue
        if lasio.rec_bytes(back.points) != lasio.rec_bytes(las.points):
            add("records differ after round trip", d, f"{len(back.points)} records read, {len(las.points)} written; bytes differ")
        if len(back.points) != len(las.points) or back.header.point_count != len(las.points):
            add("point count differs after round trip", d, f"header {back.header.point_count}, records {len(back.points)}, written {len(las.points)}")
        if lasio.format_key(back.point_format) != lasio.format_key(las.point_format):
            add("point format differs after round trip", d, f"{lasio.format_key(back.point_format)} != {lasio.format_key(las.point_format)}")
        if str(back.header.version) != str(las.header.version):
            add("version differs after round trip", d, f"{back.header.version} != {las.header.version}")
        if [lasio.f64bits(x) for x in back.header.scales] != [lasio.f64bits(x) for x in las.header.scales] or \
           [lasio.f64bits(x) for x in back.header.offsets] != [lasio.f64bits(x) for x in las.header.offsets]:
            add("scales/offsets differ after round trip", d, f"{back.header.scales} {back.header.offsets}")
        if c.get("raw2") != c["raw"]:
            r2 = c.get("raw2") or b""
            diff = next((i for i, (a, b) in enumerate(zip(r2, c["raw"])) if a != b), min(len(r2), len(c["raw"])))
            add("write after read is not idempotent", d, f"first differing byte {diff}; lengths {len(c['raw'])} then {len(r2)}")
    for c in cases(ctx):
        if c.get("routes") and c.get("back") is not None and not getattr(c["las"], "_verif_rescale", False):
            want = lasio.rec_bytes(c["las"].points)
            for route, got in c["routes"].items():
                if route == "error":
                    add("reading route raises", c["desc"], got)
                elif got != want:
                    add("records differ through " + route.split("(")[0].split(" ")[0], dict(c["desc"], route=route), f"{len(got)} bytes read through {route}, {len(want)} written; contents differ")
    for raw, recs, d in foreign_cases(ctx):
        ctx.case(("foreign", raw), nontrivial=d["points"] > 0)
        ctx.count("foreign-partial-extra-bytes-vlr")
        try:
            back = laspy_read(raw)
            if lasio.rec_bytes(back.points) != recs or len(back.points) != d["points"]:
                add("foreign file (partly described extra bytes): records differ", d, f"{len(back.points)} records of {back.point_format.size} bytes read; the file holds {d['points']} records of {len(recs) // max(1, d['points'])} bytes")
                continue
            b1 = io.BytesIO(); back.write(b1)
            again = laspy_read(b1.getvalue())
            b2 = io.BytesIO(); again.write(b2)
            if lasio.rec_bytes(again.points) != recs:
                add("foreign file (partly described extra bytes): records differ after rewrite", d, "records of the rewritten file differ from the original ones")
            if b1.getvalue() != b2.getvalue():
                add("foreign file (partly described extra bytes): rewrite not idempotent", d, "write(read(f)) differs from write(read(write(read(f))))")
        except Exception as ex:
            add("foreign file (partly described extra bytes): " + type(ex).__name__, d, f"{type(ex).__name__}: {ex}")
    for hst in histories(ctx):
        ctx.case(repr(hst["desc"]), nontrivial=hst["edits"] > 0 and hst["live"] > 1)
        ctx.count("history:steps", hst["steps"])
        for hw in hst["derivations"]:
            ctx.count("history:derive:" + hw)
        for pr in hst["probe"]:
            ctx.count("history:probe-shared:" + pr.split(" (")[-1].rstrip(")") + ":" + pr.split(" is ")[0].split(".")[-1].split("[")[0])
        for kind, why, at in hst["failures"][:2]:
            add(kind, dict(hst["desc"], ops=hst["desc"]["ops"][:at]), why)
    for r in streamed(ctx):
        d = r["desc"]
        ctx.case(repr(d), nontrivial=len(d["ops"]) > 3)
        ctx.count("streamed:mode:" + r["mode"])
        if r["raw"] is None or (r["outs"] and r["outs"][0].startswith("open-err")):
            continue
        for what, where in r["problems"]:
            add("streamed: " + what, d, f"during: {where}")
        oh = r["open_header"]
        try:
            back = laspy_read(r["raw"])
        except Exception as ex:
            add("streamed file cannot be read", d, f"{type(ex).__name__}: {ex}; sharing probe: {r['probe'][:4]}")
            continue
        leaked = any(e == "refused" and o == "ok" for e, o in zip(r["expect"], r["outs"]))
        if lasio.format_key(back.point_format) != lasio.format_key(oh.point_format):
            add("streamed: point format differs after round trip", d, f"{lasio.format_key(back.point_format)} != {lasio.format_key(oh.point_format)} (the header when the writer was opened)")
        if [lasio.f64bits(x) for x in back.header.scales] != [lasio.f64bits(x) for x in oh.scales] or \
           [lasio.f64bits(x) for x in back.header.offsets] != [lasio.f64bits(x) for x in oh.offsets]:
            add("streamed: scales/offsets differ after round trip", d, f"read back {list(back.header.scales)} {list(back.header.offsets)}; the header had {list(oh.scales)} {list(oh.offsets)} when the writer was opened")
        if str(back.header.version) != str(oh.version):
            add("streamed: version differs after round trip", d, f"{back.header.version} != {oh.version}")
        if not leaked:
            if lasio.rec_bytes(back.points) != r["accepted"]:
                add("streamed: records differ after round trip", d, f"{len(lasio.rec_bytes(back.points))} bytes read back, {len(r['accepted'])} bytes were accepted by write_points; contents differ")
            if back.header.point_count * oh.point_format.size != len(r["accepted"]):
                add("streamed: point count differs after round trip", d, f"header says {back.header.point_count}, {len(r['accepted']) // oh.point_format.size} records were accepted")
        b2 = io.BytesIO()
        try:
            back.write(b2)
            if b2.getvalue() != r["raw"] and not leaked:
                add("streamed: write after read is not idempotent", d, f"lengths {len(r['raw'])} then {len(b2.getvalue())}")
        except Exception as ex:
            add("streamed: write after read is not idempotent", d, f"rewrite raised {type(ex).__name__}: {ex}")
    for las, budget, size, raised, same in failing_write_cases(ctx):
        ctx.case(("failing-write", budget, size), nontrivial=True)
        ctx.count("failing-write")
        if not same:
            add("a failed write left the caller's record modified", {"version": str(las.header.version), "format": las.header.point_format.id, "points": len(las.points),
                                                                     "fails_after_bytes": budget, "file_size": size},
                "the destination raised OSError during the write; the scale-aware record (rescaled in place for the write) was not restored")
    return failing[:10]


def laspy_read(raw):
    import laspy
    return laspy.read(io.BytesIO(raw))


class FailingStream(io.BytesIO):
    """accepts `budget` bytes, then raises on write (a full disk / closed pipe)"""

    def __init__(self, budget, once=False):
        super().__init__()
        self.budget = budget
        self.once = once          # a transient fault: only the first offending write fails
        self.failed = 0

    def write(self, b):
        if self.tell() + len(b) > self.budget and not (self.once and self.failed):
            self.failed += 1
            raise OSError("no space left on device (harness)")
        return super().write(b)


def failing_write_cases(ctx):
    """a write that fails half-way must still hand the caller's (rescaled in place) record back untouched"""
    import laspy
    out = []
    for _ in range(ctx.n(40, 400)):
        rng = ctx.rng
        las, _ = make_case(rng)
        tries = 0
        while not getattr(las, "_verif_rescale", False) and tries < 50:
            las, _ = make_case(rng)
            tries += 1
        if not getattr(las, "_verif_rescale", False):
            continue
        full = io.BytesIO()
        try:
            las.write(full)
        except Exception:
            continue
        size = len(full.getvalue())
        off = int.from_bytes(full.getvalue()[96:100], "little")
        budget = rng.choice([off, off + 1, max(off, size - 1), rng.randrange(off, size)])
        snap = sessions.snapshot(las)
        try:
            las.write(FailingStream(budget))
            raised = False
        except OSError:
            raised = True
        except Exception as ex:
            raised = True
        out.append((las, budget, size, raised, sessions.snapshot(las) == snap))
    return out


# =====================================================================================================================
# round 4: LasData objects DERIVED from one another (indexing, convert, read back, two reads of one open reader), each then used
# on its own; files streamed through a writer kept open while the caller edits the header it handed in
# =====================================================================================================================
KIND_READER = "two LasData read from one open reader are not independent"


def _observe(las):
    """what an operation on ANOTHER object must not change, and what a round trip must give back"""
    return {"format": lasio.format_key(las.points.point_format), "header_format": lasio.format_key(las.header.point_format),
            "scales": [lasio.f64bits(x) for x in las.header.scales], "offsets": [lasio.f64bits(x) for x in las.header.offsets],
            "version": str(las.header.version), "recs": lasio.rec_bytes(las.points), "count": len(las.points),
            "record_size": int(las.points.array.dtype.itemsize)}


def _pending_rescale(las):
    return bool(np.any(las.points.scales != las.header.scales) or np.any(las.points.offsets != las.header.offsets))


def _judge(las, exp, final):
    """C01 on one object, against the harness's own record `exp` of what was done to THIS object; returns [(kind, observed)]"""
    out = []
    now = _observe(las)
    for k in ("format", "header_format", "scales", "offsets", "version", "count", "record_size", "recs"):
        if now[k] != exp[k]:
            out.append((k, f"in memory: {k} is {str(now[k])[:80]}, the operations on this object left it at {str(exp[k])[:80]}"))
    snap = sessions.snapshot(las)
    b = io.BytesIO()
    try:
        las.write(b)
    except Exception as ex:
        if exp.get("pending") and isinstance(ex, OverflowError) and not out:
            # the header's scaling was edited on purpose and the stored coordinates do not fit it: a clean refusal (C11), nothing written back
            return [] if sessions.snapshot(las) == snap else [("a refused write modified the caller's object", f"{type(ex).__name__}: {ex}")]
        return [("write failed", f"{type(ex).__name__}: {ex}")] + [("changed by an operation on another object: " + k, w) for k, w in out]
    if sessions.snapshot(las) != snap:
        out.insert(0, ("write modified the caller's object", "snapshot of records / header / VLRs differs after LasData.write"))
    raw = b.getvalue()
    try:
        back = laspy_read(raw)
    except Exception as ex:
        return [("written file cannot be read", f"{type(ex).__name__}: {ex}")] + [("changed by an operation on another object: " + k, w) for k, w in out]
    res = []
    if exp.get("pending"):
        for i, k in enumerate("xyz"):
            err = np.abs(np.array(back[k]) - np.array(las.points[k]))
            mag = float(np.abs(np.array(las.points[k])).max()) if len(err) else 0.0
            if len(err) and float(err.max()) > 0.5 * float(back.header.scales[i]) * (1 + 1e-9) + 1e-12 + 1e-12 * mag:
                res.append(("rescaled write moved coordinates", f"{k}: max error {float(err.max())} > half a step {0.5 * float(back.header.scales[i])}"))
    elif lasio.rec_bytes(back.points) != exp["recs"]:
        res.append(("records differ after round trip", f"{len(back.points)} records of {back.points.array.dtype.itemsize} bytes read, {exp['count']} of {exp['record_size']} written; bytes differ"))
    if len(back.points) != exp["count"] or back.header.point_count != exp["count"]:
        res.append(("point count differs after round trip", f"header {back.header.point_count}, records {len(back.points)}, the object has {exp['count']}"))
    if lasio.format_key(back.point_format) != exp["format"]:
        res.append(("point format differs after round trip", f"{lasio.format_key(back.point_format)} != {exp['format']}"))
    if str(back.header.version) != exp["version"]:
        res.append(("version differs after round trip", f"{back.header.version} != {exp['version']}"))
    if [lasio.f64bits(x) for x in back.header.scales] != exp["scales"] or [lasio.f64bits(x) for x in back.header.offsets] != exp["offsets"]:
        res.append(("scales/offsets differ after round trip", f"read back {list(back.header.scales)} {list(back.header.offsets)}"))
    if final:
        b2 = io.BytesIO()
        try:
            back.write(b2)
            if b2.getvalue() != raw:
                res.append(("write after read is not idempotent", f"lengths {len(raw)} then {len(b2.getvalue())}"))
        except Exception as ex:
            res.append(("write after read is not idempotent", f"rewrite raised {type(ex).__name__}: {ex}"))
    return res + [("changed by an operation on another object: " + k, w) for k, w in out]


def data_history(rng, thorough=False):
    """a history over several live LasData objects: derive (indexing / convert / read back / two reads of one open reader), edit ONE
    object in place through the public API, probe the object graphs of parent and child for shared mutable objects and perturb them
    through the child; after every step every live object is judged by C01 against what was done to that object alone"""
    import laspy
    las0, _ = make_case(rng)
    while getattr(las0, "_verif_rescale", False):
        las0, _ = make_case(rng)
    live = [{"name": "las0", "las": las0}]
    live[0]["exp"] = _observe(las0)
    desc = {"version": str(las0.header.version), "format": las0.header.point_format.id, "points": len(las0.points),
            "extra": [(d.name, str(d.dtype)) for d in las0.point_format.extra_dimensions], "vlrs": len(las0.vlrs), "evlrs": len(las0.evlrs or []), "ops": []}
    log = desc["ops"]
    res = {"desc": desc, "failures": [], "probe": [], "steps": 0, "derivations": [], "edits": 0}
    forced = []
    # ---- the same history for the model (bin/lasmodel_c04 `dworld`): what the model is TOLD is only what each operation does to
    # the object it is applied to; `mirror` is what the model believes of every object
    mirror = {}
    names = ["las0"]          # model index of every object ever created

    def state_of(las):
        h = las.header
        evl = [lasio.vlr_tuple(v) for v in h.evlrs] if (h.version.minor >= 4 and h.evlrs is not None) else []
        return {"assoc": lasio.header_assoc(h), "vlrs": [lasio.vlr_tuple(v) for v in h.vlrs], "evlrs": evl,
                "fmt": sessions.format_value(las.points.point_format), "recs": lasio.rec_bytes(las.points)}

    def sync(name, las):
        """D token: what the operation just applied to `name` left in it, relative to what the model believes of that object"""
        cur, old = state_of(las), mirror[name]
        sets = {k: v for k, v in cur["assoc"].items() if k not in ("point_format_id", "point_size") and old["assoc"].get(k) != v}
        tok = "D{}!{}!{}!{}!{}!{}".format(names.index(name), lasio.assoc_tok(sets),
                                          "~" if cur["vlrs"] == old["vlrs"] else lasio.vlrs_tok(cur["vlrs"]),
                                          "~" if cur["evlrs"] == old["evlrs"] else lasio.vlrs_tok(cur["evlrs"]),
                                          "~" if cur["fmt"] == old["fmt"] else sessions.fmt_tok(cur["fmt"]),
                                          "~" if cur["recs"] == old["recs"] else common.hexb(cur["recs"]))
        mirror[name] = cur
        if tok.endswith("!-!~!~!~!~"):
            return []
        return [tok]

    st0 = state_of(las0)
    mirror["las0"] = st0
    toks = [lasio.assoc_tok(st0["assoc"]), lasio.vlrs_tok(st0["vlrs"]), lasio.vlrs_tok(st0["evlrs"]), sessions.fmt_tok(st0["fmt"]), common.hexb(st0["recs"])]

    def shares_records(o):
        return any(p is not o and len(p["las"].points) and len(o["las"].points) and np.shares_memory(p["las"].points.array, o["las"].points.array) for p in live)

    def derive():
        p = rng.choice(live)
        n = len(p["las"].points)
        how = rng.choice(["index", "index", "index", "convert", "reread", "reader-twice"])
        name = f"las{len(names)}"
        kids = []
        try:
            if how == "index":
                cands = [slice(None), slice(0, 1), slice(None, None, 2), slice(None, None, -1), slice(1, None, 3)]
                if n:
                    cands += [np.array([n - 1]), np.array([i % 2 == 0 for i in range(n)]), [0] * 2, list(range(n))[::-1], np.ones(n, dtype=bool), np.zeros(n, dtype=bool), rng.randrange(n)]
                else:
                    cands += [np.zeros(0, dtype=bool), []]
                ix = rng.choice(cands)
                kids = [(name, p["las"][ix], f"{name} = {p['name']}[{ix!r}]".replace("\n", ""))]
            elif how == "convert":
                ids = [i for i in lasio.COMPAT[str(p["las"].header.version)]]
                tid = rng.choice([None, None, rng.choice(ids)])
                kids = [(name, laspy.convert(p["las"], point_format_id=tid), f"{name} = laspy.convert({p['name']}, point_format_id={tid})")]
            elif how == "reread":
                b = io.BytesIO(); p["las"].write(b)
                kids = [(name, laspy_read(b.getvalue()), f"{name} = laspy.read(<bytes of {p['name']}.write()>)")]
            else:
                b = io.BytesIO(); p["las"].write(b)
                with laspy.open(io.BytesIO(b.getvalue())) as r:
                    a1 = r.read(); r.seek(0); a2 = r.read()
                n2 = f"las{len(names) + 1}"
                kids = [(name, a1, f"with laspy.open(<bytes of {p['name']}.write()>) as r: {name} = r.read(); r.seek(0); {n2} = r.read()"), (n2, a2, None)]
        except Exception as ex:
            log.append(f"# deriving from {p['name']} by {how} raised {type(ex).__name__}: {str(ex)[:80]}")
            return
        res["derivations"].append(how)
        for nm, las, label in kids:
            if label:
                log.append(label)
            o = {"name": nm, "las": las, "exp": _observe(las), "how": how}
            if _pending_rescale(las):
                o["exp"]["pending"] = True
            live.append(o)
            pi = names.index(p["name"])
            pm = mirror[p["name"]]
            if how == "index":
                size = max(1, pm["fmt"][1])
                cnt = len(pm["recs"]) // size
                try:
                    sel = [int(v) for v in np.atleast_1d(np.arange(cnt)[ix])]
                except Exception:
                    sel = []
                toks.append(f"X{pi}:" + (",".join(map(str, sel)) if sel else "-"))
                recs = b"".join(pm["recs"][k * size:(k + 1) * size] for k in sel)
            else:
                toks.append(f"K{pi}")
                recs = pm["recs"]
            names.append(nm)
            mirror[nm] = dict(pm, recs=recs)
            toks.extend(sync(nm, las))      # what deriving does to the NEW object beyond the copy (update_header, conversion, normalisation by the reader)
        # sharing probe between the parent and each child (and between the two children of one reader)
        pairs = [(p, live[-len(kids) + i]) for i in range(len(kids))] + ([(live[-2], live[-1])] if len(kids) == 2 else [])
        for a, c in pairs:
            for pa, pb, obj in sessions.shared_mutables(a["las"], c["las"]):
                res["probe"].append(f"{a['name']}{pa} is {c['name']}{pb} ({type(obj).__name__})")
                if a.get("how") == "reader-twice" and c.get("how") == "reader-twice" and not (isinstance(obj, np.ndarray) and obj.dtype.names):
                    a["sibling_shared"] = c["sibling_shared"] = True      # the two results of one reader share header-level objects
                    res["sibling_shared_any"] = True
                if isinstance(obj, np.ndarray) and obj.dtype.names:
                    continue        # record memory shared by a numpy view (slices): by numpy's semantics, each object still round-trips
                if ".dimensions[" in pb and isinstance(obj, np.ndarray):
                    continue        # scales / offsets inside an (immutable) DimensionInfo tuple: no public operation modifies them in place
                if isinstance(obj, laspy.VLR) or type(obj).__name__.endswith("Vlr") or "extra_bytes_structs" in pb:
                    res["shared_vlrs"] = res.get("shared_vlrs", 0) + 1
                    continue        # the payload of a (E)VLR object: VLR identity is C08's subject, C01 does not speak about it
                pert = sessions.perturbation_for(rng, pb, obj)
                if pert is not None and len(forced) < 6:
                    forced.append((c, pert))

    def edit():
        o = rng.choice(live)
        las = o["las"]
        nm = o["name"]
        ex = [d.name for d in las.point_format.extra_dimensions]
        k = rng.randrange(10000)
        t = rng.choice(["u1", "u2", "i4", "f8", "2u2", "3f4", "5u1"])
        i = rng.randrange(3)
        ax = "xyz"[i]
        sv = rng.choice([0.001, 0.01, 0.5, 2.0])
        ov = rng.choice([0.0, 1.5, -2.0, 1000.0])
        c = [(f"{nm}.add_extra_dim(ExtraBytesParams('h{k}', {t!r}))", lambda: las.add_extra_dim(laspy.ExtraBytesParams(f"h{k}", t))),
             (f"{nm}.add_extra_dims([ExtraBytesParams('h{k}', {t!r}), ExtraBytesParams('g{k}', 'u1')])", lambda: las.add_extra_dims([laspy.ExtraBytesParams(f"h{k}", t), laspy.ExtraBytesParams(f"g{k}", "u1")])),
             (f"{nm}.add_extra_dim(ExtraBytesParams('h{k}', {t!r}))", lambda: las.add_extra_dim(laspy.ExtraBytesParams(f"h{k}", t)))]
        if las.points.array.ndim:      # re-expressing a 0-d record in another scaling is C11's business (it fails today)
            c += [(f"{nm}.header.{ax}_offset = {ov!r}", lambda: setattr(las.header, f"{ax}_offset", ov)),
                  (f"{nm}.header.{ax}_scale = {sv!r}", lambda: setattr(las.header, f"{ax}_scale", sv)),
                  (f"{nm}.header.scales[{i}] *= 2", lambda: las.header.scales.__setitem__(i, las.header.scales[i] * 2)),
                  (f"{nm}.header.offsets[{i}] += 1.5", lambda: las.header.offsets.__setitem__(i, las.header.offsets[i] + 1.5)),
                  (f"{nm}.header.offsets = np.array([{ov!r}]*3)", lambda: setattr(las.header, "offsets", np.array([ov] * 3)))]
        if las.points.array.ndim and not shares_records(o):
            c += [(f"{nm}.change_scaling(offsets=[{ov!r}]*3)", lambda: las.change_scaling(offsets=np.array([ov] * 3)))]
        c += [(f"{nm}.vlrs.append(VLR)", lambda: las.vlrs.append(lasio.rand_vlr(rng, 40))),
             (f"{nm}.header.global_encoding.value ^= 1", lambda: setattr(las.header.global_encoding, "value", las.header.global_encoding.value ^ 1)),
             (f"{nm}.header.system_identifier = 'edited'", lambda: setattr(las.header, "system_identifier", "edited")),
             (f"{nm}.update_header()", lambda: las.update_header())]
        if ex:
            v = rng.choice(ex)
            c += [(f"{nm}.remove_extra_dim({v!r})", lambda: las.remove_extra_dim(v))] * 2
            c += [(f"{nm}.remove_extra_dims({ex!r})", lambda: las.remove_extra_dims(list(ex)))]
        if len(las.vlrs) and type(las.vlrs[-1]).__name__ != "ExtraBytesVlr":     # removing the descriptor of one's own extra dimensions is the caller's error
            c += [(f"{nm}.vlrs.pop()", lambda: las.vlrs.pop())]
        if las.header.version.minor >= 4:
            c += [(f"{nm}.evlrs = VLRList([VLR])", lambda: setattr(las, "evlrs", laspy.vlrs.vlrlist.VLRList([lasio.rand_vlr(rng, 30)])))]
        if len(las.points) and not shares_records(o):
            val = rng.randrange(32)
            c += [(f"{nm}.classification = {val}  (all points)", lambda: setattr(las, "classification", np.full(len(las.points), val % (32 if las.point_format.id < 6 else 256), dtype=np.uint8))),
                  (f"{nm}.X = {nm}.X[::-1]", lambda: setattr(las, "X", np.array(las.X)[::-1].copy())),
                  (f"{nm}.points = {nm}.points[::-1]  (same format)", lambda: setattr(las, "points", las.points[::-1]))]
        label, th = rng.choice(c)
        run_edit(o, label, th)

    def run_edit(o, label, th):
        try:
            th()
            log.append(label)
        except Exception as ex:
            # what a FAILED operation leaves behind is the business of the property about that operation (C13, C11): the object
            # is not used any more; every other live object still is
            log.append(label + f"   # raised {type(ex).__name__}: {str(ex)[:60]} -- {o['name']} is not used any more")
            live.remove(o)
            res["failed_edits"] = res.get("failed_edits", 0) + 1
            return
        res["edits"] += 1
        o["exp"] = _observe(o["las"])
        if _pending_rescale(o["las"]):
            o["exp"]["pending"] = True
        toks.extend(sync(o["name"], o["las"]))

    def judge_all(final=False):
        for o in live:
            for kind, why in _judge(o["las"], o["exp"], final):
                if o.get("sibling_shared"):
                    res["failures"].append((KIND_READER, f"{o['name']}: {kind}: {why}", len(log)))
                else:
                    res["failures"].append(("derived objects: " + kind, f"{o['name']}: {why}", len(log)))
            if res["failures"]:
                return True
        return False

    nsteps = rng.randrange(2, 6 if not thorough else 9)
    for step in range(nsteps):
        res["steps"] += 1
        if forced and rng.random() < 0.8:
            c, (lab, th) = forced.pop(0)
            if c not in live:
                continue
            run_edit(c, f"PROBE-DIRECTED through {c['name']}: " + lab, th)
        elif len(live) == 0:
            break
        elif len(live) < 2 or (rng.random() < 0.4 and len(live) < 5):
            derive()
            continue
        else:
            edit()
        if judge_all():
            break
    if not res["failures"]:
        judge_all(final=True)
    res["live"] = len(live)
    # what every live object writes at the end, for the model comparison (objects whose header scaling was edited are re-expressed
    # by the writer: C11's rule, not modelled here)
    res["written"] = []
    for o in live:
        if o["exp"].get("pending") or _pending_rescale(o["las"]):
            continue
        b = io.BytesIO()
        try:
            o["las"].write(b)
            res["written"].append((o["name"], b.getvalue()))
        except Exception as ex:
            res["written"].append((o["name"], None))
        toks.append(f"W{names.index(o['name'])}")
    res["cmd"] = "dworld " + " ".join(toks)
    res["reader_twice"] = any(o.get("sibling_shared") for o in live) or bool(res.get("sibling_shared_any"))
    return res


_HIST = None
_STREAMED = None


def histories(ctx):
    global _HIST
    if _HIST is None:
        cases(ctx)
        _HIST = [data_history(ctx.rng, ctx.thorough()) for _ in range(ctx.n(250, 3000))]
    return _HIST


def streamed(ctx):
    """writer sessions in which the caller keeps editing the header it handed in (sessions.alias_writer_session), judged by C01:
    what was streamed is read back byte for byte, with the format, scaling and version the header had when the writer was opened"""
    global _STREAMED
    if _STREAMED is None:
        histories(ctx)
        tmp = tempfile.mkdtemp(prefix="verif_c01s_", dir="/var/tmp")
        try:
            _STREAMED = [sessions.alias_writer_session(ctx.rng, ctx.thorough(), tmp) for _ in range(ctx.n(200, 2500))]
        finally:
            shutil.rmtree(tmp, ignore_errors=True)
    return _STREAMED


def replay(ctx, data):
    print("replay: re-run ./check C01 with the same VERIF_SEED; the failing case is described in the file")
    return 0
