"""C01 — lossless write/read round trip of point records.
Model: file_of / read_file of Model/Las.v. Correspondence: bytes written by LasData.write vs file_of; laspy.read of them vs read_file.
Search: round trip, idempotent rewrite and non-mutation directly on the implementation, over destination kinds."""
import io
import os
import shutil
import tempfile

import numpy as np

from harness import common, lasio, sessions

ASSUMPTIONS = ["numpy's packed structured dtype memory image is the concatenation of its fields (checked by the byte comparison)",
               "uncompressed destinations"]

_CASES = None


def make_case(rng):
    import laspy
    h = lasio.rand_header(rng)
    if rng.random() < 0.45:
        lasio.add_extra_dims(rng, h)
    if rng.random() < 0.12:
        # legal names that begin or end with a blank, or contain one
        nm = rng.choice([" lead", "trail ", " both ", "in side", "x" * 31 + " ", " "])
        h.add_extra_dim(laspy.ExtraBytesParams(nm, rng.choice(["u1", "i2", "f4", "2u2", "f8"]), description=rng.choice(["", " d ", "desc"])))
    n = rng.choice([0, 1, 1, 2, 7, 64])
    pts = lasio.rand_points(rng, h, n)
    kind = rng.choice(["lasdata", "lasdata", "index", "rescale"])
    las = laspy.LasData(header=h, points=pts)
    if kind == "rescale" and n:
        # scale-aware record whose scaling differs from the header's at write time: the writer rescales a copy-in-place
        # and must hand the caller's record back untouched
        small = lasio.rand_points(rng, h, n, pattern="small")
        for k in "XYZ":
            small.array[k] = np.array([rng.randrange(-100000, 100000) for _ in range(n)], dtype=np.int32)
        h.scales = np.array([0.001, 0.001, 0.001]); h.offsets = np.array([0.0, 10.0, -5.0])
        las = laspy.LasData(header=h, points=small)
        # the header is edited afterwards: the record keeps the scaling it was created with
        las.header.scales = np.array([0.01, 0.001, 0.05])
        las.header.offsets = np.array([0.005, 10.0, 0.0])
        if not (np.any(las.points.scales != las.header.scales) or np.any(las.points.offsets != las.header.offsets)):
            return las, "bytesio"
        las._verif_rescale = True
    if kind == "index" and n:
        # a one-point (or few-point) cloud obtained by indexing
        ix = rng.choice([0, n - 1, slice(0, 1), np.array([n - 1]), slice(None, None, 2), slice(None, None, -1), slice(1, None, 3)])
        las = las[ix]      # the strided selection las[::2] included: its records are not contiguous in memory
    if las.header.version.minor >= 4 and rng.random() < 0.5:
        las.evlrs = laspy.vlrs.vlrlist.VLRList([lasio.rand_vlr(rng, 70000 if rng.random() < 0.05 else 300) for _ in range(rng.choice([1, 2]))])
    dest = rng.choice(["bytesio", "bytesio", "stream", "path"])
    return las, dest


def write_to(las, dest, tmpdir):
    if dest == "bytesio":
        b = io.BytesIO()
        las.write(b)
        return b.getvalue(), b.closed
    path = os.path.join(tmpdir, "t.las")
    if dest == "path":
        las.write(path)
        closed = None
    else:
        with open(path, "wb+") as f:
            las.write(f)
            closed = f.closed
    with open(path, "rb") as f:
        return f.read(), closed


def read_routes(rng, raw):
    """the records of the file through the other reading routes of laspy.open, every piece kept alive until all are read"""
    import laspy
    out = {}
    try:
        with laspy.open(io.BytesIO(raw)) as r:
            n = r.header.point_count
            k = rng.choice([1, 2, 3, max(1, n // 2), max(1, n), n + 5])
            pieces = list(r.chunk_iterator(k))
            out[f"chunk_iterator({k}) pieces kept"] = b"".join(lasio.rec_bytes(p) for p in pieces)
        with laspy.open(io.BytesIO(raw)) as r:
            a = r.read_points(n // 2)
            b = r.read_points(n // 2)
            c = r.read_points(-1)
            out["read_points(n//2) twice then the rest, all kept"] = lasio.rec_bytes(a) + lasio.rec_bytes(b) + lasio.rec_bytes(c)
        with laspy.open(io.BytesIO(raw)) as r:
            a = r.read_points(n // 2)
            b = r.read()
            out["read_points(n//2) then read()"] = lasio.rec_bytes(a) + lasio.rec_bytes(b.points)
    except Exception as ex:
        out["error"] = f"{type(ex).__name__}: {ex}"
    return out


def foreign_cases(ctx):
    """files laspy did not write: the extra-bytes VLR describes only the FIRST extra dimensions of the record, the rest of the
    extra bytes is undescribed (legal: a reader must keep them). Built from a laspy file by dropping trailing descriptors."""
    import laspy
    out = []
    for _ in range(ctx.n(40, 400)):
        rng = ctx.rng
        h = lasio.rand_header(rng, nvlrs=rng.choice([0, 1]))
        h.extra_vlr_bytes = b""
        lasio.add_extra_dims(rng, h, k=rng.choice([2, 3]))
        n = rng.choice([0, 1, 2, 9])
        las = laspy.LasData(header=h, points=lasio.rand_points(rng, h, n))
        raw = bytearray(lasio.write_las(las.header, las.points))
        hs = int.from_bytes(raw[94:96], "little")
        nv = int.from_bytes(raw[100:104], "little")
        pos = hs
        done = False
        for _v in range(nv):
            uid = bytes(raw[pos + 2:pos + 18]).split(b"\0")[0]
            rid = int.from_bytes(raw[pos + 18:pos + 20], "little")
            ln = int.from_bytes(raw[pos + 20:pos + 22], "little")
            if uid == b"LASF_Spec" and rid == 4 and ln >= 2 * 192:
                drop = rng.randrange(1, ln // 192)
                del raw[pos + 54 + ln - 192 * drop:pos + 54 + ln]
                raw[pos + 20:pos + 22] = (ln - 192 * drop).to_bytes(2, "little")
                off = int.from_bytes(raw[96:100], "little")
                raw[96:100] = (off - 192 * drop).to_bytes(4, "little")
                done = True
                break
            pos += 54 + ln
        if done:
            out.append((bytes(raw), lasio.rec_bytes(las.points), {"version": str(h.version), "format": h.point_format.id, "points": n,
                                                                   "extra": [(d.name, str(d.dtype)) for d in h.point_format.extra_dimensions], "descriptors_dropped": drop}))
    return out


def cases(ctx):
    global _CASES
    if _CASES is None:
        import laspy
        tmp = tempfile.mkdtemp(prefix="verif_c01_", dir="/var/tmp")
        _CASES = []
        try:
            for _ in range(ctx.n(300, 4000)):
                las, dest = make_case(ctx.rng)
                snap0 = sessions.snapshot(las)
                rec = {"las": las, "dest": dest, "desc": {"version": str(las.header.version), "format": las.header.point_format.id,
                                                           "extra": [(d.name, str(d.dtype), d.scales is not None) for d in las.point_format.extra_dimensions],
                                                           "points": len(las.points), "vlrs": len(las.vlrs), "evlrs": len(las.evlrs or []), "dest": dest}}
                try:
                    raw, closed = write_to(las, dest, tmp)
                    rec.update(raw=raw, closed=closed, write_error=None)
                except Exception as ex:
                    rec.update(raw=None, write_error=f"{type(ex).__name__}: {ex}")
                rec["unchanged"] = sessions.snapshot(las) == snap0
                rec["snap"] = snap0
                if rec["raw"] is not None:
                    try:
                        back = laspy.read(io.BytesIO(rec["raw"]))
                        rec["back"] = back
                        b2 = io.BytesIO()
                        back.write(b2)
                        rec["raw2"] = b2.getvalue()
                        rec["routes"] = read_routes(ctx.rng, rec["raw"])
                    except Exception as ex:
                        rec["read_error"] = f"{type(ex).__name__}: {ex}"
                _CASES.append(rec)
        finally:
            shutil.rmtree(tmp, ignore_errors=True)
    return _CASES


def correspond(ctx):
    ctx.extra["rule"] = ("LasData objects over every version/format, 45% with 1-3 extra dimensions (30 element types, scaled or not, opaque byte arrays), "
                         "counts {0,1,2,7,64} incl. one-point clouds obtained by indexing, record bytes uniform random / all ones / small / extremes "
                         "(NaN and inf patterns in float fields), +-VLRs, +-EVLRs, destinations BytesIO / binary file stream / path. "
                         "non-trivial = at least one point; distinct by the produced bytes")
    cs = cases(ctx)
    cmds, idx = [], []
    for i, c in enumerate(cs):
        if c["raw"] is None:
            continue
        las = c["las"]
        if getattr(las, "_verif_rescale", False):
            continue   # rescaling on write is not part of the byte-level model (C11); oracle only
        h = las.header
        d = lasio.header_assoc(h)
        evl = las.evlrs if (h.version.minor >= 4 and las.evlrs is not None) else []
        cmds.append(f"file_of {lasio.assoc_tok(d)} {lasio.vlrs_tok(h.vlrs)} {h.point_format.id} {h.point_format.size} {common.hexb(lasio.rec_bytes(las.points))} {lasio.vlrs_tok(evl)}")
        idx.append(i)
        cmds.append("read_file " + common.hexb(c["raw"]))
        idx.append(i)
    outs = common.run_model(cmds)
    dis = []
    for k in range(0, len(outs), 2):
        c = cs[idx[k]]
        ctx.traces += 1
        ctx.case(c["raw"], nontrivial=c["desc"]["points"] > 0, sample=c["desc"])
        ctx.count("dest:" + c["dest"])
        ctx.count("points:" + str(c["desc"]["points"]))
        if outs[k] != "ok " + common.hexb(c["raw"]):
            dis.append({"kind": "written bytes", "input": c["desc"], "model": outs[k][:80], "impl": common.hexb(c["raw"])[:80]})
        t = outs[k + 1].split(" ")
        back = c.get("back")
        if back is None:
            if t[0] == "ok":
                dis.append({"kind": "read of written file", "input": c["desc"], "model": "ok", "impl": c.get("read_error")})
            continue
        if t[0] != "ok" or common.unhex(t[7]) != lasio.rec_bytes(back.points) or int(t[5]) != back.header.point_format.size:
            dis.append({"kind": "read of written file", "input": c["desc"], "model": outs[k + 1][:80], "impl": f"{len(back.points)} points"})
    return dis


def search(ctx, seeds):
    failing, seen = [], set()

    def add(kind, inp, why):
        if kind not in seen:
            seen.add(kind)
            failing.append({"kind": kind, "input": inp, "observed": why})
    for c in cases(ctx):
        d = c["desc"]
        las = c["las"]
        if c["write_error"]:
            add("write failed: " + c["write_error"].split(":")[0], d, c["write_error"])
            continue
        if not c["unchanged"]:
            add("write modified the caller's object", d, "snapshot of records / header / VLRs differs after LasData.write")
        if c["dest"] in ("bytesio", "stream") and c["closed"]:
            add("write closed the caller's stream", d, "stream.closed after LasData.write")
        if "read_error" in c:
            add("written file cannot be read", d, c["read_error"])
            continue
        back = c["back"]
        if getattr(las, "_verif_rescale", False):
            # coordinates presented before the write are kept to within half a step of the file's scaling
            for i, k in enumerate("xyz"):
                err = np.abs(np.array(back[k]) - np.array(las.points[k]))
                if len(err) and float(err.max()) > 0.5 * float(back.header.scales[i]) * (1 + 1e-9) + 1e-12:
                    add("rescaled write moved coordinates", d, f"{k}: max error {float(err.max())} > half a step {0.5 * float(back.header.scales[i])}")
            if c.get("raw2") != c["raw"]:
                add("write after read is not idempotent", d, "rescaled file rewritten differently")
            continue
        if lasio.rec_bytes(back.points) != lasio.rec_bytes(las.points):
            add("records differ after round trip", d, f"{len(back.points)} records read, {len(las.points)} written; bytes differ")
        if len(back.points) != len(las.points) or back.header.point_count != len(las.points):
            add("point count differs after round trip", d, f"header {back.header.point_count}, records {len(back.points)}, written {len(las.points)}")
        if lasio.format_key(back.point_format) != lasio.format_key(las.point_format):
            add("point format differs after round trip", d, f"{lasio.format_key(back.point_format)} != {lasio.format_key(las.point_format)}")
        if str(back.header.version) != str(las.header.version):
            add("version differs after round trip", d, f"{back.header.version} != {las.header.version}")
        if [lasio.f64bits(x) for x in back.header.scales] != [lasio.f64bits(x) for x in las.header.scales] or \
           [lasio.f64bits(x) for x in back.header.offsets] != [lasio.f64bits(x) for x in las.header.offsets]:
            add("scales/offsets differ after round trip", d, f"{back.header.scales} {back.header.offsets}")
        if c.get("raw2") != c["raw"]:
            r2 = c.get("raw2") or b""
            diff = next((i for i, (a, b) in enumerate(zip(r2, c["raw"])) if a != b), min(len(r2), len(c["raw"])))
            add("write after read is not idempotent", d, f"first differing byte {diff}; lengths {len(c['raw'])} then {len(r2)}")
    for c in cases(ctx):
        if c.get("routes") and c.get("back") is not None and not getattr(c["las"], "_verif_rescale", False):
            want = lasio.rec_bytes(c["las"].points)
            for route, got in c["routes"].items():
                if route == "error":
                    add("reading route raises", c["desc"], got)
                elif got != want:
                    add("records differ through " + route.split("(")[0].split(" ")[0], dict(c["desc"], route=route), f"{len(got)} bytes read through {route}, {len(want)} written; contents differ")
    for raw, recs, d in foreign_cases(ctx):
        ctx.case(("foreign", raw), nontrivial=d["points"] > 0)
        ctx.count("foreign-partial-extra-bytes-vlr")
        try:
            back = laspy_read(raw)
            if lasio.rec_bytes(back.points) != recs or len(back.points) != d["points"]:
                add("foreign file (partly described extra bytes): records differ", d, f"{len(back.points)} records of {back.point_format.size} bytes read; the file holds {d['points']} records of {len(recs) // max(1, d['points'])} bytes")
                continue
            b1 = io.BytesIO(); back.write(b1)
            again = laspy_read(b1.getvalue())
            b2 = io.BytesIO(); again.write(b2)
            if lasio.rec_bytes(again.points) != recs:
                add("foreign file (partly described extra bytes): records differ after rewrite", d, "records of the rewritten file differ from the original ones")
            if b1.getvalue() != b2.getvalue():
                add("foreign file (partly described extra bytes): rewrite not idempotent", d, "write(read(f)) differs from write(read(write(read(f))))")
        except Exception as ex:
            add("foreign file (partly described extra bytes): " + type(ex).__name__, d, f"{type(ex).__name__}: {ex}")
    for las, budget, size, raised, same in failing_write_cases(ctx):
        ctx.case(("failing-write", budget, size), nontrivial=True)
        ctx.count("failing-write")
        if not same:
            add("a failed write left the caller's record modified", {"version": str(las.header.version), "format": las.header.point_format.id, "points": len(las.points),
                                                                     "fails_after_bytes": budget, "file_size": size},
                "the destination raised OSError during the write; the scale-aware record (rescaled in place for the write) was not restored")
    return failing[:8]


def laspy_read(raw):
    import laspy
    return laspy.read(io.BytesIO(raw))


class FailingStream(io.BytesIO):
    """accepts `budget` bytes, then raises on write (a full disk / closed pipe)"""

    def __init__(self, budget, once=False):
        super().__init__()
        self.budget = budget
        self.once = once          # a transient fault: only the first offending write fails
        self.failed = 0

    def write(self, b):
        if self.tell() + len(b) > self.budget and not (self.once and self.failed):
            self.failed += 1
            raise OSError("no space left on device (harness)")
        return super().write(b)


def failing_write_cases(ctx):
    """a write that fails half-way must still hand the caller's (rescaled in place) record back untouched"""
    import laspy
    out = []
    for _ in range(ctx.n(40, 400)):
        rng = ctx.rng
        las, _ = make_case(rng)
        tries = 0
        while not getattr(las, "_verif_rescale", False) and tries < 50:
            las, _ = make_case(rng)
            tries += 1
        if not getattr(las, "_verif_rescale", False):
            continue
        full = io.BytesIO()
        try:
            las.write(full)
        except Exception:
            continue
        size = len(full.getvalue())
        off = int.from_bytes(full.getvalue()[96:100], "little")
        budget = rng.choice([off, off + 1, max(off, size - 1), rng.randrange(off, size)])
        snap = sessions.snapshot(las)
        try:
            las.write(FailingStream(budget))
            raised = False
        except OSError:
            raised = True
        except Exception as ex:
            raised = True
        out.append((las, budget, size, raised, sessions.snapshot(las) == snap))
    return out


def replay(ctx, data):
    print("replay: re-run ./check C01 with the same VERIF_SEED; the failing case is described in the file")
    return 0
