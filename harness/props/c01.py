"""C01 — lossless write/read round trip of point records.
Model: file_of / read_file of Model/Las.v. Correspondence: bytes written by LasData.write vs file_of; laspy.read of them vs read_file.
Search: round trip, idempotent rewrite and non-mutation directly on the implementation, over destination kinds.
Round 4: histories over LasData objects derived from one another (Model/DataAlias.v), files streamed through a writer kept open while the
caller edits its header (Model/WriterAlias.v). Round 5: pairings of every way of building a header with every relation of the record's format
to it (Model/Pairing.v), large records.
Round 6: (a) "not modified" means contents AND identity: every snapshot taken around a write also holds which record object / array object /
memory address / strides / header / format / VLR objects the LasData refers to (_snap, _ident); (b) VIEW sessions (view_session;
Model/RecView.v, `vsess` of bin/lasmodel_c04): selections that are numpy views (slices of any step and sign, of LasData, ScaleAware and bare
PackedPointRecord clouds, views of views) and copies (masks, index lists), written through every entry point and edited through any of
them, judged after every step against the harness's own buffers-and-index-maps picture; (c) READING sessions (reading_session;
Model/ReadBack.v on the cursor of Model/Cursor.v, `crun` of the main driver): chunk iterators created at any time, several at once, stepped,
drained and drained again around seeks and read_points on one open reader; (d) header scalings edited by every order of magnitude after
the records were made (near_rescale_cases); more than 64 MiB in one call (thorough tier).
Round 7: INDEPENDENT clouds (independent_session; DCreate of Model/DataAlias.v, token N of `dworld`): several clouds made in one process by
laspy.create() / LasHeader() with the defaults / laspy.read, one edited at a time through every spelling of an edit of an array-valued header
field (element setters included), every other one compared with its snapshot and round-tripped; each session in a forked process of its own."""
import io
import os
import shutil
import tempfile

import numpy as np

from harness import common, lasio, sessions

DRIVER = "c04"      # the aliasing models (Model/WriterAlias.v, Model/DataAlias.v) are served by bin/lasmodel_c04

ASSUMPTIONS = ["numpy's packed structured dtype memory image is the concatenation of its fields (checked by the byte comparison)",
               "uncompressed destinations"]

_CASES = None


def make_case(rng):
    import laspy
    h = lasio.rand_header(rng)
    if rng.random() < 0.45:
        lasio.add_extra_dims(rng, h)
    if rng.random() < 0.12:
        # legal names that begin or end with a blank, or contain one
        nm = rng.choice([" lead", "trail ", " both ", "in side", "x" * 31 + " ", " "])
        h.add_extra_dim(laspy.ExtraBytesParams(nm, rng.choice(["u1", "i2", "f4", "2u2", "f8"]), description=rng.choice(["", " d ", "desc"])))
    n = rng.choice([0, 1, 1, 2, 7, 64])
    pts = lasio.rand_points(rng, h, n)
    kind = rng.choice(["lasdata", "lasdata", "index", "rescale"])
    las = laspy.LasData(header=h, points=pts)
    if kind == "rescale" and n:
        # scale-aware record whose scaling differs from the header's at write time: the writer rescales a copy-in-place
        # and must hand the caller's record back untouched
        small = lasio.rand_points(rng, h, n, pattern="small")
        for k in "XYZ":
            small.array[k] = np.array([rng.randrange(-100000, 100000) for _ in range(n)], dtype=np.int32)
        h.scales = np.array([0.001, 0.001, 0.001]); h.offsets = np.array([0.0, 10.0, -5.0])
        las = laspy.LasData(header=h, points=small)
        # the header is edited afterwards: the record keeps the scaling it was created with
        las.header.scales = np.array([0.01, 0.001, 0.05])
        las.header.offsets = np.array([0.005, 10.0, 0.0])
        if not (np.any(las.points.scales != las.header.scales) or np.any(las.points.offsets != las.header.offsets)):
            return las, "bytesio"
        las._verif_rescale = True
    if kind == "index" and n:
        # a one-point (or few-point) cloud obtained by indexing
        ix = rng.choice([0, n - 1, slice(0, 1), np.array([n - 1]), slice(None, None, 2), slice(None, None, -1), slice(1, None, 3)])
        las = las[ix]      # the strided selection las[::2] included: its records are not contiguous in memory
    if las.header.version.minor >= 4 and rng.random() < 0.5:
        las.evlrs = laspy.vlrs.vlrlist.VLRList([lasio.rand_vlr(rng, 70000 if rng.random() < 0.05 else 300) for _ in range(rng.choice([1, 2]))])
    dest = rng.choice(["bytesio", "bytesio", "stream", "path"])
    return las, dest


def write_to(las, dest, tmpdir):
    if dest == "bytesio":
        b = io.BytesIO()
        las.write(b)
        return b.getvalue(), b.closed
    path = os.path.join(tmpdir, "t.las")
    if dest == "path":
        las.write(path)
        closed = None
    else:
        with open(path, "wb+") as f:
            las.write(f)
            closed = f.closed
    with open(path, "rb") as f:
        return f.read(), closed


def read_routes(rng, raw):
    """the records of the file through the other reading routes of laspy.open, every piece kept alive until all are read"""
    import laspy
    out = {}
    try:
        with laspy.open(io.BytesIO(raw)) as r:
            n = r.header.point_count
            k = rng.choice([1, 2, 3, max(1, n // 2), max(1, n), n + 5])
            pieces = list(r.chunk_iterator(k))
            out[f"chunk_iterator({k}) pieces kept"] = b"".join(lasio.rec_bytes(p) for p in pieces)
        with laspy.open(io.BytesIO(raw)) as r:
            a = r.read_points(n // 2)
            b = r.read_points(n // 2)
            c = r.read_points(-1)
            out["read_points(n//2) twice then the rest, all kept"] = lasio.rec_bytes(a) + lasio.rec_bytes(b) + lasio.rec_bytes(c)
        with laspy.open(io.BytesIO(raw)) as r:
            a = r.read_points(n // 2)
            b = r.read()
            out["read_points(n//2) then read()"] = lasio.rec_bytes(a) + lasio.rec_bytes(b.points)
    except Exception as ex:
        out["error"] = f"{type(ex).__name__}: {ex}"
    return out


def foreign_cases(ctx):
    """files laspy did not write: the extra-bytes VLR describes only the FIRST extra dimensions of the record, the rest of the
    extra bytes is undescribed (legal: a reader must keep them). Built from a laspy file by dropping trailing descriptors."""
    import laspy
    out = []
    for _ in range(ctx.n(40, 400)):
        rng = ctx.rng
        h = lasio.rand_header(rng, nvlrs=rng.choice([0, 1]))
        h.extra_vlr_bytes = b""
        lasio.add_extra_dims(rng, h, k=rng.choice([2, 3]))
        n = rng.choice([0, 1, 2, 9])
        las = laspy.LasData(header=h, points=lasio.rand_points(rng, h, n))
        raw = bytearray(lasio.write_las(las.header, las.points))
        hs = int.from_bytes(raw[94:96], "little")
        nv = int.from_bytes(raw[100:104], "little")
        pos = hs
        done = False
        for _v in range(nv):
            uid = bytes(raw[pos + 2:pos + 18]).split(b"\0")[0]
            rid = int.from_bytes(raw[pos + 18:pos + 20], "little")
            ln = int.from_bytes(raw[pos + 20:pos + 22], "little")
            if uid == b"LASF_Spec" and rid == 4 and ln >= 2 * 192:
                drop = rng.randrange(1, ln // 192)
                del raw[pos + 54 + ln - 192 * drop:pos + 54 + ln]
                raw[pos + 20:pos + 22] = (ln - 192 * drop).to_bytes(2, "little")
                off = int.from_bytes(raw[96:100], "little")
                raw[96:100] = (off - 192 * drop).to_bytes(4, "little")
                done = True
                break
            pos += 54 + ln
        if done:
            out.append((bytes(raw), lasio.rec_bytes(las.points), {"version": str(h.version), "format": h.point_format.id, "points": n,
                                                                   "extra": [(d.name, str(d.dtype)) for d in h.point_format.extra_dimensions], "descriptors_dropped": drop}))
    return out


def cases(ctx):
    global _CASES
    if _CASES is None:
        import laspy
        tmp = tempfile.mkdtemp(prefix="verif_c01_", dir="/var/tmp")
        _CASES = []
        try:
            for _ in range(ctx.n(300, 4000)):
                las, dest = make_case(ctx.rng)
                snap0 = _snap(las)
                rec = {"las": las, "dest": dest, "desc": {"version": str(las.header.version), "format": las.header.point_format.id,
                                                           "extra": [(d.name, str(d.dtype), d.scales is not None) for d in las.point_format.extra_dimensions],
                                                           "points": len(las.points), "vlrs": len(las.vlrs), "evlrs": len(las.evlrs or []), "dest": dest}}
                try:
                    raw, closed = write_to(las, dest, tmp)
                    rec.update(raw=raw, closed=closed, write_error=None)
                except Exception as ex:
                    rec.update(raw=None, write_error=f"{type(ex).__name__}: {ex}")
                rec["unchanged"] = _snap(las) == snap0
                rec["snap"] = snap0
                if rec["raw"] is not None:
                    try:
                        back = laspy.read(io.BytesIO(rec["raw"]))
                        rec["back"] = back
                        b2 = io.BytesIO()
                        back.write(b2)
                        rec["raw2"] = b2.getvalue()
                        rec["routes"] = read_routes(ctx.rng, rec["raw"])
                        if not getattr(las, "_verif_rescale", False):
                            import random as _random
                            import zlib as _zlib
                            rr = _random.Random(_zlib.crc32(rec["raw"]))       # own stream: the older generators keep theirs
                            rec["reading"] = [reading_session(rr, rec["raw"], lasio.rec_bytes(las.points), int(las.points.array.dtype.itemsize), ctx.thorough())
                                              for _ in range(2)]
                    except Exception as ex:
                        rec["read_error"] = f"{type(ex).__name__}: {ex}"
                _CASES.append(rec)
        finally:
            shutil.rmtree(tmp, ignore_errors=True)
    return _CASES


def correspond(ctx):
    ctx.extra["rule"] = ("LasData objects over every version/format, 45% with 1-3 extra dimensions (30 element types, scaled or not, opaque byte arrays), "
                         "counts {0,1,2,7,64} incl. one-point clouds obtained by indexing, record bytes uniform random / all ones / small / extremes "
                         "(NaN and inf patterns in float fields), +-VLRs, +-EVLRs, destinations BytesIO / binary file stream / path. "
                         "non-trivial = at least one point; distinct by the produced bytes")
    independents(ctx)      # first: every session runs in a process forked from this one as it is BEFORE the other generators used laspy
    cs = cases(ctx)
    cmds, idx = [], []
    for i, c in enumerate(cs):
        if c["raw"] is None:
            continue
        las = c["las"]
        if getattr(las, "_verif_rescale", False):
            continue   # rescaling on write is not part of the byte-level model (C11); oracle only
        h = las.header
        d = lasio.header_assoc(h)
        evl = las.evlrs if (h.version.minor >= 4 and las.evlrs is not None) else []
        cmds.append(f"file_of {lasio.assoc_tok(d)} {lasio.vlrs_tok(h.vlrs)} {h.point_format.id} {h.point_format.size} {common.hexb(lasio.rec_bytes(las.points))} {lasio.vlrs_tok(evl)}")
        idx.append(i)
        cmds.append("read_file " + common.hexb(c["raw"]))
        idx.append(i)
    outs = common.run_model(cmds)
    dis = []
    for k in range(0, len(outs), 2):
        c = cs[idx[k]]
        ctx.traces += 1
        ctx.case(c["raw"], nontrivial=c["desc"]["points"] > 0, sample=c["desc"])
        ctx.count("dest:" + c["dest"])
        ctx.count("points:" + str(c["desc"]["points"]))
        if outs[k] != "ok " + common.hexb(c["raw"]):
            dis.append({"kind": "written bytes", "input": c["desc"], "model": outs[k][:80], "impl": common.hexb(c["raw"])[:80]})
        t = outs[k + 1].split(" ")
        back = c.get("back")
        if back is None:
            if t[0] == "ok":
                dis.append({"kind": "read of written file", "input": c["desc"], "model": "ok", "impl": c.get("read_error")})
            continue
        if t[0] != "ok" or common.unhex(t[7]) != lasio.rec_bytes(back.points) or int(t[5]) != back.header.point_format.size:
            dis.append({"kind": "read of written file", "input": c["desc"], "model": outs[k + 1][:80], "impl": f"{len(back.points)} points"})
    # ---- histories over derived LasData objects vs Model/DataAlias.v; writer sessions with caller edits vs Model/WriterAlias.v
    ctx.extra["rule"] += (" || histories (2..8 steps) over several live LasData: derive by indexing (slices incl. strided / reversed, masks, index lists, "
                          "one integer), laspy.convert, reading back, two read() of one open reader; edit ONE object in place (add/remove extra dimensions, "
                          "header scale/offset setters and arrays, change_scaling, vlrs, evlrs, global encoding, strings, record contents, points "
                          "re-assignment); after every derivation a structural sharing probe of parent and child perturbs each shared mutable object through "
                          "the child; after every step EVERY live object is written and read back and judged against what was done to that object alone. "
                          "|| files streamed through a writer kept open (LasWriter / laspy.open mode w, with-blocks incl. left by an exception) while the "
                          "caller edits in place the header it handed in, read back and compared with the header as it was at open")
    hs = [h for h in histories(ctx) if h.get("cmd")]
    mo = common.run_model([h["cmd"] for h in hs], name="c04")
    for h, line in zip(hs, mo):
        ctx.traces += 1
        got = [] if line == "-" else line.split(" ")
        want = [("ok:" + common.hexb(raw)) if raw is not None else "err" for _, raw in h["written"]]
        if len(got) != len(want) or any(g != w and not (w == "err" and g.startswith("err")) for g, w in zip(got, want)):
            which = [nm for (nm, _), g, w in zip(h["written"], got, want) if g != w]
            dis.append({"kind": KIND_READER if h["reader_twice"] else "derived objects: file written at the end of the history",
                        "input": h["desc"], "model": line[:100], "impl": f"objects whose file differs from the model's: {which or 'count'}"})
    st = [r for r in streamed(ctx) if r.get("cmd")]
    mo = common.run_model([r["cmd"] for r in st], name="c04")
    for r, line in zip(st, mo):
        ctx.traces += 1
        m = line.split(" ")
        exp_outs = ",".join(r["outs"]) or "-"
        if len(m) < 2 or m[0] != exp_outs:
            bad = [i for i, (a, b) in enumerate(zip(m[0].split(","), r["outs"])) if a != b]
            if bad and r["expect"][bad[0]] == "refused" and r["outs"][bad[0]] == "ok":
                ctx.count("streamed:chunk-of-another-format-accepted(C04's subject, reported there)")
                continue
            dis.append({"kind": "streamed: outcomes of the session", "input": r["desc"], "model": m[0][:100], "impl": exp_outs})
        elif r["raw"] is not None and m[1] != common.hexb(r["raw"]):
            dis.append({"kind": "streamed: file bytes", "input": r["desc"], "model": f"{(len(m[1]) - 1) // 2} bytes", "impl": f"{len(r['raw'])} bytes"})
    # ---- round 5: pairings vs Model/Pairing.v
    ctx.extra["rule"] += (" || PAIRINGS: the cross product of 14 ways of building a header whose PointFormat carries 0-4 extra dimensions (constructor on a "
                          "format object / on a copy / without version, laspy.create, add_extra_dims at once / one by one, point_format setter, "
                          "set_version_and_point_format, laspy.convert, deepcopy, laspy.read / laspy.open of a written file, constructor on the format of a file "
                          "that was read, LasData.add_extra_dims; user VLRs put before or after), 8 relations of the record's format to the header's (same "
                          "object, equal copy, equal rebuilt, same dimensions in another ORDER, same size other type / element count, renamed, one dropped, "
                          "other id) and 4 entry points (LasData(h, points=), las.points =, laspy.open mode w, LasWriter); stale point_count; "
                          "ScaleAwarePointRecord; several dimensions of one type so that exchanged values keep their size. Model: accepted or refused, the "
                          "VLR list as written, the dimensions and the values read back under every name. || SIZE: a LasData of 2^20+k points in every run")
    ps = [r for r in pairings(ctx) if r.get("cmd")]
    mo = common.run_model([r["cmd"] for r in ps], name="c04")
    for r, line in zip(ps, mo):
        ctx.traces += 1
        m = line.split(" ")
        acc = r["outcome"] == "accepted"
        if m[0] == "refused":
            if acc:
                dis.append({"kind": "pairing: a record of another point format is accepted", "input": r["desc"], "model": line[:60], "impl": r["outcome"]})
            continue
        if m[0] != "ok":
            if acc:
                dis.append({"kind": "pairing: outcome", "input": r["desc"], "model": line[:80], "impl": r["outcome"]})
            continue
        if not acc:
            dis.append({"kind": "pairing: a record of an equal point format is refused", "input": r["desc"], "model": "ok", "impl": r["outcome"]})
            continue
        raw = r["raw"]
        try:
            ph = lasio.parse_raw(raw)
            got_v, _ = lasio.raw_walk_vlrs(raw, ph["header_size"], ph["nvlrs"], False)
            got_v = [(u.split(b"\0")[0], i, d.split(b"\0")[0], pl) for u, i, d, pl in got_v]
        except Exception as ex:
            dis.append({"kind": "pairing: VLRs of the written file", "input": r["desc"], "model": m[1][:80], "impl": f"{type(ex).__name__}: {ex}"})
            continue
        if lasio.parse_vlrs(m[1]) != got_v:
            dis.append({"kind": "pairing: VLRs of the written file", "input": r["desc"],
                        "model": str([(u, i, len(pl)) for u, i, _, pl in lasio.parse_vlrs(m[1])]), "impl": str([(u, i, len(pl)) for u, i, _, pl in got_v])})
            continue
        back = r.get("back")
        if back is None:
            dis.append({"kind": "pairing: read of the written file", "input": r["desc"], "model": "ok", "impl": str(r["problems"][:1])})
            continue
        if edims_tok(back.point_format) != m[2]:
            dis.append({"kind": "pairing: dimensions read back", "input": r["desc"], "model": m[2][:200], "impl": str(edims_tok(back.point_format))[:200]})
            continue
        if common.unhex(m[3]) != lasio.rec_bytes(back.points):
            dis.append({"kind": "pairing: records read back", "input": r["desc"], "model": m[3][:80], "impl": common.hexb(lasio.rec_bytes(back.points))[:80]})
            continue
        if m[4] != "-" and len(back.points):
            for ent in m[4].split(","):
                nm, vals = ent.split(":")
                name = common.unhex(nm).decode("utf-8")
                have = np.ascontiguousarray(back.points.array[name]).tobytes() if name in (back.points.array.dtype.names or ()) else None
                if have != common.unhex(vals):
                    dis.append({"kind": "pairing: values read back under a dimension name", "input": dict(r["desc"], dimension=name), "model": vals[:80], "impl": "missing" if have is None else common.hexb(have)[:80]})
                    break
    # ---- round 6: view sessions vs Model/RecView.v; reading sessions vs the cursor of Model/Cursor.v (on which Model/ReadBack.v is stated)
    ctx.extra["rule"] += (" || VIEW sessions (3..13 steps): a cloud of 2..30 records, selections of any live object as LasData or bare record - slices "
                          "[::2] [1::2] [::3] [::-1] [::-2] [:n/2] [1:] [:] (views, also of views) and masks / index lists incl. repeated indices (copies) -, writes of any "
                          "object through LasData.write / LasWriter.write_points / laspy.open(mode='w'), edits of intensity / X / Z / point_source_id through any "
                          "object by obj.f[:] = v, obj.array[f][...] = v, obj.f = v; after every step every object is compared with the harness's picture, "
                          "after every write the identity (array object, memory address, strides) of the written record; the cloud is written at the end. "
                          "|| READING sessions (two per written file, 3..13 steps): chunk iterators of sizes 1, 2, 3, n/2, n-1, n, n+5 created at any time and "
                          "several at once, next(it), list(it), seek(0 / n-1 / random), read_points(0 / 1 / 2 / -1 / n/2 / n+3) on one open reader")
    vs = [v for v in view_sessions(ctx) if v.get("cmd") and not v["failures"]]
    for v, line in zip(vs, common.run_model([v["cmd"] for v in vs], name="c04")):
        ctx.traces += 1
        m = line.split(" ")
        want = ",".join(common.hexb(b) for b in v["final"])
        if len(m) < 2 or m[1] != want:
            dis.append({"kind": "view session: records presented by the objects at the end", "input": v["desc"], "model": (m[1] if len(m) > 1 else line)[:120], "impl": want[:120]})
    rs = [(c, r) for c in cases(ctx) for r in c.get("reading", []) if r.get("cmd")]
    for (c, r), line in zip(rs, common.run_model([r["cmd"] for _, r in rs])):
        ctx.traces += 1
        got = ["s=" if (t.startswith("s") and t[1:].split(":")[0] == t[1:].split(":")[-1]) else t for t in line.split(" ")] if line else []
        if got[:len(r["obs"])] != r["obs"]:
            dis.append({"kind": "reading session: outcomes", "input": dict(c["desc"], ops=r["ops"]), "model": " ".join(got)[:160], "impl": " ".join(r["obs"])[:160]})
    # ---- round 7: independent clouds vs the worlds of Model/DataAlias.v
    ctx.extra["rule"] += (" || INDEPENDENT clouds (2..5 per session, 2..9 steps): made by laspy.create() / create(point_format=, file_version=) / LasData(LasHeader()) / "
                          "LasHeader(version=, point_format=) / two laspy.read of the same bytes / a deep copy of a live header, before and after the others were edited; "
                          "filled through .points, X/Y/Z, x/y/z; ONE cloud edited per step through the element setters (x_offset, x_scale, x_max, x_min), h.offsets[i] = v, "
                          "h.offsets[:] = v, h.offsets += v, whole-array setters, change_scaling, maxs / mins / number_of_points_by_return, scalar fields, VLRs, extra "
                          "dimensions, record edits, update_header, write; structural probe of every new cloud against every live one; after every step every other "
                          "cloud is compared with its snapshot and every cloud is written, read back and judged against what was done to it alone")
    ins = [h for h in independents(ctx) if h.get("cmd")]
    for h, line in zip(ins, common.run_model([h["cmd"] for h in ins], name="c04")):
        ctx.traces += 1
        got = [] if line == "-" else line.split(" ")
        want = [("ok:" + common.hexb(raw)) if raw is not None else "err" for _, raw in h["written"]]
        if len(got) != len(want) or any(g != w and not (w == "err" and g.startswith("err")) for g, w in zip(got, want)):
            which = [nm for (nm, _), g, w in zip(h["written"], got, want) if g != w]
            dis.append({"kind": "independent clouds: file written at the end of the session", "input": h["desc"], "model": line[:100],
                        "impl": f"clouds whose file differs from the model's: {which or 'count'}"})
    return dis


def search(ctx, seeds):
    failing, seen = [], set()

    def add(kind, inp, why):
        if kind not in seen:
            seen.add(kind)
            failing.append({"kind": kind, "input": inp, "observed": why})
    independents(ctx)
    for c in cases(ctx):
        d = c["desc"]
        las = c["las"]
        if c["write_error"]:
            add("write failed: " + c["write_error"].split(":")[0], d, c["write_error"])
            continue
        if not c["unchanged"]:
            add("write modified the caller's object", d, "snapshot of records / header / VLRs differs after LasData.write")
        if c["dest"] in ("bytesio", "stream") and c["closed"]:
            add("write closed the caller's stream", d, "stream.closed after LasData.write")
        if "read_error" in c:
            add("written file cannot be read", d, c["read_error"])
            continue
        back = c["back"]
        if getattr(las, "_verif_rescale", False):
            # coordinates presented before the write are kept to within half a step of the file's scaling
            for i, k in enumerate("xyz"):
                err = np.abs(np.array(back[k]) - np.array(las.points[k]))
                if len(err) and float(err.max()) > 0.5 * float(back.header.scales[i]) * (1 + 1e-9) + 1e-12:
                    add("rescaled write moved coordinates", d, f"{k}: max error {float(err.max())} > half a step {0.5 * float(back.header.scales[i])}")
            if c.get("raw2") != c["raw"]:
                add("write after read is not idempotent", d, "rescaled file rewritten differently")
            continue
        if lasio.rec_bytes(back.points) != lasio.rec_bytes(las.points):
            add("records differ after round trip", d, f"{len(back.points)} records read, {len(las.points)} written; bytes differ")
        if len(back.points) != len(las.points) or back.header.point_count != len(las.points):
            add("point count differs after round trip", d, f"header {back.header.point_count}, records {len(back.points)}, written {len(las.points)}")
        if lasio.format_key(back.point_format) != lasio.format_key(las.point_format):
            add("point format differs after round trip", d, f"{lasio.format_key(back.point_format)} != {lasio.format_key(las.point_format)}")
        if str(back.header.version) != str(las.header.version):
            add("version differs after round trip", d, f"{back.header.version} != {las.header.version}")
        if [lasio.f64bits(x) for x in back.header.scales] != [lasio.f64bits(x) for x in las.header.scales] or \
           [lasio.f64bits(x) for x in back.header.offsets] != [lasio.f64bits(x) for x in las.header.offsets]:
            add("scales/offsets differ after round trip", d, f"{back.header.scales} {back.header.offsets}")
        if c.get("raw2") != c["raw"]:
            r2 = c.get("raw2") or b""
            diff = next((i for i, (a, b) in enumerate(zip(r2, c["raw"])) if a != b), min(len(r2), len(c["raw"])))
            add("write after read is not idempotent", d, f"first differing byte {diff}; lengths {len(c['raw'])} then {len(r2)}")
    for c in cases(ctx):
        if c.get("routes") and c.get("back") is not None and not getattr(c["las"], "_verif_rescale", False):
            want = lasio.rec_bytes(c["las"].points)
            for route, got in c["routes"].items():
                if route == "error":
                    add("reading route raises", c["desc"], got)
                elif got != want:
                    add("records differ through " + route.split("(")[0].split(" ")[0], dict(c["desc"], route=route), f"{len(got)} bytes read through {route}, {len(want)} written; contents differ")
    for c in cases(ctx):
        for rs in c.get("reading", []):
            ctx.count("reading-session:ops", len(rs["ops"]))
            for kind, why, at in rs["failures"][:1]:
                add(kind, dict(c["desc"], ops=["r = laspy.open(<the written file>)"] + rs["ops"][:at]), why)
    for vs in view_sessions(ctx):
        ctx.case(repr(vs["desc"]), nontrivial=vs["views"] > 0 and vs["writes"] > 0 and vs["edits"] > 0)
        ctx.count("view-session:selections:view", vs["views"])
        ctx.count("view-session:selections:copy", vs["copies"])
        ctx.count("view-session:writes", vs["writes"])
        ctx.count("view-session:edits", vs["edits"])
        for kind, why, at in vs["failures"][:1]:
            add(kind, dict(vs["desc"], ops=vs["desc"]["ops"][:at]), why)
    for raw, recs, d in foreign_cases(ctx):
        ctx.case(("foreign", raw), nontrivial=d["points"] > 0)
        ctx.count("foreign-partial-extra-bytes-vlr")
        try:
            back = laspy_read(raw)
            if lasio.rec_bytes(back.points) != recs or len(back.points) != d["points"]:
                add("foreign file (partly described extra bytes): records differ", d, f"{len(back.points)} records of {back.point_format.size} bytes read; the file holds {d['points']} records of {len(recs) // max(1, d['points'])} bytes")
                continue
            b1 = io.BytesIO(); back.write(b1)
            again = laspy_read(b1.getvalue())
            b2 = io.BytesIO(); again.write(b2)
            if lasio.rec_bytes(again.points) != recs:
                add("foreign file (partly described extra bytes): records differ after rewrite", d, "records of the rewritten file differ from the original ones")
            if b1.getvalue() != b2.getvalue():
                add("foreign file (partly described extra bytes): rewrite not idempotent", d, "write(read(f)) differs from write(read(write(read(f))))")
        except Exception as ex:
            add("foreign file (partly described extra bytes): " + type(ex).__name__, d, f"{type(ex).__name__}: {ex}")
    for hst in histories(ctx):
        ctx.case(repr(hst["desc"]), nontrivial=hst["edits"] > 0 and hst["live"] > 1)
        ctx.count("history:steps", hst["steps"])
        for hw in hst["derivations"]:
            ctx.count("history:derive:" + hw)
        for pr in hst["probe"]:
            ctx.count("history:probe-shared:" + pr.split(" (")[-1].rstrip(")") + ":" + pr.split(" is ")[0].split(".")[-1].split("[")[0])
        for kind, why, at in hst["failures"][:2]:
            add(kind, dict(hst["desc"], ops=hst["desc"]["ops"][:at]), why)
    for r in streamed(ctx):
        d = r["desc"]
        ctx.case(repr(d), nontrivial=len(d["ops"]) > 3)
        ctx.count("streamed:mode:" + r["mode"])
        if r["raw"] is None or (r["outs"] and r["outs"][0].startswith("open-err")):
            continue
        for what, where in r["problems"]:
            add("streamed: " + what, d, f"during: {where}")
        oh = r["open_header"]
        try:
            back = laspy_read(r["raw"])
        except Exception as ex:
            add("streamed file cannot be read", d, f"{type(ex).__name__}: {ex}; sharing probe: {r['probe'][:4]}")
            continue
        leaked = any(e == "refused" and o == "ok" for e, o in zip(r["expect"], r["outs"]))
        if lasio.format_key(back.point_format) != lasio.format_key(oh.point_format):
            add("streamed: point format differs after round trip", d, f"{lasio.format_key(back.point_format)} != {lasio.format_key(oh.point_format)} (the header when the writer was opened)")
        if [lasio.f64bits(x) for x in back.header.scales] != [lasio.f64bits(x) for x in oh.scales] or \
           [lasio.f64bits(x) for x in back.header.offsets] != [lasio.f64bits(x) for x in oh.offsets]:
            add("streamed: scales/offsets differ after round trip", d, f"read back {list(back.header.scales)} {list(back.header.offsets)}; the header had {list(oh.scales)} {list(oh.offsets)} when the writer was opened")
        if str(back.header.version) != str(oh.version):
            add("streamed: version differs after round trip", d, f"{back.header.version} != {oh.version}")
        if not leaked:
            if lasio.rec_bytes(back.points) != r["accepted"]:
                add("streamed: records differ after round trip", d, f"{len(lasio.rec_bytes(back.points))} bytes read back, {len(r['accepted'])} bytes were accepted by write_points; contents differ")
            if back.header.point_count * oh.point_format.size != len(r["accepted"]):
                add("streamed: point count differs after round trip", d, f"header says {back.header.point_count}, {len(r['accepted']) // oh.point_format.size} records were accepted")
        b2 = io.BytesIO()
        try:
            back.write(b2)
            if b2.getvalue() != r["raw"] and not leaked:
                add("streamed: write after read is not idempotent", d, f"lengths {len(r['raw'])} then {len(b2.getvalue())}")
        except Exception as ex:
            add("streamed: write after read is not idempotent", d, f"rewrite raised {type(ex).__name__}: {ex}")
    for r in pairings(ctx):
        d = r["desc"]
        ctx.case(repr(d), nontrivial=bool(d.get("points")) and bool(d["extra_dimensions"]))
        ctx.count("pairing:route:" + d["header_built_by"].split("(")[0].split(";")[-1].strip())
        ctx.count("pairing:" + d["record_format"] + "->" + str(r.get("outcome", "not run")).split(":")[0])
        for kind, why in r["problems"][:2]:
            add("paired: " + kind, d, why)
    for d, probs in near_rescale_cases(ctx):
        ctx.case(repr(d), nontrivial=True)
        ctx.count("near-rescale:" + d["header_scaling_edited_to"]["how"])
        for kind, why in probs[:2]:
            add(kind if kind.startswith("write ") or kind.startswith("a refused") else "header scaling edited: " + kind, d, why)
    for d, probs in big_round_trips(ctx):
        ctx.case(repr(d), nontrivial=True)
        ctx.count("size:round-trip:" + ("2^20+k" if d["points"] > (1 << 20) else "multiple-of-65536"))
        for kind, why in probs[:2]:
            add("large record: " + kind, d, why)
    for ins in sorted(independents(ctx), key=lambda r: (bool(r.get("polluted")), bool(r["desc"]["ops"]) and "PROBE-DIRECTED" in r["desc"]["ops"][-1])):      # self-contained sessions first, of those the ones ended by an ordinary edit
        ctx.case(repr(ins["desc"]), nontrivial=ins["edits"] > 0 and ins["live"] > 1)
        ctx.count("independent:steps", ins["steps"])
        for rt in ins["routes"]:
            ctx.count("independent:route:" + rt)
        for pr in ins["probe"]:
            ctx.count("independent:probe-shared:" + pr.split(" (")[-1].rstrip(")") + ":" + pr.split(" is ")[0].split(".")[-1].split("[")[0])
        for kind, why, at in ins["failures"][:4]:
            add(kind, dict(ins["desc"], ops=ins["desc"]["ops"][:at]), why)
    for las, budget, size, raised, same in failing_write_cases(ctx):
        ctx.case(("failing-write", budget, size), nontrivial=True)
        ctx.count("failing-write")
        if not same:
            add("a failed write left the caller's record modified", {"version": str(las.header.version), "format": las.header.point_format.id, "points": len(las.points),
                                                                     "fails_after_bytes": budget, "file_size": size},
                "the destination raised OSError during the write; the scale-aware record (rescaled in place for the write) was not restored")
    return failing[:12]


def _snap(las):
    """contents (sessions.snapshot) AND identity of what a write must leave alone: the record object, its array object, the memory the
    array lives in, its strides, the header / format / VLR-list objects"""
    return (sessions.snapshot(las), _ident(las.points), id(las.header), id(las.header.point_format), id(las.header.vlrs), [id(v) for v in las.header.vlrs])


def laspy_read(raw):
    import laspy
    return laspy.read(io.BytesIO(raw))


class FailingStream(io.BytesIO):
    """accepts `budget` bytes, then raises on write (a full disk / closed pipe)"""

    def __init__(self, budget, once=False):
        super().__init__()
        self.budget = budget
        self.once = once          # a transient fault: only the first offending write fails
        self.failed = 0

    def write(self, b):
        if self.tell() + memoryview(b).nbytes > self.budget and not (self.once and self.failed):
            self.failed += 1
            raise OSError("no space left on device (harness)")
        return super().write(b)


def failing_write_cases(ctx):
    """a write that fails half-way must still hand the caller's (rescaled in place) record back untouched"""
    import laspy
    out = []
    for _ in range(ctx.n(40, 400)):
        rng = ctx.rng
        las, _ = make_case(rng)
        tries = 0
        while not getattr(las, "_verif_rescale", False) and tries < 50:
            las, _ = make_case(rng)
            tries += 1
        if not getattr(las, "_verif_rescale", False):
            continue
        full = io.BytesIO()
        try:
            las.write(full)
        except Exception:
            continue
        size = len(full.getvalue())
        off = int.from_bytes(full.getvalue()[96:100], "little")
        budget = rng.choice([off, off + 1, max(off, size - 1), rng.randrange(off, size)])
        snap = _snap(las)
        try:
            las.write(FailingStream(budget))
            raised = False
        except OSError:
            raised = True
        except Exception as ex:
            raised = True
        out.append((las, budget, size, raised, _snap(las) == snap))
    return out


# =====================================================================================================================
# round 4: LasData objects DERIVED from one another (indexing, convert, read back, two reads of one open reader), each then used
# on its own; files streamed through a writer kept open while the caller edits the header it handed in
# =====================================================================================================================
KIND_READER = "two LasData read from one open reader are not independent"


def _observe(las):
    """what an operation on ANOTHER object must not change, and what a round trip must give back"""
    return {"format": lasio.format_key(las.points.point_format), "header_format": lasio.format_key(las.header.point_format),
            "scales": [lasio.f64bits(x) for x in las.header.scales], "offsets": [lasio.f64bits(x) for x in las.header.offsets],
            "version": str(las.header.version), "recs": lasio.rec_bytes(las.points), "count": len(las.points),
            "record_size": int(las.points.array.dtype.itemsize)}


def _pending_rescale(las):
    return bool(np.any(las.points.scales != las.header.scales) or np.any(las.points.offsets != las.header.offsets))


def _judge(las, exp, final):
    """C01 on one object, against the harness's own record `exp` of what was done to THIS object; returns [(kind, observed)]"""
    out = []
    now = _observe(las)
    for k in ("format", "header_format", "scales", "offsets", "version", "count", "record_size", "recs"):
        if now[k] != exp[k]:
            out.append((k, f"in memory: {k} is {str(now[k])[:80]}, the operations on this object left it at {str(exp[k])[:80]}"))
    snap = _snap(las)
    b = io.BytesIO()
    try:
        las.write(b)
    except Exception as ex:
        if exp.get("pending") and isinstance(ex, OverflowError) and not out:
            # the header's scaling was edited on purpose and the stored coordinates do not fit it: a clean refusal (C11), nothing written back
            return [] if _snap(las) == snap else [("a refused write modified the caller's object", f"{type(ex).__name__}: {ex}")]
        return [("write failed", f"{type(ex).__name__}: {ex}")] + [("changed by an operation on another object: " + k, w) for k, w in out]
    if _snap(las) != snap:
        out.insert(0, ("write modified the caller's object", "snapshot of records / header / VLRs (contents, and which objects / which memory they are) differs after LasData.write"))
    raw = b.getvalue()
    try:
        back = laspy_read(raw)
    except Exception as ex:
        return [("written file cannot be read", f"{type(ex).__name__}: {ex}")] + [("changed by an operation on another object: " + k, w) for k, w in out]
    res = []
    if exp.get("pending"):
        for i, k in enumerate("xyz"):
            err = np.abs(np.array(back[k]) - np.array(las.points[k]))
            mag = float(np.abs(np.array(las.points[k])).max()) if len(err) else 0.0
            if len(err) and float(err.max()) > 0.5 * float(back.header.scales[i]) * (1 + 1e-9) + 1e-12 + 1e-12 * mag:
                res.append(("rescaled write moved coordinates", f"{k}: max error {float(err.max())} > half a step {0.5 * float(back.header.scales[i])}"))
    elif lasio.rec_bytes(back.points) != exp["recs"]:
        res.append(("records differ after round trip", f"{len(back.points)} records of {back.points.array.dtype.itemsize} bytes read, {exp['count']} of {exp['record_size']} written; bytes differ"))
    if len(back.points) != exp["count"] or back.header.point_count != exp["count"]:
        res.append(("point count differs after round trip", f"header {back.header.point_count}, records {len(back.points)}, the object has {exp['count']}"))
    if lasio.format_key(back.point_format) != exp["format"]:
        res.append(("point format differs after round trip", f"{lasio.format_key(back.point_format)} != {exp['format']}"))
    if str(back.header.version) != exp["version"]:
        res.append(("version differs after round trip", f"{back.header.version} != {exp['version']}"))
    if [lasio.f64bits(x) for x in back.header.scales] != exp["scales"] or [lasio.f64bits(x) for x in back.header.offsets] != exp["offsets"]:
        res.append(("scales/offsets differ after round trip", f"read back {list(back.header.scales)} {list(back.header.offsets)}"))
    if final:
        b2 = io.BytesIO()
        try:
            back.write(b2)
            if b2.getvalue() != raw:
                res.append(("write after read is not idempotent", f"lengths {len(raw)} then {len(b2.getvalue())}"))
        except Exception as ex:
            res.append(("write after read is not idempotent", f"rewrite raised {type(ex).__name__}: {ex}"))
    return res + [("changed by an operation on another object: " + k, w) for k, w in out]


def data_history(rng, thorough=False):
    """a history over several live LasData objects: derive (indexing / convert / read back / two reads of one open reader), edit ONE
    object in place through the public API, probe the object graphs of parent and child for shared mutable objects and perturb them
    through the child; after every step every live object is judged by C01 against what was done to that object alone"""
    import laspy
    las0, _ = make_case(rng)
    while getattr(las0, "_verif_rescale", False):
        las0, _ = make_case(rng)
    live = [{"name": "las0", "las": las0}]
    live[0]["exp"] = _observe(las0)
    desc = {"version": str(las0.header.version), "format": las0.header.point_format.id, "points": len(las0.points),
            "extra": [(d.name, str(d.dtype)) for d in las0.point_format.extra_dimensions], "vlrs": len(las0.vlrs), "evlrs": len(las0.evlrs or []), "ops": []}
    log = desc["ops"]
    res = {"desc": desc, "failures": [], "probe": [], "steps": 0, "derivations": [], "edits": 0}
    forced = []
    # ---- the same history for the model (bin/lasmodel_c04 `dworld`): what the model is TOLD is only what each operation does to
    # the object it is applied to; `mirror` is what the model believes of every object
    mirror = {}
    names = ["las0"]          # model index of every object ever created

    def state_of(las):
        h = las.header
        evl = [lasio.vlr_tuple(v) for v in h.evlrs] if (h.version.minor >= 4 and h.evlrs is not None) else []
        return {"assoc": lasio.header_assoc(h), "vlrs": [lasio.vlr_tuple(v) for v in h.vlrs], "evlrs": evl,
                "fmt": sessions.format_value(las.points.point_format), "recs": lasio.rec_bytes(las.points)}

    def sync(name, las):
        """D token: what the operation just applied to `name` left in it, relative to what the model believes of that object"""
        cur, old = state_of(las), mirror[name]
        sets = {k: v for k, v in cur["assoc"].items() if k not in ("point_format_id", "point_size") and old["assoc"].get(k) != v}
        tok = "D{}!{}!{}!{}!{}!{}".format(names.index(name), lasio.assoc_tok(sets),
                                          "~" if cur["vlrs"] == old["vlrs"] else lasio.vlrs_tok(cur["vlrs"]),
                                          "~" if cur["evlrs"] == old["evlrs"] else lasio.vlrs_tok(cur["evlrs"]),
                                          "~" if cur["fmt"] == old["fmt"] else sessions.fmt_tok(cur["fmt"]),
                                          "~" if cur["recs"] == old["recs"] else common.hexb(cur["recs"]))
        mirror[name] = cur
        if tok.endswith("!-!~!~!~!~"):
            return []
        return [tok]

    st0 = state_of(las0)
    mirror["las0"] = st0
    toks = [lasio.assoc_tok(st0["assoc"]), lasio.vlrs_tok(st0["vlrs"]), lasio.vlrs_tok(st0["evlrs"]), sessions.fmt_tok(st0["fmt"]), common.hexb(st0["recs"])]

    def shares_records(o):
        return any(p is not o and len(p["las"].points) and len(o["las"].points) and np.shares_memory(p["las"].points.array, o["las"].points.array) for p in live)

    def derive():
        p = rng.choice(live)
        n = len(p["las"].points)
        how = rng.choice(["index", "index", "index", "convert", "reread", "reader-twice"])
        name = f"las{len(names)}"
        kids = []
        try:
            if how == "index":
                cands = [slice(None), slice(0, 1), slice(None, None, 2), slice(None, None, -1), slice(1, None, 3)]
                if n:
                    cands += [np.array([n - 1]), np.array([i % 2 == 0 for i in range(n)]), [0] * 2, list(range(n))[::-1], np.ones(n, dtype=bool), np.zeros(n, dtype=bool), rng.randrange(n)]
                else:
                    cands += [np.zeros(0, dtype=bool), []]
                ix = rng.choice(cands)
                kids = [(name, p["las"][ix], f"{name} = {p['name']}[{ix!r}]".replace("\n", ""))]
            elif how == "convert":
                ids = [i for i in lasio.COMPAT[str(p["las"].header.version)]]
                tid = rng.choice([None, None, rng.choice(ids)])
                kids = [(name, laspy.convert(p["las"], point_format_id=tid), f"{name} = laspy.convert({p['name']}, point_format_id={tid})")]
            elif how == "reread":
                b = io.BytesIO(); p["las"].write(b)
                kids = [(name, laspy_read(b.getvalue()), f"{name} = laspy.read(<bytes of {p['name']}.write()>)")]
            else:
                b = io.BytesIO(); p["las"].write(b)
                with laspy.open(io.BytesIO(b.getvalue())) as r:
                    a1 = r.read(); r.seek(0); a2 = r.read()
                n2 = f"las{len(names) + 1}"
                kids = [(name, a1, f"with laspy.open(<bytes of {p['name']}.write()>) as r: {name} = r.read(); r.seek(0); {n2} = r.read()"), (n2, a2, None)]
        except Exception as ex:
            log.append(f"# deriving from {p['name']} by {how} raised {type(ex).__name__}: {str(ex)[:80]}")
            return
        res["derivations"].append(how)
        for nm, las, label in kids:
            if label:
                log.append(label)
            o = {"name": nm, "las": las, "exp": _observe(las), "how": how}
            if _pending_rescale(las):
                o["exp"]["pending"] = True
            live.append(o)
            pi = names.index(p["name"])
            pm = mirror[p["name"]]
            if how == "index":
                size = max(1, pm["fmt"][1])
                cnt = len(pm["recs"]) // size
                try:
                    sel = [int(v) for v in np.atleast_1d(np.arange(cnt)[ix])]
                except Exception:
                    sel = []
                toks.append(f"X{pi}:" + (",".join(map(str, sel)) if sel else "-"))
                recs = b"".join(pm["recs"][k * size:(k + 1) * size] for k in sel)
            else:
                toks.append(f"K{pi}")
                recs = pm["recs"]
            names.append(nm)
            mirror[nm] = dict(pm, recs=recs)
            toks.extend(sync(nm, las))      # what deriving does to the NEW object beyond the copy (update_header, conversion, normalisation by the reader)
        # sharing probe between the parent and each child (and between the two children of one reader)
        pairs = [(p, live[-len(kids) + i]) for i in range(len(kids))] + ([(live[-2], live[-1])] if len(kids) == 2 else [])
        for a, c in pairs:
            for pa, pb, obj in sessions.shared_mutables(a["las"], c["las"]):
                res["probe"].append(f"{a['name']}{pa} is {c['name']}{pb} ({type(obj).__name__})")
                if a.get("how") == "reader-twice" and c.get("how") == "reader-twice" and not (isinstance(obj, np.ndarray) and obj.dtype.names):
                    a["sibling_shared"] = c["sibling_shared"] = True      # the two results of one reader share header-level objects
                    res["sibling_shared_any"] = True
                if isinstance(obj, np.ndarray) and obj.dtype.names:
                    continue        # record memory shared by a numpy view (slices): by numpy's semantics, each object still round-trips
                if ".dimensions[" in pb and isinstance(obj, np.ndarray):
                    continue        # scales / offsets inside an (immutable) DimensionInfo tuple: no public operation modifies them in place
                if isinstance(obj, laspy.VLR) or type(obj).__name__.endswith("Vlr") or "extra_bytes_structs" in pb:
                    res["shared_vlrs"] = res.get("shared_vlrs", 0) + 1
                    continue        # the payload of a (E)VLR object: VLR identity is C08's subject, C01 does not speak about it
                pert = sessions.perturbation_for(rng, pb, obj)
                if pert is not None and len(forced) < 6:
                    forced.append((c, pert))

    def edit():
        o = rng.choice(live)
        las = o["las"]
        nm = o["name"]
        ex = [d.name for d in las.point_format.extra_dimensions]
        k = rng.randrange(10000)
        t = rng.choice(["u1", "u2", "i4", "f8", "2u2", "3f4", "5u1"])
        i = rng.randrange(3)
        ax = "xyz"[i]
        sv = rng.choice([0.001, 0.01, 0.5, 2.0])
        ov = rng.choice([0.0, 1.5, -2.0, 1000.0])
        c = [(f"{nm}.add_extra_dim(ExtraBytesParams('h{k}', {t!r}))", lambda: las.add_extra_dim(laspy.ExtraBytesParams(f"h{k}", t))),
             (f"{nm}.add_extra_dims([ExtraBytesParams('h{k}', {t!r}), ExtraBytesParams('g{k}', 'u1')])", lambda: las.add_extra_dims([laspy.ExtraBytesParams(f"h{k}", t), laspy.ExtraBytesParams(f"g{k}", "u1")])),
             (f"{nm}.add_extra_dim(ExtraBytesParams('h{k}', {t!r}))", lambda: las.add_extra_dim(laspy.ExtraBytesParams(f"h{k}", t)))]
        if las.points.array.ndim:      # re-expressing a 0-d record in another scaling is C11's business (it fails today)
            c += [(f"{nm}.header.{ax}_offset = {ov!r}", lambda: setattr(las.header, f"{ax}_offset", ov)),
                  (f"{nm}.header.{ax}_scale = {sv!r}", lambda: setattr(las.header, f"{ax}_scale", sv)),
                  (f"{nm}.header.scales[{i}] *= 2", lambda: las.header.scales.__setitem__(i, las.header.scales[i] * 2)),
                  (f"{nm}.header.offsets[{i}] += 1.5", lambda: las.header.offsets.__setitem__(i, las.header.offsets[i] + 1.5)),
                  (f"{nm}.header.offsets = np.array([{ov!r}]*3)", lambda: setattr(las.header, "offsets", np.array([ov] * 3)))]
        if las.points.array.ndim and not shares_records(o):
            c += [(f"{nm}.change_scaling(offsets=[{ov!r}]*3)", lambda: las.change_scaling(offsets=np.array([ov] * 3)))]
        c += [(f"{nm}.vlrs.append(VLR)", lambda: las.vlrs.append(lasio.rand_vlr(rng, 40))),
             (f"{nm}.header.global_encoding.value ^= 1", lambda: setattr(las.header.global_encoding, "value", las.header.global_encoding.value ^ 1)),
             (f"{nm}.header.system_identifier = 'edited'", lambda: setattr(las.header, "system_identifier", "edited")),
             (f"{nm}.update_header()", lambda: las.update_header())]
        if ex:
            v = rng.choice(ex)
            c += [(f"{nm}.remove_extra_dim({v!r})", lambda: las.remove_extra_dim(v))] * 2
            c += [(f"{nm}.remove_extra_dims({ex!r})", lambda: las.remove_extra_dims(list(ex)))]
        if len(las.vlrs) and type(las.vlrs[-1]).__name__ != "ExtraBytesVlr":     # removing the descriptor of one's own extra dimensions is the caller's error
            c += [(f"{nm}.vlrs.pop()", lambda: las.vlrs.pop())]
        if las.header.version.minor >= 4:
            c += [(f"{nm}.evlrs = VLRList([VLR])", lambda: setattr(las, "evlrs", laspy.vlrs.vlrlist.VLRList([lasio.rand_vlr(rng, 30)])))]
        if len(las.points) and not shares_records(o):
            val = rng.randrange(32)
            c += [(f"{nm}.classification = {val}  (all points)", lambda: setattr(las, "classification", np.full(len(las.points), val % (32 if las.point_format.id < 6 else 256), dtype=np.uint8))),
                  (f"{nm}.X = {nm}.X[::-1]", lambda: setattr(las, "X", np.array(las.X)[::-1].copy())),
                  (f"{nm}.points = {nm}.points[::-1]  (same format)", lambda: setattr(las, "points", las.points[::-1]))]
        label, th = rng.choice(c)
        run_edit(o, label, th)

    def run_edit(o, label, th):
        try:
            th()
            log.append(label)
        except Exception as ex:
            # what a FAILED operation leaves behind is the business of the property about that operation (C13, C11): the object
            # is not used any more; every other live object still is
            log.append(label + f"   # raised {type(ex).__name__}: {str(ex)[:60]} -- {o['name']} is not used any more")
            live.remove(o)
            res["failed_edits"] = res.get("failed_edits", 0) + 1
            return
        res["edits"] += 1
        o["exp"] = _observe(o["las"])
        if _pending_rescale(o["las"]):
            o["exp"]["pending"] = True
        toks.extend(sync(o["name"], o["las"]))

    def judge_all(final=False):
        for o in live:
            for kind, why in _judge(o["las"], o["exp"], final):
                if o.get("sibling_shared"):
                    res["failures"].append((KIND_READER, f"{o['name']}: {kind}: {why}", len(log)))
                else:
                    res["failures"].append(("derived objects: " + kind, f"{o['name']}: {why}", len(log)))
            if res["failures"]:
                return True
        return False

    nsteps = rng.randrange(2, 6 if not thorough else 9)
    for step in range(nsteps):
        res["steps"] += 1
        if forced and rng.random() < 0.8:
            c, (lab, th) = forced.pop(0)
            if c not in live:
                continue
            run_edit(c, f"PROBE-DIRECTED through {c['name']}: " + lab, th)
        elif len(live) == 0:
            break
        elif len(live) < 2 or (rng.random() < 0.4 and len(live) < 5):
            derive()
            continue
        else:
            edit()
        if judge_all():
            break
    if not res["failures"]:
        judge_all(final=True)
    res["live"] = len(live)
    # what every live object writes at the end, for the model comparison (objects whose header scaling was edited are re-expressed
    # by the writer: C11's rule, not modelled here)
    res["written"] = []
    for o in live:
        if o["exp"].get("pending") or _pending_rescale(o["las"]):
            continue
        b = io.BytesIO()
        try:
            o["las"].write(b)
            res["written"].append((o["name"], b.getvalue()))
        except Exception as ex:
            res["written"].append((o["name"], None))
        toks.append(f"W{names.index(o['name'])}")
    res["cmd"] = "dworld " + " ".join(toks)
    res["reader_twice"] = any(o.get("sibling_shared") for o in live) or bool(res.get("sibling_shared_any"))
    return res


_HIST = None
_STREAMED = None


def histories(ctx):
    global _HIST
    if _HIST is None:
        cases(ctx)
        _HIST = [data_history(ctx.rng, ctx.thorough()) for _ in range(ctx.n(250, 3000))]
    return _HIST


def streamed(ctx):
    """writer sessions in which the caller keeps editing the header it handed in (sessions.alias_writer_session), judged by C01:
    what was streamed is read back byte for byte, with the format, scaling and version the header had when the writer was opened"""
    global _STREAMED
    if _STREAMED is None:
        histories(ctx)
        tmp = tempfile.mkdtemp(prefix="verif_c01s_", dir="/var/tmp")
        try:
            _STREAMED = [sessions.alias_writer_session(ctx.rng, ctx.thorough(), tmp) for _ in range(ctx.n(200, 2500))]
        finally:
            shutil.rmtree(tmp, ignore_errors=True)
    return _STREAMED


def replay(ctx, data):
    print("replay: re-run ./check C01 with the same VERIF_SEED; the failing case is described in the file")
    return 0


# =====================================================================================================================
# round 5: every way of BUILDING the two objects that are written - a header whose PointFormat carries extra dimensions, made
# by the constructor / laspy.create / the point_format setter / set_version_and_point_format / laspy.convert / deepcopy / read from
# a file, and a record built on a format that is the same object / equal / the same dimensions in another ORDER / same size but
# another type / ... - PAIRED through every entry point: LasData(header, points=rec), las.points = rec, laspy.open(mode='w') /
# LasWriter.write_points. What is written is read back: the header's format (names, types, ORDER, scales, descriptions), the
# records, and under every dimension NAME the values the caller's record held under it; a refused pairing changes nothing.
# Model: Model/Pairing.v (`pair` of bin/lasmodel_c04).
# =====================================================================================================================
import copy as _copy
import copy

HEADER_ROUTES = [
    "LasHeader(version=v, point_format=fmt)", "LasHeader(point_format=fmt)", "LasHeader(version=v, point_format=copy.deepcopy(fmt))",
    "laspy.create(point_format=fmt, file_version=v)", "LasHeader(version=v, point_format=id); h.add_extra_dims(params)",
    "LasHeader(version=v, point_format=id); h.add_extra_dim(p) one by one", "h.point_format = fmt", "h.set_version_and_point_format(v, fmt)",
    "laspy.convert(src, point_format_id=id).header", "copy.deepcopy(h0)", "laspy.read(<file of h0>).header", "laspy.open(<file of h0>).header",
    "LasHeader(version=v, point_format=laspy.read(<file of h0>).point_format)", "LasData(LasHeader(version=v, point_format=id)).add_extra_dims(params)",
]
RELATIONS = ["same object", "equal copy", "equal rebuilt", "permuted", "same size other type", "renamed", "one dropped", "other id",
             "permuted, re-made for the header's format with PackedPointRecord.from_point_record"]
ENTRIES = ["LasData(h, points=rec).write(dest)", "las = LasData(h); las.points = rec; las.write(dest)",
           "laspy.open(dest, mode='w', header=h).write_points(rec)", "laspy.LasWriter(dest, h).write_points(rec)"]
_BASE_T = ["u1", "i1", "u2", "i2", "u4", "i4", "u8", "i8", "f4", "f8"]      # ASPRS LAS 1.4 R15 table 24, data types 1..10 (x2: 11..20, x3: 21..30)


def rand_dim_specs(rng, k):
    """k extra dimensions as plain data (so that the same dimensions can be rebuilt in another order / with one attribute changed)"""
    specs = []
    twin = rng.choice(_BASE_T) if rng.random() < 0.5 else None        # several dimensions of one type: exchanged values keep their size
    for j in range(k):
        if rng.random() < 0.12:
            t, n, sc = f"{rng.choice([4, 5, 7, 8, 9, 16, 17])}u1", 0, False
        else:
            n = rng.choice([1, 1, 1, 2, 3])
            b = twin if (twin and rng.random() < 0.7) else rng.choice(_BASE_T)
            t = (str(n) if n > 1 else "") + b
            sc = rng.random() < 0.3
        nm = f"q{j}" + lasio.rand_ascii(rng, rng.choice([0, 1, 6, 20]), [c for c in range(97, 123)])
        spec = {"name": nm, "type": t, "description": lasio.rand_ascii(rng, rng.choice([0, 0, 4, 32]), [c for c in range(65, 91)]), "scales": None, "offsets": None}
        if sc:
            spec["scales"] = [rng.choice([0.5, 0.01, 2.0, 1.0]) for _ in range(n)]
            spec["offsets"] = [rng.choice([0.0, 10.0, -3.5]) for _ in range(n)]
        specs.append(spec)
    return specs


def params_of(spec):
    import laspy
    return laspy.ExtraBytesParams(spec["name"], spec["type"], description=spec["description"],
                                  scales=None if spec["scales"] is None else np.array(spec["scales"], dtype=np.float64),
                                  offsets=None if spec["offsets"] is None else np.array(spec["offsets"], dtype=np.float64))


def format_of(pid, specs):
    import laspy
    pf = laspy.PointFormat(pid)
    for s in specs:
        pf.add_extra_dimension(params_of(s))
    return pf


def full_key(pf):
    """a point format as the property sees it: id; name, kind, bits, element count, scales, offsets and description of every extra
    dimension, IN ORDER (independent of PointFormat.__eq__)"""
    return (lasio.format_key(pf), tuple(d.description for d in pf.extra_dimensions))


def edim_tok(d):
    """DimensionInfo -> the model's descriptor (the syntax of the C13 driver); None when the type is outside the 30 + opaque"""
    letter = {"UnsignedInteger": "u", "SignedInteger": "i", "FloatingPoint": "f"}.get(d.kind.name)
    n = int(d.num_elements)
    eb = int(d.num_bits) // (8 * n) if n else 0
    b = f"{letter}{eb}"
    if b in _BASE_T and 1 <= n <= 3:
        t = f"s{_BASE_T.index(b) + 1 + 10 * (n - 1)}"
    elif b == "u1" and 4 <= n <= 255:
        t = f"o{n}"
    else:
        return None
    sc = "-"
    if d.scales is not None or d.offsets is not None:
        s = d.scales if d.scales is not None else np.ones(n)
        o = d.offsets if d.offsets is not None else np.zeros(n)
        sc = common.zl(lasio.f64bits(x) for x in s) + "/" + common.zl(lasio.f64bits(x) for x in o)
    return f"x{d.name.encode('utf-8').hex()}~{t}~{sc}~x{d.description.encode('utf-8').hex()}"


def edims_tok(pf):
    toks = [edim_tok(d) for d in pf.extra_dimensions]
    if any(t is None for t in toks):
        return None
    return "+".join(toks) if toks else "-"


def _decorate(rng, h):
    """field values that must survive, on a header made by one of the routes"""
    sc = rng.choice([0.001, 0.01, 0.5, 1.0])
    h.scales = np.array([sc, rng.choice([sc, 0.25]), rng.choice([sc, 2.0])])
    h.offsets = np.array([rng.choice([0.0, -1e6, 123456.789]) for _ in range(3)])
    h.system_identifier = lasio.rand_ascii(rng, rng.choice([0, 5, 32]))
    h.file_source_id = rng.randrange(65536)
    if rng.random() < 0.4:
        h.point_count = rng.choice([1, 3, 1000])       # stale with respect to the record it will be paired with


def _user_vlrs(rng):
    return [lasio.rand_vlr(rng, 30) for _ in range(rng.choice([0, 0, 1, 2]))]


def build_header(rng, route, version, pid, specs):
    """(header, LasData owning it or None, user VLRs, extra-bytes VLR after the user VLRs?, log lines). The user VLRs are put where the
    route allows: before the format is given (the builder re-synchronises: extra-bytes VLR last) or after (extra-bytes VLR first)."""
    import laspy
    users = _user_vlrs(rng)
    log = []
    las = None

    def h0_with_dims():
        h0 = laspy.LasHeader(version=version, point_format=pid)
        for v in users:
            h0.vlrs.append(v)
        h0.add_extra_dims([params_of(s) for s in specs])
        return h0

    def file_of(h0):
        n0 = rng.choice([0, 2])
        return lasio.write_las(h0, lasio.rand_points(rng, h0, n0))
    eb_last = False
    after = True           # user VLRs appended after the header is built
    if route == HEADER_ROUTES[0]:
        h = laspy.LasHeader(version=version, point_format=format_of(pid, specs))
    elif route == HEADER_ROUTES[1]:
        h = laspy.LasHeader(point_format=format_of(pid, specs))
    elif route == HEADER_ROUTES[2]:
        h = laspy.LasHeader(version=version, point_format=_copy.deepcopy(format_of(pid, specs)))
    elif route == HEADER_ROUTES[3]:
        las = laspy.create(point_format=format_of(pid, specs), file_version=version)
        h = las.header
    elif route == HEADER_ROUTES[4]:
        h = laspy.LasHeader(version=version, point_format=pid)
        h.add_extra_dims([params_of(s) for s in specs])
    elif route == HEADER_ROUTES[5]:
        h = laspy.LasHeader(version=version, point_format=pid)
        for s in specs:
            h.add_extra_dim(params_of(s))
    elif route == HEADER_ROUTES[6]:
        h = laspy.LasHeader(version=version, point_format=pid)
        for v in users:
            h.vlrs.append(v)
        h.point_format = format_of(pid, specs)
        eb_last, after = True, False
    elif route == HEADER_ROUTES[7]:
        h = laspy.LasHeader(version="1.4", point_format=6)
        for v in users:
            h.vlrs.append(v)
        h.set_version_and_point_format(laspy.header.Version.from_str(version), format_of(pid, specs))
        eb_last, after = True, False
    elif route == HEADER_ROUTES[8]:
        pid0 = rng.choice([i for i in lasio.COMPAT[version]])
        h0 = laspy.LasHeader(version=version, point_format=pid0)
        for v in users:
            h0.vlrs.append(v)
        h0.add_extra_dims([params_of(s) for s in specs])
        src = laspy.LasData(h0, points=laspy.PackedPointRecord.zeros(rng.choice([0, 1, 3]), h0.point_format))   # what conversion does to values is C12's
        las = laspy.convert(src, point_format_id=pid)
        h = las.header
        log.append(f"src: {version} format {pid0}, {len(src.points)} points")
        eb_last, after = True, False
    elif route == HEADER_ROUTES[9]:
        h = _copy.deepcopy(h0_with_dims())
        eb_last, after = True, False
    elif route == HEADER_ROUTES[10]:
        las = laspy.read(io.BytesIO(file_of(h0_with_dims())))
        h = las.header
        eb_last, after = True, False
    elif route == HEADER_ROUTES[11]:
        with laspy.open(io.BytesIO(file_of(h0_with_dims()))) as r:
            h = r.header
        eb_last, after = True, False
    elif route == HEADER_ROUTES[12]:
        h = laspy.LasHeader(version=version, point_format=laspy.read(io.BytesIO(file_of(h0_with_dims()))).point_format)
    else:
        las = laspy.LasData(laspy.LasHeader(version=version, point_format=pid))
        las.add_extra_dims([params_of(s) for s in specs])
        h = las.header
    if after:
        for v in users:
            h.vlrs.append(v)
    if not specs:
        eb_last = False
    _decorate(rng, h)
    return h, las, users, eb_last, log


def related_format(rng, rel, h, specs):
    """the PointFormat the record is built on, in the given relation to the header's"""
    import laspy
    pid = h.point_format.id
    k = len(specs)
    if rel == "same object":
        return h.point_format, "h.point_format itself"
    if rel == "equal copy":
        return _copy.deepcopy(h.point_format), "copy.deepcopy(h.point_format)"
    if rel == "equal rebuilt":
        return format_of(pid, specs), "the same dimensions added to a fresh PointFormat in the same order"
    if rel == "permuted" and k >= 2:
        order = list(range(k))
        how = rng.choice(["reversed", "rotated", "two exchanged"])
        if how == "reversed":
            order.reverse()
        elif how == "rotated":
            order = order[1:] + order[:1]
        else:
            i, j = rng.sample(range(k), 2)
            order[i], order[j] = order[j], order[i]
        return format_of(pid, [specs[i] for i in order]), f"the same dimensions in another order ({how}: {[specs[i]['name'] for i in order]})"
    if rel == "same size other type" and k >= 1:
        j = rng.randrange(k)
        dt = np.dtype(specs[j]["type"])
        base, n = dt.base, (dt.shape[0] if dt.ndim == 1 else 1)
        cands = []
        if base.kind in "ui" and n <= 3:
            cands.append((str(n) if n > 1 else "") + ("i" if base.kind == "u" else "u") + str(base.itemsize))
        if n <= 3 and (base.kind == "f" or base.itemsize in (4, 8)):
            cands.append((str(n) if n > 1 else "") + ("u" if base.kind == "f" else "f") + str(base.itemsize))
        if n == 1 and base.itemsize in (2, 4, 8) and base.kind in "ui":
            cands.append("2" + base.kind + str(base.itemsize // 2))
        if n == 2 and base.itemsize in (1, 2, 4) and base.kind in "ui":
            cands.append(base.kind + str(base.itemsize * 2))
        if n > 3 and base.kind == "u" and base.itemsize == 1 and n in (4, 8):
            cands.append("u" + str(n))
        cands = [c for c in cands if np.dtype(c).itemsize == dt.itemsize and c != specs[j]["type"]]
        if cands:
            alt = dict(specs[j], type=rng.choice(cands), scales=None, offsets=None)
            return format_of(pid, specs[:j] + [alt] + specs[j + 1:]), f"dimension {specs[j]['name']!r} of type {alt['type']} instead of {specs[j]['type']} (same width)"
    if rel == "renamed" and k >= 1:
        j = rng.randrange(k)
        alt = dict(specs[j], name=(specs[j]["name"] + "x")[:32])
        return format_of(pid, specs[:j] + [alt] + specs[j + 1:]), f"dimension {specs[j]['name']!r} called {alt['name']!r}"
    if rel == "one dropped" and k >= 1:
        return format_of(pid, specs[:-1]), f"without the last dimension {specs[-1]['name']!r}"
    others = [i for i in lasio.COMPAT[str(h.version)] if i != pid] or [i for i in range(11) if i != pid]
    return format_of(rng.choice(others), specs), "the same extra dimensions on another point format id"


def _hsnap(h):
    return (repr(sorted(lasio.header_assoc(h).items())), [lasio.vlr_tuple(v) for v in h.vlrs], full_key(h.point_format))


def _rsnap(rec):
    return (_ident(rec), lasio.rec_bytes(rec), full_key(rec.point_format), str(rec.array.dtype), tuple(map(float, getattr(rec, "scales", []))), tuple(map(float, getattr(rec, "offsets", []))))


def pairing_case(rng, route, rel, entry, tmpdir=None):
    """one header (route) x one record (relation) x one entry point, executed and judged; returns a dict"""
    import laspy
    version = rng.choice(lasio.VERSIONS)
    pid = rng.choice(lasio.COMPAT[version])
    k = rng.choice([1, 2, 2, 3, 3, 4]) if rel != "same object" or rng.random() < 0.9 else 0
    if rel in ("permuted", RELATIONS[8]):
        k = rng.choice([2, 2, 3, 4])
    specs = rand_dim_specs(rng, k)
    res = {"problems": [], "cmd": None}
    desc = {"header_built_by": route, "record_format": rel, "entry": entry, "format": pid,
            "extra_dimensions": [(s["name"], s["type"], s["scales"] is not None) for s in specs]}
    res["desc"] = desc
    try:
        h, las0, users, eb_last, log = build_header(rng, route, version, pid, specs)
    except Exception as ex:
        res["problems"].append(("building the header failed", f"{type(ex).__name__}: {ex}"))
        return res
    desc["version"] = str(h.version)
    want = full_key(format_of(pid, specs))
    if full_key(h.point_format) != want:
        res["problems"].append(("the header does not carry the point format it was built from", f"{full_key(h.point_format)} instead of {want}"))
        return res
    remade = rel == RELATIONS[8]
    rfmt, how = related_format(rng, "permuted" if remade else rel, h, specs)
    desc["record_built_on"] = how
    legal = remade or full_key(rfmt) == full_key(h.point_format)
    n = rng.choice([1, 1, 2, 7]) if not legal else rng.choice([0, 1, 2, 7])
    rec = lasio.rand_points(rng, sessions._Shim(rfmt), n)
    if remade:
        # the legal way of bringing a record of another layout under this header: a new record in the header's layout, values copied by NAME
        src_rec = rec
        try:
            rec = laspy.PackedPointRecord.from_point_record(src_rec, h.point_format)
        except Exception as ex:
            res["problems"].append(("PackedPointRecord.from_point_record failed", f"{type(ex).__name__}: {ex}"))
            return res
        for nm in (src_rec.array.dtype.names if n else ()):
            if np.ascontiguousarray(src_rec.array[nm]).tobytes() != np.ascontiguousarray(rec.array[nm]).tobytes():
                res["problems"].append(("PackedPointRecord.from_point_record does not keep the values of a dimension", f"dimension {nm!r}"))
                return res
        rfmt = h.point_format
        desc["record_built_on"] += ", then PackedPointRecord.from_point_record(that record, h.point_format)"
    if n and rng.random() < 0.25:
        rec = laspy.ScaleAwarePointRecord(rec.array, rfmt, np.array(h.scales), np.array(h.offsets))
        desc["record_kind"] = "ScaleAwarePointRecord in the header's scaling"
    desc["points"] = n
    hfmt_key = full_key(h.point_format)
    hs0, rs0 = _hsnap(h), _rsnap(rec)
    dest = io.BytesIO()
    stage = "pairing"
    las = None
    try:
        if entry == ENTRIES[0]:
            las = laspy.LasData(h, points=rec)
            stage = "write"
            hs1 = _hsnap(h)
            las.write(dest)
        elif entry == ENTRIES[1]:
            las = las0 if las0 is not None else laspy.LasData(h)
            las.points = rec
            stage = "write"
            hs1 = _hsnap(h)
            las.write(dest)
        elif entry == ENTRIES[2]:
            w = laspy.open(dest, mode="w", header=h, closefd=False)
            hs1 = _hsnap(h)
            try:
                w.write_points(rec)
                stage = "write"
            finally:
                w.close()
        else:
            w = laspy.LasWriter(dest, h, closefd=False)
            hs1 = _hsnap(h)
            try:
                w.write_points(rec)
                stage = "write"
            finally:
                w.close()
        outcome = "accepted"
    except Exception as ex:
        outcome = f"refused at {stage}: {type(ex).__name__}: {str(ex)[:80]}"
        res["exc"] = common.exc_kind(ex)
    res["outcome"] = outcome
    res["legal"] = legal
    # ---- the model's view of the same pairing
    ht, rt = edims_tok(h.point_format), edims_tok(rfmt)
    if ht is not None and rt is not None and full_key(h.point_format) == hfmt_key:
        res["cmd"] = (f"pair {h.point_format.id} {ht} {lasio.vlrs_tok(users)} {'T' if eb_last else 'F'} {rfmt.id} {rt} "
                      f"{int(rec.array.dtype.itemsize)} {common.hexb(lasio.rec_bytes(rec))}")
    if outcome != "accepted":
        if legal:
            res["problems"].append(("a record of an equal point format is refused", outcome))
        if (stage == "pairing" or entry in (ENTRIES[2], ENTRIES[3])) and _hsnap(h) != hs0:
            res["problems"].append(("a refused pairing modified the caller's header", "snapshot of the header differs after the refused call"))
        if _rsnap(rec) != rs0:
            res["problems"].append(("a refused pairing modified the caller's record", "snapshot of the record differs after the refused call"))
        return res
    raw = dest.getvalue()
    res["raw"] = raw
    if _rsnap(rec) != rs0:
        res["problems"].append(("write modified the caller's object", "snapshot of the record differs after it was written"))
    if entry in (ENTRIES[0], ENTRIES[1]):
        if _hsnap(h) != hs1:
            res["problems"].append(("write modified the caller's object", "snapshot of the header differs after LasData.write"))
    elif _hsnap(h) != hs1:
        res["problems"].append(("write modified the caller's object", "snapshot of the header the writer was opened with differs after write_points / close"))
    layout = [nm for nm in rec.array.dtype.names]
    try:
        back = laspy_read(raw)
    except Exception as ex:
        res["problems"].append(("written file cannot be read", f"{type(ex).__name__}: {ex}"))
        return res
    res["back"] = back
    if full_key(back.point_format) != hfmt_key:
        a, b = full_key(back.point_format), hfmt_key
        what = "point format differs after round trip" if a[0] != b[0] else "descriptions of the extra dimensions differ after round trip"
        res["problems"].append((what, f"read back {a[0][1]}, the header that was written had {b[0][1]}"))
    if len(back.points) != n or back.header.point_count != n:
        res["problems"].append(("point count differs after round trip", f"header {back.header.point_count}, records {len(back.points)}, written {n}"))
    if lasio.rec_bytes(back.points) != rs0[1]:
        res["problems"].append(("records differ after round trip", f"{len(back.points)} records of {back.points.array.dtype.itemsize} bytes read, {n} of {rec.array.dtype.itemsize} written; bytes differ"))
    bnames = back.points.array.dtype.names or ()
    for nm in layout:
        if not n:
            break
        a = np.ascontiguousarray(np.atleast_1d(rec.array)[nm])
        if nm not in bnames:
            res["problems"].append(("a dimension of the record is missing after round trip", f"{nm!r} was written, the file has {list(bnames)[-6:]}"))
            break
        b = np.ascontiguousarray(back.points.array[nm])
        if a.tobytes() != b.tobytes() or a.dtype != b.dtype:
            res["problems"].append(("values of a dimension differ after round trip",
                                    f"dimension {nm!r}: the record held {a.tolist()[:3]} ({a.dtype}), read back {b.tolist()[:3]} ({b.dtype}); the extra dimensions of the record's memory are laid out "
                                    f"{[d.name for d in rfmt.extra_dimensions]} under a header describing {[d.name for d in h.point_format.extra_dimensions]}"))
            break
    b2 = io.BytesIO()
    try:
        back.write(b2)
        if b2.getvalue() != raw:
            res["problems"].append(("write after read is not idempotent", f"lengths {len(raw)} then {len(b2.getvalue())}"))
    except Exception as ex:
        res["problems"].append(("write after read is not idempotent", f"rewrite raised {type(ex).__name__}: {ex}"))
    return res


_PAIR = None


def pairings(ctx):
    """the cross product routes x relations x entries, once each in the quick tier (random version / format / dimensions / counts),
    several times in the thorough tier"""
    global _PAIR
    if _PAIR is None:
        streamed(ctx)
        _PAIR = []
        for _ in range(ctx.n(1, 8)):
            for route in HEADER_ROUTES:
                for rel in RELATIONS:
                    for entry in ENTRIES:
                        _PAIR.append(pairing_case(ctx.rng, route, rel, entry))
    return _PAIR


def big_round_trips(ctx):
    """SIZE: a LasData of just over 2^20 points (every run), of exact multiples of 65536 incl. strided selections: written at once,
    read back at once and in pieces of 65536"""
    import laspy
    out = []
    rng = ctx.rng
    plan = [((1 << 20) + rng.choice([1, 2, 5]), "1.2", 0, 1), (2 * 65536, rng.choice(lasio.VERSIONS), 0, 2), (65536, "1.4", 6, -1)]
    if rng.random() < 0.5:
        plan.append((rng.choice([1 << 20, (1 << 20) - 1, (1 << 20) + 65536]), rng.choice(lasio.VERSIONS), 0, 1))
    if ctx.thorough():
        plan += [((1 << 21) + 3, "1.4", 6, 1), (16 * 65536, "1.3", 1, 3), ((1 << 20) + 65536, "1.1", 1, 1),
                 ((64 << 20) // 20 + rng.choice([1, 7, 4096]), "1.2", 0, 1)]          # round 6: more than 64 MiB of records in one call
    for n, v, f, stride in plan:
        h = lasio.rand_header(rng, version=v, fmt=f, nvlrs=0)
        seed = rng.randrange(2 ** 32)
        rec = sessions.bulk_records(seed, n, h.point_format, stride)
        d = {"version": v, "format": f, "points": n, "numpy_seed": seed, "stride": stride,
             "reproduce": "rec = sessions.bulk_records(numpy_seed, points, PointFormat(format), stride); LasData(LasHeader(version, format), points=rec).write(BytesIO())"}
        probs = []
        try:
            las = laspy.LasData(h, points=rec)
            b = io.BytesIO()
            las.write(b)
            raw = b.getvalue()
            want = lasio.rec_bytes(rec)
            off = int.from_bytes(raw[96:100], "little")
            cnt = int.from_bytes(raw[247:255], "little") if v == "1.4" else int.from_bytes(raw[107:111], "little")
            if cnt != n or len(raw) != off + n * h.point_format.size:
                probs.append(("point count differs after round trip", f"{n} records written at once, the header of the file says {cnt}, the file holds {(len(raw) - off) // h.point_format.size}"))
            if raw[off:] != want:
                probs.append(("records differ after round trip", "the record bytes in the file differ from the record that was written"))
            try:
                back = laspy_read(raw)
                if lasio.rec_bytes(back.points) != want:
                    probs.append(("records differ after round trip", f"{len(back.points)} records read back, {n} written; bytes differ"))
                with laspy.open(io.BytesIO(raw)) as r:
                    got = b"".join(lasio.rec_bytes(p) for p in r.chunk_iterator(65536))
                if got != want:
                    probs.append(("records differ through chunk_iterator", f"{len(got)} bytes read in pieces of 65536 points, {len(want)} written; contents differ"))
            except Exception as ex:
                probs.append(("written file cannot be read", f"{type(ex).__name__}: {ex}"))
        except Exception as ex:
            probs.append(("write failed: " + type(ex).__name__, f"{type(ex).__name__}: {ex}"))
        out.append((d, probs))
    return out


# =====================================================================================================================
# round 6: (a) SELECTIONS THAT ARE VIEWS. las.points[a:b:k] / las[a:b:k] (any step, either sign, slices of slices) are numpy views of
# the cloud they were selected from; masks and index lists are copies. Writing any of them - LasData.write, LasWriter.write_points,
# laspy.open(mode='w') - must leave the object it was given as it is: the same array object over the same memory with the same strides,
# so that an edit made through the selection after the write still reaches the cloud (and the file the cloud is written to afterwards).
# The harness keeps its own picture (buffers + index maps, plain Python) of what every object must hold; Model/RecView.v is the same
# picture in Coq (`vsess` of bin/lasmodel_c04).
# (b) READING SESSIONS: every interleaving of chunk iterators (created early, late, several at once, drained twice), read_points,
# seek and read on one open reader gives back the records the cursor stands on - whatever was read or sought before the iterator was
# created or between two of its steps (the iterator has no state of its own).
# =====================================================================================================================
_VIEW_FIELDS = ["intensity", "X", "point_source_id", "Z"]


def _ident(rec):
    a = rec.array
    return (id(rec), id(a), a.__array_interface__["data"][0], a.strides, a.shape, bool(a.flags.writeable), id(rec.point_format))


def view_session(rng, thorough=False):
    """one parent cloud, a tree of selections (views and copies; LasData or bare records), writes of any of them through every entry
    point, edits through any of them; returns dict(desc, failures, cmd)"""
    import laspy
    h = lasio.rand_header(rng, nvlrs=rng.choice([0, 1]))
    if rng.random() < 0.3:
        lasio.add_extra_dims(rng, h)
    n0 = rng.choice([2, 3, 5, 8, 13, 30])
    bare_root = rng.random() < 0.3          # the cloud is a bare PackedPointRecord (the base class), not the ScaleAwarePointRecord of a LasData
    if bare_root:
        las0 = lasio.rand_points(rng, h, n0)
        root_rec = las0
    else:
        las0 = laspy.LasData(header=h, points=lasio.rand_points(rng, h, n0))
        root_rec = las0.points
    size = int(h.point_format.size)
    dt = root_rec.array.dtype
    desc = {"version": str(h.version), "format": h.point_format.id, "points": n0, "record_size": size,
            "ops": [("las0 = PackedPointRecord of %d records" if bare_root else "las0 = LasData(header, points=<%d records>)") % n0]}
    log = desc["ops"]
    buffers = {0: [bytearray(lasio.rec_bytes(root_rec)[i * size:(i + 1) * size]) for i in range(n0)]}
    objs = [{"name": "las0", "obj": las0, "buf": 0, "idx": list(range(n0)), "las": not bare_root}]
    res = {"desc": desc, "failures": [], "writes": 0, "edits": 0, "views": 0, "copies": 0}
    toks = [str(size), common.hexb(lasio.rec_bytes(root_rec))]
    wrote = [False]

    def rec_of(o):
        return o["obj"].points if o["las"] else o["obj"]

    def want(o):
        return b"".join(bytes(buffers[o["buf"]][p]) for p in o["idx"])

    def check(where):
        for o in objs:
            got = lasio.rec_bytes(rec_of(o))
            if got != want(o):
                w = want(o)
                bad = next((i for i in range(len(o["idx"])) if got[i * size:(i + 1) * size] != w[i * size:(i + 1) * size]), None)
                kind = ("view: after a write, an edit through a selection does not reach every object over the same records" if wrote[0] and res["edits"]
                        else "view: records of an object differ from what was done to the records it selects")
                res["failures"].append((kind, f"{o['name']} after {where}: record {bad} of {len(o['idx'])} differs from the harness's picture "
                                              f"(numpy semantics: slices are views, masks / index lists are copies)", len(log)))
                return False
        return True

    nsteps = rng.randrange(3, 9 if not thorough else 14)
    for step in range(nsteps):
        r = rng.random()
        o = rng.choice(objs)
        n = len(o["idx"])
        if r < 0.35 and len(objs) < 6:
            cands = [slice(None, None, 2), slice(1, None, 2), slice(None, None, 3), slice(None, None, -1), slice(None, None, -2), slice(0, max(1, n // 2)), slice(1, None), slice(None)]
            view = rng.random() < 0.7
            if view or n == 0:
                ix = rng.choice(cands)
                sel = list(range(n))[ix]
                shown = f"{ix.start if ix.start is not None else ''}:{ix.stop if ix.stop is not None else ''}" + (f":{ix.step}" if ix.step is not None else "")
                newbuf, newidx = o["buf"], [o["idx"][k] for k in sel]
                toks.append(f"V{objs.index(o)}:" + (",".join(map(str, sel)) or "-"))
                res["views"] += 1
            else:
                sel = sorted(rng.sample(range(n), rng.randrange(1, n + 1))) if rng.random() < 0.5 else [rng.randrange(n) for _ in range(rng.randrange(1, n + 2))]
                if rng.random() < 0.5:
                    m = np.zeros(n, dtype=bool); m[sorted(set(sel))] = True
                    ix, sel, shown = m, sorted(set(sel)), "<mask selecting %s>" % sorted(set(sel))
                else:
                    ix, shown = list(sel), repr(list(sel))
                newbuf = max(buffers) + 1
                buffers[newbuf] = [bytearray(buffers[o["buf"]][o["idx"][k]]) for k in sel]
                newidx = list(range(len(sel)))
                toks.append(f"K{objs.index(o)}:" + (",".join(map(str, sel)) or "-"))
                res["copies"] += 1
            name = f"s{len(objs)}"
            as_las = o["las"] and rng.random() < 0.5
            try:
                new = o["obj"][ix] if as_las else rec_of(o)[ix]
            except Exception as ex:
                log.append(f"# {o['name']}[{shown}] raised {type(ex).__name__}: {ex}")
                toks.pop()
                continue
            log.append(f"{name} = {o['name']}{'' if as_las or not o['las'] else '.points'}[{shown}]" + ("   # a view" if newbuf == o["buf"] else "   # a copy"))
            objs.append({"name": name, "obj": new, "buf": newbuf, "idx": newidx, "las": as_las})
        elif r < 0.65:
            rec = rec_of(o)
            before = _ident(rec)
            dest = io.BytesIO()
            route = rng.choice(["write", "LasWriter", "open"]) if o["las"] else rng.choice(["LasWriter", "open"])
            hh = o["obj"].header if o["las"] else copy.deepcopy(h)
            try:
                if route == "write":
                    o["obj"].write(dest)
                    lab = f"{o['name']}.write(<bytesio>)"
                elif route == "LasWriter":
                    with laspy.LasWriter(dest, hh, closefd=False) as w:
                        w.write_points(rec)
                    lab = f"with laspy.LasWriter(<bytesio>, header, closefd=False) as w: w.write_points({o['name']}{'.points' if o['las'] else ''})"
                else:
                    with laspy.open(dest, mode="w", header=hh, closefd=False) as w:
                        w.write_points(rec)
                    lab = f"with laspy.open(<bytesio>, mode='w', header=header, closefd=False) as w: w.write_points({o['name']}{'.points' if o['las'] else ''})"
            except Exception as ex:
                res["failures"].append(("view: write failed", f"{o['name']} through {route}: {type(ex).__name__}: {ex}", len(log)))
                break
            log.append(lab)
            toks.append(f"W{objs.index(o)}")
            res["writes"] += 1
            wrote[0] = True
            raw = dest.getvalue()
            off = int.from_bytes(raw[96:100], "little")
            if raw[off:off + len(o["idx"]) * size] != want(o):
                res["failures"].append(("view: records differ after round trip", f"the file written from {o['name']} does not hold the records {o['name']} selects", len(log)))
                break
            rec2 = rec_of(o)
            if _ident(rec2) != before:
                b, a = before, _ident(rec2)
                what = [nm for nm, x, y in zip(("record object", "array object", "memory address", "strides", "shape", "writeable flag", "point format object"), b, a) if x != y]
                res["failures"].append(("write modified the caller's object: the record's array was re-bound / re-laid out", f"{o['name']} after {lab}: changed: {what}; strides {b[3]} -> {a[3]}", len(log)))
                break
        else:
            if n == 0:
                continue
            f = rng.choice([x for x in _VIEW_FIELDS if x in dt.names])
            fdt, foff = dt.fields[f][0], dt.fields[f][1]
            style = rng.choice(["attr[:]", "array", "setattr"])
            vals = [rng.randrange(0, 60000) for _ in range(n)] if rng.random() < 0.5 else [rng.randrange(0, 60000)] * n
            arr = np.array(vals, dtype=fdt)
            try:
                if style == "attr[:]":
                    getattr(o["obj"], f)[:] = arr
                    lab = f"{o['name']}.{f}[:] = {vals[:4]}{'...' if n > 4 else ''}"
                elif style == "array":
                    rec_of(o).array[f][...] = arr
                    lab = f"{o['name']}{'.points' if o['las'] else ''}.array[{f!r}][...] = {vals[:4]}{'...' if n > 4 else ''}"
                else:
                    setattr(o["obj"], f, arr)
                    lab = f"{o['name']}.{f} = np.array({vals[:4]}{'...' if n > 4 else ''})"
            except Exception as ex:
                log.append(f"# editing {f} through {o['name']} ({style}) raised {type(ex).__name__}: {str(ex)[:60]}")
                continue
            log.append(lab)
            res["edits"] += 1
            for k, pos in enumerate(o["idx"]):
                buffers[o["buf"]][pos][foff:foff + fdt.itemsize] = arr[k:k + 1].tobytes()
            toks.append(f"E{objs.index(o)}:{foff}:" + common.hexb(arr.tobytes()) + f":{fdt.itemsize}")
        if not check(log[-1]):
            break
    if not res["failures"]:
        # the cloud, written at the end, holds every edit made through its views
        dest = io.BytesIO()
        try:
            if bare_root:
                with laspy.LasWriter(dest, copy.deepcopy(h), closefd=False) as w:
                    w.write_points(las0)
            else:
                las0.write(dest)
            raw = dest.getvalue()
            off = int.from_bytes(raw[96:100], "little")
            log.append("with laspy.LasWriter(<bytesio>, header, closefd=False) as w: w.write_points(las0)" if bare_root else "las0.write(<bytesio>)")
            toks.append("W0")
            if raw[off:off + n0 * size] != want(objs[0]):
                res["failures"].append(("view: the file of the cloud does not hold the edits made through its selections", "las0.write at the end of the session", len(log)))
        except Exception as ex:
            res["failures"].append(("view: write failed", f"las0: {type(ex).__name__}: {ex}", len(log)))
    res["final"] = [lasio.rec_bytes(rec_of(o)) for o in objs]
    res["cmd"] = "vsess " + " ".join(toks)
    return res


_VIEWS = None


def view_sessions(ctx):
    global _VIEWS
    if _VIEWS is None:
        pairings(ctx)
        _VIEWS = [view_session(ctx.rng, ctx.thorough()) for _ in range(ctx.n(250, 3000))]
    return _VIEWS


def reading_session(rng, raw, recs, size, thorough=False):
    """one open reader over the file `raw` (holding the records `recs`), a random interleaving of: it_k = r.chunk_iterator(c), next(it_k),
    draining it_k, r.read_points(m), r.seek(p); the harness keeps the cursor; returns dict(desc ops, failures, cmd)"""
    import laspy
    n = len(recs) // size
    log, fails, toks, obs = [], [], [], []
    pos = 0
    its = []
    nsteps = rng.randrange(3, 9 if not thorough else 14)

    def expect(m):
        k = (n - pos) if m < 0 else min(m, n - pos)
        return max(k, 0)

    def take(got, k, what):
        nonlocal pos
        w = recs[pos * size:(pos + k) * size]
        g = lasio.rec_bytes(got) if got is not None else b""
        if g != w:
            fails.append(("reading session: records differ", f"{what}: the cursor stands on record {pos} of {n}; expected records {pos}..{pos + k}, got {len(g) // size} records"
                                                            f"{' (others)' if len(g) == len(w) else ''}", len(log)))
            return False
        obs.append(f"s{pos}:{pos + k}" if k else "s=")
        pos += k
        return True
    with laspy.open(io.BytesIO(raw)) as r:
        for step in range(nsteps):
            x = rng.random()
            if x < 0.2 or (not its and x < 0.5):
                c = rng.choice([1, 2, 3, max(1, n // 2), max(1, n), n + 5, max(1, n - 1)])
                its.append((r.chunk_iterator(c), c))
                log.append(f"it{len(its) - 1} = r.chunk_iterator({c})")
                continue
            if x < 0.45 and its:
                j = rng.randrange(len(its))
                it, c = its[j]
                k = expect(c)
                log.append(f"next(it{j})")
                toks.append(f"N{c}")
                try:
                    got = next(it)
                    if k == 0:
                        fails.append(("reading session: iterator does not stop at the end of the points", f"next(it{j}) returned {len(got)} records with the cursor on {pos} of {n}", len(log)))
                        break
                    if not take(got, k, f"next(it{j}) (chunks of {c})"):
                        break
                except StopIteration:
                    obs.append("eEStop")
                    if k != 0:
                        fails.append(("reading session: iterator stops although records are left",
                                      f"next(it{j}) (chunks of {c}) raised StopIteration with the cursor on record {pos} of {n}", len(log)))
                        break
            elif x < 0.65 and its:
                j = rng.randrange(len(its))
                it, c = its[j]
                log.append(f"pieces = list(it{j})")
                pieces = list(it)
                toks.extend([f"N{c}"] * (len(pieces) + 1))
                cur = pos
                for pc in pieces:
                    obs.append(f"s{cur}:{cur + len(pc)}")
                    cur += len(pc)
                obs.append("eEStop")
                k = n - pos
                got = b"".join(lasio.rec_bytes(p) for p in pieces)
                if got != recs[pos * size:]:
                    fails.append(("reading session: draining an iterator does not give the records that are left",
                                  f"list(it{j}) (chunks of {c}) with the cursor on record {pos} of {n}: {len(got) // size} records in {len(pieces)} pieces, {k} were left", len(log)))
                    break
                pos = n
            elif x < 0.85:
                p = rng.choice([0, 0, 0, max(0, n - 1), rng.randrange(max(1, n))])
                log.append(f"r.seek({p})")
                toks.append(f"S{p}:0")
                try:
                    r.seek(p)
                    obs.append(f"k{p}")
                    if not (0 <= p < n):
                        fails.append(("reading session: seek outside the points accepted", f"seek({p}) on {n} points", len(log)))
                        break
                    pos = p
                except IndexError:
                    obs.append("eEIndex")
                    if 0 <= p < n:
                        fails.append(("reading session: seek refused", f"seek({p}) on {n} points", len(log)))
                        break
            else:
                m = rng.choice([0, 1, 2, -1, max(1, n // 2), n + 3])
                log.append(f"r.read_points({m})")
                toks.append(f"R{m}")
                if not take(r.read_points(m), expect(m), f"read_points({m})"):
                    break
    return {"ops": log, "failures": fails, "cmd": f"crun {n} " + " ".join(toks) if toks else None, "obs": obs, "n": n}


def near_rescale_cases(ctx):
    """round 6: LasData whose header scaling was edited after the records were made, by EVERY order of magnitude (sessions.SCALING_DIFFS:
    one ulp .. relative 1e-9 / 1e-7 / 5e-6 .. metres at UTM magnitudes .. doubled), half of the headers UTM-like. LasData.write re-expresses
    the records in the header's scaling exactly when it differs: what is read back presents every coordinate to within half a step of the
    file's scaling, the file says the header's scaling bit for bit, and the caller's object is left alone"""
    import laspy
    out = []
    rng = ctx.rng
    for _ in range(ctx.n(120, 1500)):
        h = lasio.rand_header(rng, nvlrs=rng.choice([0, 1]))
        if rng.random() < 0.6:
            sc = rng.choice([0.001, 0.01])
            h.scales = np.array([sc, sc, sc])
            h.offsets = np.array([rng.choice([500000.0, 431000.0, 699999.5]), rng.choice([4000000.0, 5412345.0, 9300000.25]), rng.choice([0.0, 100.0, 1500.5])])
        n = rng.choice([1, 2, 7, 30])
        pts = lasio.rand_points(rng, h, n, pattern="small")
        for k in "XYZ":
            pts.array[k] = np.array([rng.randrange(-100000, 100000) for _ in range(n)], dtype=np.int32)
        las = laspy.LasData(header=h, points=pts)
        how = rng.choice(sessions.SCALING_DIFFS)
        s, o = sessions.differing_scaling(rng, las.header, how)
        las.header.scales, las.header.offsets = s, o
        if rng.random() < 0.3:
            las = las[::2] if rng.random() < 0.5 else las[::-1]
        d = {"version": str(h.version), "format": h.point_format.id, "points": len(las.points), "record_scales": [float(x) for x in las.points.scales], "record_offsets": [float(x) for x in las.points.offsets],
             "header_scaling_edited_to": {"how": how, "scales": [float(x) for x in s], "offsets": [float(x) for x in o]},
             "reproduce": "las = LasData(header, points); las.header.scales, las.header.offsets = <edited>; las.write(BytesIO()); laspy.read(...)"}
        probs = []
        before = [np.array(las.points[k]) for k in "xyz"]
        snap = _snap(las)
        b = io.BytesIO()
        try:
            las.write(b)
        except OverflowError:
            if _snap(las) != snap:
                probs.append(("a refused write modified the caller's object", "OverflowError, and the snapshot differs"))
            out.append((d, probs))
            continue
        except Exception as ex:
            out.append((d, [("write failed: " + type(ex).__name__, f"{type(ex).__name__}: {ex}")]))
            continue
        if _snap(las) != snap:
            probs.append(("write modified the caller's object", "snapshot (contents and identity) differs after LasData.write of an object whose header scaling was edited"))
        try:
            back = laspy_read(b.getvalue())
        except Exception as ex:
            out.append((d, probs + [("written file cannot be read", f"{type(ex).__name__}: {ex}")]))
            continue
        if [lasio.f64bits(x) for x in back.header.scales] != [lasio.f64bits(x) for x in s] or [lasio.f64bits(x) for x in back.header.offsets] != [lasio.f64bits(x) for x in o]:
            probs.append(("scales/offsets differ after round trip", f"read back {list(back.header.scales)} {list(back.header.offsets)}"))
        if len(back.points) != len(las.points):
            probs.append(("point count differs after round trip", f"{len(back.points)} read, {len(las.points)} written"))
        else:
            for i, k in enumerate("xyz"):
                got = np.asarray(back.points.array[k.upper()], dtype=np.float64) * float(back.header.scales[i]) + float(back.header.offsets[i])
                err = np.abs(got - before[i])
                tol = 0.5 * float(back.header.scales[i]) * (1 + 1e-9) + 2e-15 * max(1.0, float(np.abs(before[i]).max()), abs(float(back.header.offsets[i])))
                if len(err) and float(err.max()) > tol:
                    probs.append(("rescaled write moved coordinates", f"{k}: presented {before[i][:3].tolist()} before the write, read back {got[:3].tolist()}: error {float(err.max())!r} > half a step "
                                                                      f"{0.5 * float(back.header.scales[i])!r} (header scaling edited: {how})"))
                    break
        b2 = io.BytesIO()
        try:
            back.write(b2)
            if b2.getvalue() != b.getvalue():
                probs.append(("write after read is not idempotent", "the re-expressed file is rewritten differently"))
        except Exception as ex:
            probs.append(("write after read is not idempotent", f"rewrite raised {type(ex).__name__}: {ex}"))
        out.append((d, probs))
    return out


# =====================================================================================================================
# round 7: clouds made INDEPENDENTLY of one another in one process - laspy.create() / LasHeader() with and without arguments (the
# defaults!), LasData(header), two reads of the same bytes, a deep copy of a live header - at any time of the session (before and
# after the others were edited), filled through the record, the integer or the scaled dimensions, then edited ONE at a time through
# every spelling of an edit of an array-valued header field (element setters x_offset / x_scale / x_max / x_min, h.offsets[i] = v,
# h.offsets[:] = v, h.offsets += v, whole-array setters, change_scaling, maxs / mins / number_of_points_by_return) and the scalar ones.
# Nothing mutable may be reachable from two of them (structural probe at every creation against EVERY live cloud; what it finds is
# perturbed in place through the newer one); after every operation every OTHER cloud is compared with its snapshot (contents and
# identities) and every cloud is written, read back and judged against what was done to that cloud alone.
# Model: the worlds of Model/DataAlias.v (`dworld`; an independent cloud is the operation DCreate, token N), on which
# C01_created_object_is_as_given, C01_created_cloud_keeps_its_file, C01_write_unaffected_by_other_objects are stated.
# =====================================================================================================================
CLOUD_ROUTES = ["laspy.create()", "laspy.create(point_format=f, file_version=v)", "laspy.create(point_format=f)", "laspy.create(file_version=v)",
                "LasData(LasHeader())", "LasData(LasHeader(version=v, point_format=f))", "LasData(LasHeader(point_format=PointFormat(f)))",
                "h = LasHeader(version=v, point_format=f); LasData(h, points=ScaleAwarePointRecord.zeros(n, header=h))",
                "laspy.read(<bytes>)", "laspy.read(<the same bytes again>)", "LasData(copy.deepcopy(other.header))"]
_FRESH = {}


class _FillRefused(Exception):
    pass


_SNAP_PARTS = ["records", "record format", "record scales", "record offsets", "header fields", "VLRs", "EVLRs"]


def _snap_diff(old, new, las, old_assoc):
    parts = [nm for nm, a, b in zip(_SNAP_PARTS, old[0], new[0]) if a != b]
    if "header fields" in parts:
        cur = lasio.header_assoc(las.header)
        parts[parts.index("header fields")] = "header fields " + ", ".join(k for k in cur if cur[k] != old_assoc.get(k))
    if old[1:] != new[1:]:
        parts.append("identity of the record / array / header / format / VLR objects")
    return "; ".join(parts) or "?"


def independent_session(rng, thorough=False):
    import laspy
    log = []
    res = {"failures": [], "probe": [], "steps": 0, "edits": 0, "routes": [], "reader_twice": False, "derivations": []}
    live, names, mirror, toks = [], [], {}, []
    pool = {}

    def state_of(las):
        h = las.header
        evl = [lasio.vlr_tuple(v) for v in h.evlrs] if (h.version.minor >= 4 and h.evlrs is not None) else []
        return {"assoc": lasio.header_assoc(h), "vlrs": [lasio.vlr_tuple(v) for v in h.vlrs], "evlrs": evl,
                "fmt": sessions.format_value(las.points.point_format), "recs": lasio.rec_bytes(las.points)}

    def sync(name, las):
        cur, old = state_of(las), mirror[name]
        sets = {k: v for k, v in cur["assoc"].items() if k not in ("point_format_id", "point_size") and old["assoc"].get(k) != v}
        tok = "D{}!{}!{}!{}!{}!{}".format(names.index(name), lasio.assoc_tok(sets),
                                          "~" if cur["vlrs"] == old["vlrs"] else lasio.vlrs_tok(cur["vlrs"]),
                                          "~" if cur["evlrs"] == old["evlrs"] else lasio.vlrs_tok(cur["evlrs"]),
                                          "~" if cur["fmt"] == old["fmt"] else sessions.fmt_tok(cur["fmt"]),
                                          "~" if cur["recs"] == old["recs"] else common.hexb(cur["recs"]))
        mirror[name] = cur
        return [] if tok.endswith("!-!~!~!~!~") else [tok]

    def remember(o):
        o["exp"] = _observe(o["las"])
        if _pending_rescale(o["las"]):
            o["exp"]["pending"] = True
        o["snap"] = _snap(o["las"])
        o["assoc"] = lasio.header_assoc(o["las"].header)

    def check_others(actor, what):
        for p in live:
            if p is actor:
                continue
            s = _snap(p["las"])
            if s != p["snap"]:
                res["failures"].append(("independent clouds: an operation on one cloud changed another cloud",
                                        f"{what} changed {p['name']} ({p['route']}): {_snap_diff(p['snap'], s, p['las'], p['assoc'])}", len(log)))
                # and what that does to the round trip of the cloud that was not touched
                for kind, why in _judge(p["las"], p["exp"], False):
                    res["failures"].append(("independent clouds: " + kind, f"{p['name']} ({p['route']}), after {what}: {why}", len(log)))
                return True
        return False

    def small_coords(rec, n):
        for k in "XYZ":
            rec.array[k] = np.array([rng.randrange(-100000, 100000) for _ in range(n)], dtype=np.int32)

    def create():
        try:
            create_()
        except Exception as ex:
            if not isinstance(ex, _FillRefused):
                res["failures"].append(("independent clouds: making a cloud raised " + type(ex).__name__, f"{type(ex).__name__}: {ex}", len(log)))

    def create_():
        v, f = rng.choice(lasio.ALL_PAIRS)
        route = rng.choice(CLOUD_ROUTES)
        name = f"c{len(names)}"
        parent = None
        n = rng.choice([0, 1, 2, 5])
        if route == "laspy.create()":
            las = laspy.create()
        elif route == "laspy.create(point_format=f, file_version=v)":
            las = laspy.create(point_format=f, file_version=v)
        elif route == "laspy.create(point_format=f)":
            las = laspy.create(point_format=f)
        elif route == "laspy.create(file_version=v)":
            las = laspy.create(file_version=v)
        elif route == "LasData(LasHeader())":
            las = laspy.LasData(laspy.LasHeader())
        elif route == "LasData(LasHeader(version=v, point_format=f))":
            las = laspy.LasData(laspy.LasHeader(version=v, point_format=f))
        elif route == "LasData(LasHeader(point_format=PointFormat(f)))":
            las = laspy.LasData(laspy.LasHeader(point_format=laspy.PointFormat(f)))
        elif route.startswith("h = LasHeader"):
            h = laspy.LasHeader(version=v, point_format=f)
            las = laspy.LasData(h, points=laspy.ScaleAwarePointRecord.zeros(n, header=h))
        elif route.startswith("laspy.read"):
            if "raw" not in pool or (route == "laspy.read(<bytes>)" and rng.random() < 0.5):
                h = lasio.rand_header(rng, version=v, fmt=f, nvlrs=rng.choice([0, 1]))
                rec = lasio.rand_points(rng, h, n)
                if n:
                    small_coords(rec, n)
                pool["raw"] = lasio.write_las(h, rec)
            las = laspy_read(pool["raw"])
        else:
            if not live:
                return create()
            parent = rng.choice(live)
            las = laspy.LasData(copy.deepcopy(parent["las"].header))
            route = f"LasData(copy.deepcopy({parent['name']}.header))"
        label = f"{name} = {route}" + (f"   # v={v!r}, f={f}" + (f", n={n}" if "zeros" in route else "") if ("=v" in route or "=f" in route or "(f)" in route) else "")
        # ---- state kept ACROSS calls: the same creating expression gives the same header as the first time it was evaluated in this process
        stale = None
        if parent is None and not route.startswith("laspy.read"):
            a = lasio.header_assoc(las.header)
            fresh = dict({k: x for k, x in a.items() if not k.startswith("creation_")}, vlrs=[lasio.vlr_tuple(x) for x in las.vlrs], points=len(las.points),
                         record_scaling=[lasio.f64bits(x) for x in list(las.points.scales) + list(las.points.offsets)])
            key = (route, v if "=v" in route else None, f if ("=f" in route or "(f)" in route) else None, n if "zeros" in route else None)
            first = _FRESH.setdefault(key, fresh)
            if first != fresh:
                stale = ", ".join(f"{k}: {str(fresh[k])[:60]} (the first time: {str(first[k])[:60]})" for k in fresh if fresh[k] != first.get(k))
        # ---- filled through the record, the integer dimensions, or the scaled ones
        fill = rng.choice(["left as created", "points", "points", "X/Y/Z", "x/y/z"]) if not route.startswith("laspy.read") else "left as created"
        if len(las.points):
            n = len(las.points)      # made with records already (zeros): the dimensions are assigned at that length
        try:
            label = fill_(las, name, fill, n, label)
        except Exception as ex:
            # a refused assignment (coordinates that do not fit the scaling of a header that was read or copied): C11's business; the cloud is not used
            log.append(f"# {label}; filling it through {fill} raised {type(ex).__name__}: {str(ex)[:60]} -- not used")
            raise _FillRefused()
        log.append(label)
        if stale:
            res["polluted"] = True
            res["failures"].append(("independent clouds: the same creating expression gives another cloud than the first time in this process",
                                    f"{label.split(';')[0]}: {stale}; in between, the headers of OTHER clouds made the same way were edited in place", len(log)))
        res["routes"].append(route.split("(")[0] + ("()" if route.endswith("()") or route.endswith("LasHeader())") else "(..)"))
        finish_(las, name, route, parent, label)

    def fill_(las, name, fill, n, label):
        if fill == "points" and n:
            rec = lasio.rand_points(rng, las.header, n)
            if rng.random() < 0.8:
                small_coords(rec, n)
            las.points = laspy.ScaleAwarePointRecord(rec.array, las.header.point_format, scales=las.header.scales, offsets=las.header.offsets)
            label += f"; {name}.points = ScaleAwarePointRecord(<{n} records>, {name}.header.point_format, {name}.header.scales, {name}.header.offsets)"
        elif fill == "X/Y/Z" and n:
            vals = [[rng.randrange(-100000, 100000) for _ in range(n)] for _ in range(3)]
            las.X, las.Y, las.Z = (np.array(a, dtype=np.int32) for a in vals)
            las.intensity = [rng.randrange(65536) for _ in range(n)]
            label += f"; {name}.X, {name}.Y, {name}.Z = {vals}; {name}.intensity = <{n} values>"
        elif fill == "x/y/z" and n:
            vals = [[rng.randrange(-100000, 100000) / 4.0 for _ in range(n)] for _ in range(3)]
            las.x, las.y, las.z = (np.array(a) for a in vals)
            label += f"; {name}.x, {name}.y, {name}.z = {vals}"
        if rng.random() < 0.3:
            las.update_header()
            label += f"; {name}.update_header()"
        return label

    def finish_(las, name, route, parent, label):
        o = {"name": name, "las": las, "route": route}
        remember(o)
        # ---- what the model is told: a cloud made from nothing that is live as it is (DCreate); one made on a deep copy of a live header as a
        # copy of that cloud followed by one edit that sets everything in which it differs
        if not names:
            st = state_of(las)
            mirror[name] = st
            toks.extend([lasio.assoc_tok(st["assoc"]), lasio.vlrs_tok(st["vlrs"]), lasio.vlrs_tok(st["evlrs"]), sessions.fmt_tok(st["fmt"]), common.hexb(st["recs"])])
            names.append(name)
        elif parent is None:
            st = state_of(las)
            mirror[name] = st
            toks.append("N" + "!".join([lasio.assoc_tok(st["assoc"]), lasio.vlrs_tok(st["vlrs"]), lasio.vlrs_tok(st["evlrs"]), sessions.fmt_tok(st["fmt"]), common.hexb(st["recs"])]))
            names.append(name)
        else:
            toks.append(f"K{names.index(parent['name'])}")
            names.append(name)
            mirror[name] = dict(mirror[parent["name"]])
            toks.extend(sync(name, las))
        # ---- structural probe against EVERY live cloud
        for p in live:
            for pa, pb, obj in sessions.shared_mutables(p["las"], las):
                res["probe"].append(f"{p['name']}{pa} is {name}{pb} ({type(obj).__name__})")
                pert = sessions.perturbation_for(rng, pb, obj)
                if pert is not None and len(forced) < 6:
                    forced.append((o, pert))
        live.append(o)
        if check_others(o, label):
            return

    forced = []

    def edits_of(o):
        las, nm = o["las"], o["name"]
        h = las.header
        i = rng.randrange(3)
        ax = "xyz"[i]
        sv = rng.choice([0.001, 0.01, 0.5, 2.0, 0.25])
        ov = rng.choice([0.0, 1.5, -2.0, 1000.0, 500.0, -20.0, 7.5])
        k = rng.randrange(10000)
        t = rng.choice(["u1", "u2", "i4", "f8", "2u2"])
        r = rng.randrange(15)
        c = []
        if las.points.array.ndim:
            c += [(f"{nm}.header.{ax}_offset = {ov!r}", lambda: setattr(h, f"{ax}_offset", ov)),
                  (f"{nm}.header.x_offset, {nm}.header.y_offset, {nm}.header.z_offset = 500.0, -20.0, {ov!r}", lambda: (setattr(h, "x_offset", 500.0), setattr(h, "y_offset", -20.0), setattr(h, "z_offset", ov))),
                  (f"{nm}.header.{ax}_scale = {sv!r}", lambda: setattr(h, f"{ax}_scale", sv)),
                  (f"{nm}.header.offsets[{i}] = {ov!r}", lambda: h.offsets.__setitem__(i, ov)),
                  (f"{nm}.header.scales[{i}] = {sv!r}", lambda: h.scales.__setitem__(i, sv)),
                  (f"{nm}.header.offsets[:] = {ov!r}", lambda: h.offsets.__setitem__(slice(None), ov)),
                  (f"{nm}.header.scales[:] = {sv!r}", lambda: h.scales.__setitem__(slice(None), sv)),
                  (f"{nm}.header.offsets += 1.5", lambda: h.offsets.__iadd__(1.5)),
                  (f"{nm}.header.scales *= 2", lambda: h.scales.__imul__(2)),
                  (f"{nm}.header.offsets = np.array([{ov!r}, 0.0, {ov!r}])", lambda: setattr(h, "offsets", np.array([ov, 0.0, ov]))),
                  (f"{nm}.header.scales = np.array([{sv!r}]*3)", lambda: setattr(h, "scales", np.array([sv] * 3))),
                  (f"{nm}.change_scaling(scales=[{sv!r}]*3, offsets=[{ov!r}]*3)", lambda: las.change_scaling(scales=np.array([sv] * 3), offsets=np.array([ov] * 3))),
                  (f"{nm}.change_scaling(offsets=[{ov!r}]*3)", lambda: las.change_scaling(offsets=np.array([ov] * 3)))]
        c += [(f"{nm}.header.{ax}_max = 1e9; {nm}.header.{ax}_min = -1e9", lambda: (setattr(h, f"{ax}_max", 1e9), setattr(h, f"{ax}_min", -1e9))),
              (f"{nm}.header.maxs[{i}] = 12.5; {nm}.header.mins[:] = -3.0", lambda: (h.maxs.__setitem__(i, 12.5), h.mins.__setitem__(slice(None), -3.0))),
              (f"{nm}.header.maxs = np.array([1.0, 2.0, 3.0])", lambda: setattr(h, "maxs", np.array([1.0, 2.0, 3.0]))),
              (f"{nm}.header.number_of_points_by_return[{r}] += 9", lambda: h.number_of_points_by_return.__setitem__(r, h.number_of_points_by_return[r] + 9)),
              (f"{nm}.header.global_encoding.value ^= 1", lambda: setattr(h.global_encoding, "value", h.global_encoding.value ^ 1)),
              (f"{nm}.header.system_identifier = 'edited'", lambda: setattr(h, "system_identifier", "edited")),
              (f"{nm}.header.file_source_id = {k}", lambda: setattr(h, "file_source_id", k)),
              (f"{nm}.vlrs.append(VLR)", lambda: las.vlrs.append(lasio.rand_vlr(rng, 40))),
              (f"{nm}.header.extra_header_bytes = b'xy'", lambda: setattr(h, "extra_header_bytes", b"xy")),
              (f"{nm}.add_extra_dim(ExtraBytesParams('h{k}', {t!r}))", lambda: las.add_extra_dim(laspy.ExtraBytesParams(f"h{k}", t))),
              (f"{nm}.update_header()", lambda: las.update_header()),
              (f"{nm}.write(BytesIO())", lambda: las.write(io.BytesIO()))]
        if h.version.minor >= 4:
            c += [(f"{nm}.evlrs = VLRList([VLR])", lambda: setattr(las, "evlrs", laspy.vlrs.vlrlist.VLRList([lasio.rand_vlr(rng, 30)])))]
        if len(las.points) and las.points.array.ndim:
            val = rng.randrange(32)
            c += [(f"{nm}.classification = {val}  (all points)", lambda: setattr(las, "classification", np.full(len(las.points), val, dtype=np.uint8))),
                  (f"{nm}.X = {nm}.X[::-1]", lambda: setattr(las, "X", np.array(las.X)[::-1].copy())),
                  (f"{nm}.x = {nm}.x + 1.0", lambda: setattr(las, "x", np.array(las.x) + 1.0))]
        return c

    def run_edit(o, label, th):
        try:
            th()
            log.append(label)
        except Exception as ex:
            log.append(label + f"   # raised {type(ex).__name__}: {str(ex)[:60]} -- {o['name']} is not used any more")
            live.remove(o)
            res["failed_edits"] = res.get("failed_edits", 0) + 1
            check_others(o, label)
            return
        res["edits"] += 1
        remember(o)
        toks.extend(sync(o["name"], o["las"]))
        check_others(o, label)

    def judge_all(final=False):
        for o in list(live):
            probs = _judge(o["las"], o["exp"], final)
            o["snap"] = _snap(o["las"])
            o["assoc"] = lasio.header_assoc(o["las"].header)
            for kind, why in probs:
                res["failures"].append(("independent clouds: " + kind, f"{o['name']} ({o['route']}): {why}", len(log)))
            if res["failures"] or check_others(o, f"{o['name']}.write(BytesIO())"):
                return True
        return False

    create()
    create()
    nsteps = rng.randrange(2, 7 if not thorough else 10)
    for step in range(nsteps):
        if res["failures"] or not live:
            break
        res["steps"] += 1
        if forced and rng.random() < 0.8:
            c, (lab, th) = forced.pop(0)
            if c not in live:
                continue
            run_edit(c, f"PROBE-DIRECTED through {c['name']}: " + lab, th)
        elif len(live) < 2 or (rng.random() < 0.25 and len(live) < 5):
            create()
        else:
            o = rng.choice(live)
            label, th = rng.choice(edits_of(o))
            run_edit(o, label, th)
        if res["failures"] or judge_all():
            break
    if not res["failures"]:
        judge_all(final=True)
    res["live"] = len(live)
    res["desc"] = {"clouds": len(names), "ops": log}
    res["written"] = []
    for o in live:
        if o["exp"].get("pending") or _pending_rescale(o["las"]):
            continue
        b = io.BytesIO()
        try:
            o["las"].write(b)
            res["written"].append((o["name"], b.getvalue()))
        except Exception as ex:
            res["written"].append((o["name"], None))
        toks.append(f"W{names.index(o['name'])}")
    res["cmd"] = ("dworld " + " ".join(toks)) if not res["failures"] else None
    return res


_INDEP = None


def _in_fresh_process(fn, timeout=60):
    """fn() evaluated in a forked child: whatever laspy keeps at module or class level is, for every session, as the generators that ran
    before left it, and what a session does to it ends with the session (every reported list of operations is a complete reproducer: `one
    process`). Returns None when the child could not be run (the caller then evaluates fn() in this process)."""
    import pickle
    import select
    import signal
    import warnings
    try:
        r, w = os.pipe()
        with warnings.catch_warnings():
            warnings.simplefilter("ignore")
            pid = os.fork()
    except Exception:
        return None
    if pid == 0:
        code = 0
        try:
            os.close(r)
            try:
                out = fn()
            except Exception:
                import traceback
                out = {"crash": traceback.format_exc()[-1500:]}
            data = pickle.dumps(out)
            with os.fdopen(w, "wb") as f:
                f.write(data)
        except BaseException:
            code = 3
        finally:
            os._exit(code)
    os.close(w)
    chunks, ok = [], True
    try:
        while True:
            ready, _, _ = select.select([r], [], [], timeout)
            if not ready:
                ok = False
                os.kill(pid, signal.SIGKILL)
                break
            b = os.read(r, 1 << 20)
            if not b:
                break
            chunks.append(b)
    finally:
        os.close(r)
        try:
            _, status = os.waitpid(pid, 0)
            ok = ok and status == 0
        except Exception:
            ok = False
    if not ok:
        return None
    try:
        return pickle.loads(b"".join(chunks))
    except Exception:
        return None


def independents(ctx):
    global _INDEP
    if _INDEP is None:
        import random as _random
        import laspy
        import time as _time
        t0 = _time.time()
        lasio.header_assoc(laspy.LasHeader())      # everything imported before the children are forked
        _INDEP = []
        forked = 0
        for i in range(ctx.n(160, 3000)):
            def one():
                return independent_session(_random.Random(f"C01 independent clouds {ctx.seed} {i}"), ctx.thorough())      # own stream: the older generators keep theirs
            res = _in_fresh_process(one) if forked == i else None
            if res is None:
                res = one()
                res["desc"]["note"] = "evaluated in the process of the check, after the sessions before it"
            else:
                forked += 1
            if "crash" in res:
                raise RuntimeError("independent session crashed: " + res["crash"])
            _INDEP.append(res)
        ctx.count("independent:sessions-in-a-process-of-their-own", forked)
        ctx.extra["independent_sessions_seconds"] = round(_time.time() - t0, 1)
    return _INDEP
