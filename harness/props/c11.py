"""C11 — scaled coordinates obey x = X*scale + offset and never wrap.

Model: Model/Scaling.v. The arithmetic shapes (_apply_scale, _remove_scale, unscale_dimension, the range tests, the axis
tables) are regenerated from the source (Gen/GenScaling.v); binary64 is modelled on integers (round-to-nearest-even of the
exact rational result of each operation) and EXTRACTED, so stored integers, presented doubles and exception kinds are
compared bit-exactly (doubles travel as exact fractions n/2^k). Histories: heap of numbered scale/offset arrays.
Correspondence: (1) per element, (s, o, v) with v inside, on and beyond both edges of the int32 window (edges computed with
Fractions, nudged by +-k ulp): rec.<axis> = v and change_scaling vs f_store_checked / f_restore_checked; presented values
vs f_present; (2) random histories of header edits (replace vs in place), x/y/z assignments (LasData and record level),
change_scaling, write, streaming into a writer / appender with another scaling (chunked or not): after every operation the
integers, the record's and header's scaling, the aliasing between them and the presented x, y, z are compared.
Presentation routes: "the x, y, z a LasData or point record presents" is every public way of getting scaled coordinates
out of it - las.x, las['x'], las.points.x, las.points['x'], the aggregate las.xyz, what a scaled view hands out (np.asarray,
scaled_array, copy, integer / slice / mask / list index, iteration, arithmetic, max, min), sub-records (las.points[slice | mask |
list | int | ['x','y','z']]), a LasData of some of the points (las[slice | list]) - and, for a written file, what the readers
show: laspy.read (all the routes again), reader.read_points / seek / chunk_iterator records, reader.read().xyz, laspy.mmap.
After EVERY operation of a history (and initially, and for every file written) each route is compared with the model's
presented values (one function of the state: f_presented) and, in the search, with X*scale+offset in binary64 of the stored
integers under the current scaling (the file's integers and scaling are taken from the bytes, not through laspy); an object
derived from the record must hold the record's integers, and its scaling when it is a part of that record; reading
coordinates must not change the LasData.
Search: the property stated on the implementation with exact rationals (no model)."""
import io
import math
from fractions import Fraction

import numpy as np

from harness import common, lasio

DRIVER = "c11"
ASSUMPTIONS = [
    "scales are positive finite doubles in [1e-9, 1e3], |offset| <= 1e9, coordinates are finite doubles (nan/inf inputs are outside the property)",
    "numpy float64 arithmetic is IEEE-754 binary64 round-to-nearest-even, numpy.round on float64 is rint, a float64 -> int32 cast of an in-range integral value is exact",
    "numpy broadcasting of the assigned value is resolved by the caller: the model receives one value per point",
    "streaming in chunks is compared with the model's single write_points of the whole record (same integers on success; the model raises iff some chunk raises)",
    "derived objects: a sub-record (las.points[...], a reader's chunk) must carry the scaling of the record / file it is a part of; a LasData built from "
    "some points (las[1:]) has a header of its own and takes that header's scaling - only its own integers and its own law are checked "
    "(with a pending header edit its coordinates differ from las.x[1:]: outside the statement, reported as a note)",
    "np.asarray(las.points[i].x) (a one-point record) raises in laspy (its __array__ returns a scalar): that record is presented through scaled_array()",
    "the binary64 half-step bound is measured (exact rational bound + |x - offset| * 2^-51), not proved; the proved bound is the exact one over Q and the half-ulp bound of each rounding",
]

INT_MIN, INT_MAX = -2 ** 31, 2 ** 31 - 1
AX = "xyz"


# ---------------------------------------------------------------------------------
# tokens
# ---------------------------------------------------------------------------------
def ftok(x):
    x = float(x)
    if not math.isfinite(x):
        return "nan"
    n, d = x.as_integer_ratio()
    return f"{n}/{d}"


def ftoks(a):
    a = list(a)
    return ",".join(ftok(x) for x in a) if a else "-"


def tokf(t):
    """model token -> Fraction | None (non-finite)"""
    if t == "nan":
        return None
    n, d = t.split("/")
    return Fraction(int(n), int(d))


def tokfs(t):
    return [] if t == "-" else [tokf(x) for x in t.split(",")]


def fr(x):
    """double -> Fraction | None"""
    x = float(x)
    return Fraction(x) if math.isfinite(x) else None


def frs(a):
    return [fr(x) for x in np.asarray(a, dtype=np.float64).ravel().tolist()]


def zl(a):
    a = [int(v) for v in a]
    return ",".join(map(str, a)) if a else "-"


def show(q):
    """a Fraction for a message: its nearest double when it has one, a decimal order of magnitude otherwise (quotients
    such as 1e300 / 1e-9 exceed the binary64 range: the oracle must be able to report exactly those)"""
    try:
        return repr(float(q))
    except OverflowError:
        n = abs(q.numerator) // q.denominator
        return f"{'-' if q < 0 else ''}{str(n)[:6]}e{len(str(n)) - 6} (beyond the double range)"


def rhe(q):
    """round half even of a Fraction"""
    f = q.numerator // q.denominator
    r = q - f
    if r < Fraction(1, 2):
        return f
    if r > Fraction(1, 2):
        return f + 1
    return f if f % 2 == 0 else f + 1


# ---------------------------------------------------------------------------------
# generators
# ---------------------------------------------------------------------------------
def gen_scale(rng):
    k = rng.randrange(-9, 4)
    r = rng.random()
    if r < 0.45:
        return float(f"1e{k}")
    if r < 0.6:
        return rng.choice([0.5, 0.25, 0.125, 2.0 ** -20, 2.0 ** -29, 2.0, 8.0, 512.0, 1000.0, 1e-9])
    if r < 0.8:
        return min(1e3, max(1e-9, rng.uniform(1, 10) * 10.0 ** k))
    return min(1e3, max(1e-9, float(f"{rng.choice([2, 25, 5, 125, 3, 7])}e{k}")))


def gen_offset(rng):
    r = rng.random()
    if r < 0.3:
        return 0.0
    if r < 0.45:
        return rng.choice([1e9, -1e9, 999999999.999, -123456789.125])
    if r < 0.6:
        return float(rng.randrange(-10 ** 6, 10 ** 6))
    if r < 0.8:
        return rng.uniform(-1e6, 1e6)
    return rng.choice([1, -1]) * 10.0 ** rng.uniform(-3, 9)


def nudge(x, k):
    for _ in range(abs(k)):
        x = math.nextafter(x, math.inf if k > 0 else -math.inf)
    return x


def gen_value(rng, s, o):
    """a finite double chosen relative to the int32 window of (s, o): inside, on an edge, just beyond, far"""
    S, O = Fraction(s), Fraction(o)
    r = rng.random()
    if r < 0.3:
        X = rng.choice([0, 1, -1, rng.randrange(INT_MIN, INT_MAX + 1), rng.randrange(-10 ** 6, 10 ** 6)])
        q = Fraction(X) + rng.choice([Fraction(0), Fraction(1, 2), Fraction(-1, 2), Fraction(rng.randrange(-499, 500), 1000)])
        tag = "inside"
    elif r < 0.8:
        edge = rng.choice([INT_MAX, INT_MIN])
        q = Fraction(edge) + rng.choice([Fraction(0), Fraction(1, 2), Fraction(-1, 2), Fraction(49, 100), Fraction(-49, 100),
                                         Fraction(51, 100), Fraction(-51, 100), Fraction(1), Fraction(-1), Fraction(2), Fraction(-2),
                                         Fraction(rng.randrange(-3000, 3000), 1000)])
        tag = "edge-hi" if edge == INT_MAX else "edge-lo"
    elif r < 0.9:
        q = Fraction(rng.choice([INT_MAX, INT_MIN])) * rng.choice([2, 3, 1000, 2 ** 31, 2 ** 32 + 1])
        tag = "beyond"
    else:
        v = rng.choice([1e300, -1e300, 1.7e308, -1.7e308, 1e18, -1e18, 5e-324, 0.0, 4294967296.0 * s + o, -4294967296.0 * s + o])
        return float(v), "extreme"
    v = float(O + q * S)            # nearest double of the exact value
    v = nudge(v, rng.choice([0, 0, 0, 1, -1, 2, -2, 3, -3]))
    if not math.isfinite(v):
        v = 1e300
    return v, tag


# ---------------------------------------------------------------------------------
# implementation runners
# ---------------------------------------------------------------------------------
def new_record(n, scales, offsets, fmt=0):
    import laspy
    return laspy.ScaleAwarePointRecord.zeros(n, point_format=laspy.PointFormat(fmt), scales=np.array(scales, dtype=np.float64),
                                             offsets=np.array(offsets, dtype=np.float64))


def impl_store(s, o, v, axis, how):
    """assign one value through a scaled view; returns ('ok', X) | ('err', kind), plus whether the other axes stayed untouched"""
    sc = [1.0, 1.0, 1.0]
    of = [0.0, 0.0, 0.0]
    sc[axis], of[axis] = s, o
    rec = new_record(2, sc, of)
    rec.X[:] = 11
    rec.Y[:] = 22
    rec.Z[:] = 33
    before = rec.array.copy()
    name = AX[axis]
    try:
        if how == "attr":
            setattr(rec, name, np.array([v, v]))
        elif how == "scalar":
            rec[name][:] = v
        elif how == "index":
            rec[name][1] = v
        elif how == "mask":
            rec[name][np.array([False, True])] = np.array([v])
        else:
            rec[name][[1]] = [v]
    except Exception as ex:
        return ("err", common.exc_kind(ex)), rec.array.tobytes() == before.tobytes()
    X = int(rec.array["XYZ"[axis]][1])
    others = all(rec.array[d].tobytes() == before[d].tobytes() for d in before.dtype.names if d != "XYZ"[axis])
    if how in ("index", "mask", "list"):
        others = others and int(rec.array["XYZ"[axis]][0]) == (11, 22, 33)[axis]
    return ("ok", X), others


PRES_ROUTES = ("asarray(rec[a])", "rec[a][0]", "asarray(rec.a)", "rec.a.scaled_array()", "rec.a.copy()", "rec.a[0:1]", "rec.a[[0]]",
               "rec.a.max()", "rec.a.min()", "np.max(rec.a)", "rec.a * 1.0", "list(rec.a)", "rec[0:1].a", "rec[0].a.scaled_array()")


def impl_present(s, o, X, axis):
    """the one stored integer X of a record under (s, o), through every way the record presents it (PRES_ROUTES, in order)"""
    sc = [1.0, 1.0, 1.0]
    of = [0.0, 0.0, 0.0]
    sc[axis], of[axis] = s, o
    rec = new_record(1, sc, of)
    rec.array["XYZ"[axis]][0] = X
    nm = AX[axis]
    v = getattr(rec, nm)
    got = (np.asarray(rec[nm])[0], rec[nm][0], np.asarray(v)[0], v.scaled_array()[0], v.copy()[0], np.asarray(v[0:1])[0],
           np.asarray(v[[0]])[0], v.max(), v.min(), np.max(v), (v * 1.0)[0], list(v)[0], np.asarray(getattr(rec[0:1], nm))[0],
           getattr(rec[0], nm).scaled_array())
    return tuple(float(g) for g in got)


# ---- presentation routes: every public way a LasData / point record / reader hands out scaled coordinates ----
# values travel as Python floats (binary64, compared with == : exact), the scaling of derived objects too
def fls(a):
    return np.asarray(a, dtype=np.float64).ravel().tolist()


def selections(n):
    """deterministic index selections of n points: (spelling, index object, indices selected)"""
    if n == 0:
        return [("[0:0]", slice(0, 0), [])]
    odd = [i for i in range(n) if i % 2 == (n - 1) % 2]
    return [("[1:]", slice(1, None), list(range(1, n))), ("[::2]", slice(None, None, 2), list(range(0, n, 2))),
            ("[mask]", np.array([i in odd for i in range(n)], dtype=bool), odd),
            ("[list]", list(range(n - 1, -1, -1)), list(range(n - 1, -1, -1)))]


def own_of(rec, keep):
    """what a derived record holds itself: its integers and its scaling; keep = it must carry the scaling of the record it was taken from"""
    arr = np.atleast_1d(rec.array)
    return {"ints": [arr[d].tolist() for d in "XYZ"], "rs": fls(rec.scales), "ro": fls(rec.offsets), "keep": keep}


def three(get):
    return [fls(get(a)) for a in AX]


def view_routes(src, view, n, sels):
    """the ways one scaled view (las.x ...) hands out its values: (route, indices, aggregate, three columns, None)"""
    allp = list(range(n))
    vs = [view(a) for a in AX]
    out = [(f"np.asarray({src})", allp, None, [fls(np.asarray(v)) for v in vs], None),
           (f"{src}.scaled_array()", allp, None, [fls(v.scaled_array()) for v in vs], None),
           (f"{src}.copy()", allp, None, [fls(v.copy()) for v in vs], None),
           (f"np.array({src})", allp, None, [fls(np.array(v)) for v in vs], None),
           (f"{src}[i]", allp, None, [[float(v[i]) for i in allp] for v in vs], None),
           (f"list({src})", allp, None, [[float(x) for x in v] for v in vs], None),
           (f"{src} + 0.0", allp, None, [fls(v + 0.0) for v in vs], None),
           (f"np.multiply({src}, 1.0)", allp, None, [fls(np.multiply(v, 1.0)) for v in vs], None)]
    for nm, sel, idx in sels:
        out.append((f"{src}{nm}", idx, None, [fls(np.asarray(v[sel])) for v in vs], None))
    if n > 0:
        out.append((f"{src}.max()", allp, "max", [[float(v.max())] for v in vs], None))
        out.append((f"{src}.min()", allp, "min", [[float(v.min())] for v in vs], None))
        out.append((f"np.max({src})", allp, "max", [[float(np.max(v))] for v in vs], None))
        out.append((f"np.min({src})", allp, "min", [[float(np.min(v))] for v in vs], None))
    return out


def record_routes(src, p, n, sels):
    """the ways a scale-aware record presents coordinates, besides the views of its x, y, z: sub-records"""
    out = []
    for nm, sel, idx in sels:
        sub = p[sel]
        out.append((f"{src}{nm}.x", idx, None, three(lambda a: np.asarray(getattr(sub, a))), own_of(sub, True)))
    for i in sorted({0, n - 1} if n > 0 else ()):
        sub = p[i]
        out.append((f"{src}[{i}].x.scaled_array()", [i], None, three(lambda a: [getattr(sub, a).scaled_array()]), own_of(sub, True)))
    sub = p[["x", "y", "z"]]
    out.append((f"{src}[['x', 'y', 'z']].x", list(range(n)), None, three(lambda a: np.asarray(getattr(sub, a))), own_of(sub, True)))
    return out


def routes(las, derived=True):
    """every route of a LasData: (route, indices of the points shown, aggregate, three columns of floats, own | None)"""
    p = las.points
    n = len(p)
    sels = selections(n)
    allp = list(range(n))
    xyz = np.asarray(las.xyz, dtype=np.float64).reshape(-1, 3)
    out = [("las.xyz", allp, None, [xyz[:, k].tolist() for k in range(3)], None),
           ("las['x']", allp, None, three(lambda a: np.asarray(las[a])), None),
           ("las.points.x", allp, None, three(lambda a: np.asarray(getattr(p, a))), None),
           ("las.points['x']", allp, None, three(lambda a: np.asarray(p[a])), None)]
    out += view_routes("las.x", lambda a: getattr(las, a), n, sels)
    out += record_routes("las.points", p, n, sels)
    if derived and n > 0:
        # a LasData made of some of the points: it has its own header and record (and takes the header's scaling)
        nm, sel, idx = sels[0] if n % 2 else sels[3]
        sub = las[sel]
        own = own_of(sub.points, False)
        out.append((f"las{nm}.x", idx, None, three(lambda a: np.asarray(getattr(sub, a))), own))
        sx = np.asarray(sub.xyz, dtype=np.float64).reshape(-1, 3)
        out.append((f"las{nm}.xyz", idx, None, [sx[:, k].tolist() for k in range(3)], own))
    return out


def basic(las):
    p = las.points
    return {
        "ints": [p.array[d].astype(np.int64).tolist() for d in "XYZ"],
        "rs": frs(p.scales), "ro": frs(p.offsets), "hs": frs(las.header.scales), "ho": frs(las.header.offsets),
        "alias_s": p.scales is las.header.scales, "alias_o": p.offsets is las.header.offsets,
        "xyz": [frs(np.asarray(las.x)), frs(np.asarray(las.y)), frs(np.asarray(las.z))],
        "raw": p.array.tobytes(), "rsf": fls(p.scales), "rof": fls(p.offsets),
    }


def snapshot(las, derived=True):
    snap = basic(las)
    try:
        snap["routes"] = routes(las, derived)
        snap["routes_err"] = None
    except Exception as ex:      # a route that raises presents nothing: reported by the oracle
        import traceback
        snap["routes"] = []
        snap["routes_err"] = f"{common.exc_kind(ex)}: {str(ex)[:80]} at {traceback.extract_tb(ex.__traceback__)[-1].line}"
    # reading coordinates must not change anything
    p = las.points
    again = {"raw": p.array.tobytes(), "rsf": fls(p.scales), "rof": fls(p.offsets), "hs": frs(las.header.scales), "ho": frs(las.header.offsets),
             "alias_s": p.scales is las.header.scales, "alias_o": p.offsets is las.header.offsets}
    snap["looked"] = next((k for k in again if again[k] != snap[k]), None)
    return snap


def read_file(data):
    import laspy
    l2 = laspy.read(io.BytesIO(data))
    return {"scales": frs(l2.header.scales), "offsets": frs(l2.header.offsets),
            "ints": [np.asarray(l2.points.array[d]).astype(np.int64).tolist() for d in "XYZ"]}


def raw_file(data):
    """scales, offsets and X, Y, Z of a LAS file taken from its bytes (public header block of the specification), without laspy"""
    import struct
    minor = data[25]
    off, = struct.unpack_from("<I", data, 96)
    size, = struct.unpack_from("<H", data, 105)
    count, = struct.unpack_from("<I", data, 107)
    if minor >= 4:
        count, = struct.unpack_from("<Q", data, 247)
    sc = struct.unpack_from("<3d", data, 131)
    of = struct.unpack_from("<3d", data, 155)
    pts = [struct.unpack_from("<3i", data, off + i * size) for i in range(count)]
    return {"ints": [[pt[k] for pt in pts] for k in range(3)], "rs": [fr(x) for x in sc], "ro": [fr(x) for x in of],
            "rsf": list(sc), "rof": list(of)}


_MMAP_PATH = None


def file_presentations(data):
    """the coordinates of a written file as laspy's readers present them: a state (integers and scaling from the bytes) with
    the routes of laspy.read, of the reader's records (read_points, chunk iterators, seek) and of laspy.mmap"""
    import laspy
    global _MMAP_PATH
    st = raw_file(data)
    n = len(st["ints"][0])
    allp = list(range(n))
    out = []
    try:
        l2 = laspy.read(io.BytesIO(data))
        out.append(("laspy.read: las.x", allp, None, three(lambda a: np.asarray(getattr(l2, a))), own_of(l2.points, True)))
        for (nm, idx, agg, cols, o2) in routes(l2, derived=False):
            out.append(("laspy.read: " + nm, idx, agg, cols, o2))
        for k in sorted({1, 2, max(n, 1)}):
            with laspy.open(io.BytesIO(data)) as r:
                pos = 0
                for chunk in r.chunk_iterator(k):
                    idx = list(range(pos, pos + len(chunk)))
                    pos += len(chunk)
                    out.append((f"chunk_iterator({k}): chunk.x", idx, None, three(lambda a: np.asarray(getattr(chunk, a))), own_of(chunk, True)))
                    out.append((f"chunk_iterator({k}): chunk['x']", idx, None, three(lambda a: np.asarray(chunk[a])), own_of(chunk, True)))
                if pos != n:
                    out.append((f"chunk_iterator({k}): {pos} points", allp, None, [[], [], []], None))
        with laspy.open(io.BytesIO(data)) as r:
            a = r.read_points(1)
            b = r.read_points(-1)
            out.append(("read_points(1).x", allp[:1], None, three(lambda c: np.asarray(getattr(a, c))), own_of(a, True)))
            out.append(("read_points(-1).x", allp[1:], None, three(lambda c: np.asarray(getattr(b, c))), own_of(b, True)))
            if n > 1:
                r.seek(n - 1)
                c_ = r.read_points(5)
                out.append(("seek, read_points.x", allp[n - 1:], None, three(lambda c: np.asarray(getattr(c_, c))), own_of(c_, True)))
        with laspy.open(io.BytesIO(data)) as r:
            l3 = r.read()
            x3 = np.asarray(l3.xyz, dtype=np.float64).reshape(-1, 3)
            out.append(("reader.read().xyz", allp, None, [x3[:, k].tolist() for k in range(3)], own_of(l3.points, True)))
        if _MMAP_PATH is None:
            import atexit, os, tempfile
            fd, _MMAP_PATH = tempfile.mkstemp(prefix="c11_mmap_", suffix=".las", dir="/var/tmp")
            os.close(fd)
            atexit.register(lambda: os.path.exists(_MMAP_PATH) and os.remove(_MMAP_PATH))
        with open(_MMAP_PATH, "wb") as fh:
            fh.write(data)
        with laspy.mmap(_MMAP_PATH) as mm:
            x4 = np.array(mm.xyz, dtype=np.float64).reshape(-1, 3)
            out.append(("laspy.mmap: las.xyz", allp, None, [x4[:, k].tolist() for k in range(3)], None))
            out.append(("laspy.mmap: las.x", allp, None, three(lambda a: np.array(getattr(mm, a))), own_of(mm.points, True)))
        st["routes_err"] = None
    except Exception as ex:
        import traceback
        st["routes_err"] = f"{common.exc_kind(ex)}: {str(ex)[:80]} at {traceback.extract_tb(ex.__traceback__)[-1].line}"
    st["routes"] = out
    st["looked"] = None
    return st


class History:
    """one LasData driven through operations; records (op token, outcome, snapshot after) and the oracle's observations"""

    def __init__(self, rng, init=None):
        import laspy
        self.rng = rng
        if init is None:
            fmt = rng.choice([0, 1, 3, 6, 7])
            n = rng.choice([0, 1, 1, 2, 3, 5])
            sc = [gen_scale(rng) for _ in range(3)]
            if rng.random() < 0.4:
                sc = [sc[0]] * 3
            of = [gen_offset(rng) for _ in range(3)]
            if rng.random() < 0.65:      # moderate integers: most rescalings fit
                cols = [[rng.choice([0, 1, -1, rng.randrange(-10 ** 6, 10 ** 6), rng.randrange(-10 ** 4, 10 ** 4)]) for _ in range(n)] for _ in range(3)]
            else:
                cols = [[rng.choice([0, 1, -1, INT_MAX, INT_MIN, rng.randrange(INT_MIN, INT_MAX + 1), rng.randrange(-10 ** 5, 10 ** 5)])
                         for _ in range(n)] for _ in range(3)]
            init = {"fmt": fmt, "n": n, "scales": sc, "offsets": of, "cols": cols}
        self.init = init
        self.fmt = init["fmt"]
        ver = "1.4" if self.fmt >= 6 else "1.2"
        hdr = laspy.LasHeader(point_format=self.fmt, version=ver)
        hdr.scales = np.array(init["scales"], dtype=np.float64)
        hdr.offsets = np.array(init["offsets"], dtype=np.float64)
        self.version = ver
        self.las = laspy.LasData(hdr, laspy.PackedPointRecord.zeros(init["n"], hdr.point_format))
        for d, col in zip("XYZ", init["cols"]):
            self.las.points.array[d] = np.array(col, dtype=np.int32)
        self.n = init["n"]
        self.steps = []          # (op dict, outcome, snapshot after)
        self.snap0 = snapshot(self.las)
        self.last = self.snap0
        self.obs = [({"op": "INIT"}, self.snap0, ("none",), self.snap0)]            # oracle observations

    # ---- op generation (online: values are chosen relative to the current scaling) ----
    def gen_op(self):
        rng = self.rng
        las = self.las
        r = rng.random()
        if r < 0.12:
            a = [gen_scale(rng) for _ in range(3)]
            if rng.random() < 0.3:
                a = [float(x) for x in las.header.scales]     # a fresh array with equal values
            return {"op": "RS", "a": a}
        if r < 0.2:
            return {"op": "RO", "a": [gen_offset(rng) for _ in range(3)]}
        if r < 0.3:
            return {"op": "MS", "axis": rng.randrange(3), "v": gen_scale(rng)}
        if r < 0.38:
            return {"op": "MO", "axis": rng.randrange(3), "v": gen_offset(rng)}
        if r < 0.44:
            # las.xyz = (m, 3) array; values relative to the header's scaling (the one in force)
            m = self.n
            if rng.random() < (0.8 if self.n == 0 else 0.15):
                m = self.n + rng.choice([1, 2, 3])
            bad = rng.random() < 0.2
            cols = []
            for a in range(3):
                s, o = float(las.header.scales[a]), float(las.header.offsets[a])
                col = []
                for i in range(m):
                    if bad and rng.random() < 0.4:
                        col.append(gen_value(rng, s, o)[0])
                    else:
                        X = rng.choice([0, 1, -1, rng.randrange(-10 ** 5, 10 ** 5), rng.randrange(-10 ** 5, 10 ** 5), INT_MAX, INT_MIN])
                        col.append(float(Fraction(o) + (Fraction(X) + Fraction(rng.randrange(-49, 50), 100)) * Fraction(s)))
                cols.append(col)
            return {"op": "X", "cols": cols}
        if r < 0.6:
            axis = rng.randrange(3)
            level = "A" if rng.random() < 0.7 else "P"
            src_s, src_o = (las.header.scales, las.header.offsets) if level == "A" else (las.points.scales, las.points.offsets)
            s, o = float(src_s[axis]), float(src_o[axis])
            vals = []
            bad = rng.random() < 0.25
            m = self.n
            if level == "A" and rng.random() < (0.8 if self.n == 0 else 0.15):
                m = self.n + rng.choice([1, 2, 3])      # a longer value: the record grows (laspy.create(); las.x = ...)
            for i in range(m):
                if bad and rng.random() < 0.6:
                    vals.append(gen_value(rng, s, o)[0])
                else:
                    X = rng.choice([0, 1, -1, rng.randrange(-10 ** 5, 10 ** 5), rng.randrange(-10 ** 5, 10 ** 5),
                                    INT_MAX, INT_MIN, rng.randrange(INT_MIN, INT_MAX + 1)])
                    v = float(Fraction(o) + (Fraction(X) + Fraction(rng.randrange(-49, 50), 100)) * Fraction(s))
                    vals.append(v)
            scalar = level == "P" and self.n > 0 and rng.random() < 0.3     # las.<axis> = scalar is not supported by laspy (len() of a float)
            if scalar:
                vals = [vals[0]] * self.n
            return {"op": level, "axis": axis, "vals": vals, "scalar": scalar}
        if r < 0.72:
            s = [gen_scale(rng) for _ in range(3)] if rng.random() < 0.75 else None
            o = [gen_offset(rng) for _ in range(3)] if rng.random() < 0.6 else None
            if s is not None and rng.random() < 0.5:
                # stay near the current scaling on most axes so that the rescaling often fits
                cur = [float(x) for x in las.points.scales]
                s = [cur[i] * rng.choice([1, 1, 10, 0.1, 2, 0.5]) if rng.random() < 0.8 else s[i] for i in range(3)]
                s = [min(1e3, max(1e-9, x)) for x in s]
            return {"op": "C", "s": s, "o": o}
        if r < 0.86:
            return {"op": "W"}
        cur_s = [float(x) for x in las.points.scales]
        cur_o = [float(x) for x in las.points.offsets]
        ws = [cur_s[i] * rng.choice([1, 1, 10, 100, 0.1, 0.5, 2]) if rng.random() < 0.7 else gen_scale(rng) for i in range(3)]
        ws = [min(1e3, max(1e-9, x)) for x in ws]
        wo = [cur_o[i] if rng.random() < 0.5 else gen_offset(rng) for i in range(3)]
        return {"op": "S", "ws": ws, "wo": wo, "chunk": rng.choice([0, 0, 1, 2]), "via": rng.choice(["writer", "writer", "appender", "appender0"])}

    # ---- op execution ----
    def apply(self, op):
        import laspy
        las = self.las
        kind = op["op"]
        before = self.last       # nothing happens between two operations: the snapshot taken after the previous one
        out = ("none",)
        try:
            if kind == "RS":
                las.header.scales = np.array(op["a"], dtype=np.float64)
            elif kind == "RO":
                las.header.offsets = np.array(op["a"], dtype=np.float64)
            elif kind == "MS":
                setattr(las.header, AX[op["axis"]] + "_scale", op["v"])
            elif kind == "MO":
                setattr(las.header, AX[op["axis"]] + "_offset", op["v"])
            elif kind in ("A", "P"):
                tgt = las if kind == "A" else las.points
                val = op["vals"][0] if op.get("scalar") else np.array(op["vals"], dtype=np.float64)
                setattr(tgt, AX[op["axis"]], val)
            elif kind == "X":
                las.xyz = np.array(op["cols"], dtype=np.float64).T.reshape(-1, 3)
            elif kind == "C":
                las.change_scaling(scales=None if op["s"] is None else np.array(op["s"], dtype=np.float64),
                                   offsets=None if op["o"] is None else np.array(op["o"], dtype=np.float64))
            elif kind == "W":
                hs, ho = frs(las.header.scales), frs(las.header.offsets)
                bio = io.BytesIO()
                las.write(bio)
                out = ("file", read_file(bio.getvalue()), hs, ho, file_presentations(bio.getvalue()), 0)
            elif kind == "S":
                out = self.stream(op)
        except Exception as ex:
            out = ("err", common.exc_kind(ex), str(ex)[:80])
        after = snapshot(las)
        self.last = after
        self.n = len(las.points)
        self.steps.append((op, out, after))
        self.obs.append((op, before, out, after))
        return out

    def stream(self, op):
        import laspy
        las = self.las
        hdr2 = laspy.LasHeader(point_format=self.fmt, version=self.version)
        hdr2.scales = np.array(op["ws"], dtype=np.float64)
        hdr2.offsets = np.array(op["wo"], dtype=np.float64)
        hs, ho = frs(hdr2.scales), frs(hdr2.offsets)
        pts = las.points
        n = len(pts)
        chunks = [pts] if not op["chunk"] or n == 0 else [pts[i:i + op["chunk"]] for i in range(0, n, op["chunk"])]
        skip = 0
        if op["via"] == "writer":
            bio = io.BytesIO()
            with laspy.open(bio, mode="w", header=hdr2, closefd=False) as w:
                for c in chunks:
                    w.write_points(c)
        else:
            bio = io.BytesIO()
            with laspy.open(bio, mode="w", header=hdr2, closefd=False) as w:
                if op["via"] == "appender":
                    first = laspy.ScaleAwarePointRecord.zeros(2, header=hdr2)
                    w.write_points(first)
                    skip = 2
            bio.seek(0)
            with laspy.open(bio, mode="a", closefd=False) as ap:
                for c in chunks:
                    ap.append_points(c)
        f = read_file(bio.getvalue())
        f["ints"] = [col[skip:] for col in f["ints"]]
        return ("file", f, hs, ho, file_presentations(bio.getvalue()), skip)

    # ---- model command ----
    def op_tok(self, op):
        k = op["op"]
        if k in ("RS", "RO"):
            return f"{k}:{ftoks(op['a'])}"
        if k in ("MS", "MO"):
            return f"{k}:{op['axis']}:{ftok(op['v'])}"
        if k in ("A", "P"):
            return f"{k}:{op['axis']}:{ftoks(op['vals'])}"
        if k == "X":
            return "X:" + ":".join(ftoks(c) for c in op["cols"])
        if k == "C":
            return f"C:{'-' if op['s'] is None else ftoks(op['s'])}:{'-' if op['o'] is None else ftoks(op['o'])}"
        if k == "W":
            return "W"
        return f"S:{ftoks(op['ws'])}:{ftoks(op['wo'])}"

    def command(self):
        i = self.init
        cols = ";".join(zl(c) for c in i["cols"])
        ops = "|".join(self.op_tok(op) for op, _, _ in self.steps) or "-"
        return f"hist {ftoks(i['scales'])} {ftoks(i['offsets'])} {cols} {ops}"


def parse_state(tok):
    f = tok.split(" ")
    return {"ints": [[] if c == "-" else [int(v) for v in c.split(",")] for c in f[0].split(";")],
            "rs": tokfs(f[1]), "ro": tokfs(f[2]), "hs": tokfs(f[3]), "ho": tokfs(f[4]),
            "alias_s": f[5] == "T", "alias_o": f[6] == "T", "xyz": [tokfs(c) for c in f[7].split(";")]}


def parse_out(tok):
    f = tok.split(" ")
    if f[0] == "-":
        return ("none",)
    if f[0] == "err":
        return ("err", f[1])
    return ("file", {"scales": tokfs(f[1]), "offsets": tokfs(f[2]),
                     "ints": [[] if c == "-" else [int(v) for v in c.split(",")] for c in f[3].split(";")]})


STATE_KEYS = ("ints", "rs", "ro", "hs", "ho", "alias_s", "alias_o", "xyz")


def state_diff(m, im):
    for k in STATE_KEYS:
        if m[k] != im[k]:
            return k
    return routes_diff(m["xyz"], m["rs"], m["ro"], im)


def routes_diff(mxyz, mrs, mro, im):
    """the model presents a state through one function (f_presented): every route of the implementation must show its values
    (objects with a scaling of their own that differs from the record's are left to the oracle)"""
    if im.get("routes_err"):
        return "presentation raised " + im["routes_err"]
    if im.get("looked"):
        return "presentation modified " + im["looked"]
    mf = [[None if x is None else float(x) for x in c] for c in mxyz]       # the model's doubles travel as exact fractions
    mrsf = [None if x is None else float(x) for x in mrs]
    mrof = [None if x is None else float(x) for x in mro]
    for (name, idx, agg, cols, own) in im["routes"]:
        if own is not None and (own["rs"] != mrsf or own["ro"] != mrof):
            if own["keep"]:
                return f"scaling of {name}"
            continue
        for a in range(3):
            ref = [mf[a][i] for i in idx]
            if agg is not None and any(x is None for x in ref):
                continue
            if agg is not None:
                ref = [max(ref) if agg == "max" else min(ref)]
            if cols[a] != ref:
                return f"route {name} axis {AX[a]}"
    return None


def op_json(op):
    d = {}
    for k, v in op.items():
        if isinstance(v, float):
            d[k] = v.hex()
        elif isinstance(v, list):
            d[k] = [x.hex() if isinstance(x, float) else [y.hex() for y in x] if isinstance(x, list) else x for x in v]
        else:
            d[k] = v
    return d


def op_unjson(d):
    op = {}
    for k, v in d.items():
        if isinstance(v, str) and k not in ("op", "via"):
            op[k] = float.fromhex(v)
        elif isinstance(v, list):
            op[k] = [float.fromhex(x) if isinstance(x, str) else [float.fromhex(y) for y in x] if isinstance(x, list) else x for x in v]
        else:
            op[k] = v
    return op


def init_json(i):
    return {"fmt": i["fmt"], "n": i["n"], "scales": [x.hex() for x in i["scales"]], "offsets": [x.hex() for x in i["offsets"]], "cols": i["cols"]}


def init_unjson(d):
    return {"fmt": d["fmt"], "n": d["n"], "scales": [float.fromhex(x) for x in d["scales"]],
            "offsets": [float.fromhex(x) for x in d["offsets"]], "cols": d["cols"]}


# ---------------------------------------------------------------------------------
# the property on the implementation (exact rationals, no model)
# ---------------------------------------------------------------------------------
def slack(x, o):
    """binary64 slack of round((x - o) / s) in units of the quotient, relative: two roundings"""
    return Fraction(1, 2 ** 51)


def oracle_store(s, o, v, res, untouched):
    """rec.<axis> = v under (s, o) gave res = ('ok', X) | ('err', kind)"""
    S, O, V = Fraction(s), Fraction(o), Fraction(v)
    q = (V - O) / S
    tol = abs(q) * slack(v, o)
    lo_ok = q - tol >= Fraction(INT_MIN) - Fraction(1, 2) and q + tol <= Fraction(INT_MAX) + Fraction(1, 2)
    must_fit = rhe(q - tol) >= INT_MIN and rhe(q + tol) <= INT_MAX and rhe(q - tol) <= INT_MAX and rhe(q + tol) >= INT_MIN
    must_fail = (rhe(q - tol) > INT_MAX and rhe(q + tol) > INT_MAX) or (rhe(q - tol) < INT_MIN and rhe(q + tol) < INT_MIN)
    if res[0] == "err":
        if res[1] != "EOverflow":
            return f"raised {res[1]} instead of OverflowError"
        if must_fit:
            return f"OverflowError although (v - offset) / scale = {show(q)} rounds into the int32 range"
        if not untouched:
            return "record modified although OverflowError was raised"
        return None
    X = res[1]
    if must_fail:
        return f"stored {X} although (v - offset) / scale = {show(q)} does not fit in int32 (wrap-around)"
    if abs(Fraction(X) - q) > Fraction(1, 2) + tol:
        return f"stored {X}, but (v - offset) / scale = {show(q)}: more than half a step away"
    if not untouched:
        return "another dimension or point changed"
    return None


def oracle_present(s, o, X, got):
    exact = Fraction(X) * Fraction(s) + Fraction(o)
    ref = float(X) * s + o       # the law in binary64
    for g, route in zip(got, PRES_ROUTES):
        if g != ref:
            return f"{route} presented {g!r}, X*scale+offset in binary64 is {ref!r}"
        m = max(abs(Fraction(X) * Fraction(s)), abs(exact), abs(Fraction(o)))
        if abs(Fraction(g) - exact) > 2 * Fraction(math.ulp(float(m))):
            return f"presented {g!r} is more than 2 ulp from the exact X*scale+offset"
    return None


def rescale_check(ints, xyz, ws, wo, what):
    """ints (3 columns) under scaling (ws, wo) against the doubles xyz presented before; None | message"""
    for k in range(3):
        if len(ints[k]) != len(xyz[k]):
            return f"{what}: {len(ints[k])} values on axis {AX[k]} for {len(xyz[k])} points"
        for X, xb in zip(ints[k], xyz[k]):
            if xb is None or ws[k] is None or wo[k] is None:
                continue
            if not (INT_MIN <= X <= INT_MAX):
                return f"{what}: integer {X} out of range"
            q = (xb - wo[k]) / ws[k]
            tol = abs(q) * Fraction(1, 2 ** 51)
            if abs(Fraction(X) - q) > Fraction(1, 2) + tol:
                return (f"{what}: axis {AX[k]} holds {X} where (x - offset) / scale = {show(q)} "
                        f"(presented before: {float(xb)!r}, scale {float(ws[k])!r}, offset {float(wo[k])!r})")
    return None


def fits_all(xyz, ws, wo):
    """(every point certainly fits, some point certainly does not fit) under (ws, wo)"""
    all_fit, some_out = True, False
    for k in range(3):
        for xb in xyz[k]:
            if xb is None or ws[k] is None or wo[k] is None or ws[k] == 0:
                all_fit = False
                continue
            q = (xb - wo[k]) / ws[k]
            tol = abs(q) * Fraction(1, 2 ** 51)
            a, b = rhe(q - tol), rhe(q + tol)
            if not (INT_MIN <= a and b <= INT_MAX):
                all_fit = False
            if (a > INT_MAX and b > INT_MAX) or (a < INT_MIN and b < INT_MIN):
                some_out = True
    return all_fit, some_out


def caller_unchanged(before, after):
    for k in ("raw", "ints", "rs", "ro", "hs", "ho", "xyz", "alias_s", "alias_o", "routes"):
        if before[k] != after[k]:
            return k
    return None


def route_class(name):
    """stable class of a route name: the digits of chunk sizes and indices do not make another kind"""
    import re
    return re.sub(r"\d+", "k", name)


def oracle_routes(state, when):
    """every presentation route of a state (a LasData after an operation, or a written file as the readers show it) against the
    law: the values shown are X*scale+offset, in binary64, of the stored integers under the current scaling - of the record
    itself, and for an object derived from it (sub-record, chunk, LasData of some points) of that object's own integers,
    which are the record's, and own scaling, which is the record's when the object is a part of that record.
    None | (kind, message)"""
    if state.get("routes_err"):
        return ("presentation raised", f"{when}: presenting the coordinates raised {state['routes_err']}")
    if state.get("looked"):
        return ("presentation modified", f"{when}: {state['looked']} of the LasData changed by reading its coordinates")
    for (name, idx, agg, cols, own) in state["routes"]:
        rs, ro = state["rsf"], state["rof"]
        ints = [[state["ints"][a][i] for i in idx] for a in range(3)]
        if own is not None:
            if own["ints"] != ints:
                return (f"integers of {route_class(name)}", f"{when}: {name} holds the integers {own['ints']}, the record holds {ints} for these points")
            if own["keep"] and (own["rs"] != rs or own["ro"] != ro):
                return (f"scaling of {route_class(name)}", f"{when}: {name} carries the scaling {own['rs']} {own['ro']}, not the current one {rs} {ro}")
            rs, ro = own["rs"], own["ro"]
        for a in range(3):
            if not (math.isfinite(rs[a]) and math.isfinite(ro[a])):
                continue
            ref = [float(X) * rs[a] + ro[a] for X in ints[a]]
            if agg is not None:
                ref = [max(ref) if agg == "max" else min(ref)]
            got = cols[a]
            if got == ref:
                continue
            cls = route_class(name)
            if len(got) != len(ref):
                return (f"presented via {cls}", f"{when}: {name} shows {len(got)} values on axis {AX[a]} for {len(ref)} points")
            for j, (g, e) in enumerate(zip(got, ref)):
                if g != e:
                    return (f"presented via {cls}", f"{when}: {name} shows {AX[a]} = {g!r}"
                                                    f"{'' if agg else f' for point {idx[j]}'}, X*scale+offset = {e!r} "
                                                    f"(X = {ints[a][j] if not agg else ints[a]}, scale {rs[a]!r}, offset {ro[a]!r})")
    return None


def oracle_file(out, what):
    """a written file: what laspy.read gave is what the bytes say, and every reader presents the law under the file's scaling"""
    f, fp, skip = out[1], out[4], out[5]
    if f["scales"] != fp["rs"] or f["offsets"] != fp["ro"]:
        return (f"{what} header read", f"laspy.read shows the scaling {[float(x) for x in f['scales']]} {[float(x) for x in f['offsets']]}, "
                                       f"the bytes say {[float(x) for x in fp['rs']]} {[float(x) for x in fp['ro']]}")
    if f["ints"] != [c[skip:] for c in fp["ints"]]:
        return (f"{what} integers read", f"laspy.read shows the integers {f['ints']}, the bytes say {[c[skip:] for c in fp['ints']]}")
    r = oracle_routes(fp, f"reading the file of the {what}")
    if r:
        return (f"{what} file: " + r[0], r[1])
    return None


def oracle_step(op, before, out, after):
    """the property on one observed operation; returns None | (kind, message)"""
    k = op["op"]
    n = len(before["ints"][0])
    # always: what is presented is X*scale+offset under the record's current scaling
    for a in range(3):
        for X, x in zip(after["ints"][a], after["xyz"][a]):
            s, o = after["rs"][a], after["ro"][a]
            if x is None or s is None or o is None:
                continue
            ref = float(X) * float(s) + float(o)
            if float(x) != ref:
                return ("presented", f"after {k}: {AX[a]} shows {float(x)!r}, X*scale+offset = {ref!r}")
    # ... through every route
    r = oracle_routes(after, "initially" if k == "INIT" else f"after {k}")
    if r:
        return r
    if k == "INIT":
        return None
    if out[0] == "file":
        r = oracle_file(out, "write" if k == "W" else f"stream via {op['via']}")
        if r:
            return r
    if k in ("RS", "RO", "MS", "MO"):
        if out[0] != "none":
            return ("header edit", f"header edit raised {out}")
        if after["ints"] != before["ints"]:
            return ("header edit", "a header edit changed the record's integers")
        return None
    if k in ("W", "S"):
        ch = caller_unchanged(before, after)
        if ch:
            return (f"caller's record after {'write' if k == 'W' else 'stream'}" + (" (failed)" if out[0] == "err" else ""),
                    f"{ch} of the caller's LasData differs after the {'failed ' if out[0] == 'err' else ''}write")
        ws, wo = (before["hs"], before["ho"]) if k == "W" else (frs(op["ws"]), frs(op["wo"]))
        same = before["rs"] == ws and before["ro"] == wo
        all_fit, some_out = (True, False) if (same or n == 0) else fits_all(before["xyz"], ws, wo)
        what = "write" if k == "W" else f"stream via {op['via']}"
        if out[0] == "err":
            if out[1] != "EOverflow":
                return (f"{what} raised", f"raised {out[1]}: {out[2]}")
            if all_fit:
                return (f"{what} refused", "OverflowError although every coordinate fits under the writer's scaling")
            return None
        f = out[1]
        if f["scales"] != ws or f["offsets"] != wo:
            return (f"{what} scaling", f"file scaling {[float(x) for x in f['scales']]} {[float(x) for x in f['offsets']]} is not the header's")
        if some_out:
            return (f"{what} wrapped", f"a coordinate that does not fit was written (file integers {f['ints']})")
        if same:
            if f["ints"] != before["ints"]:
                return (f"{what} integers", "same scaling but the file's integers differ from the record's")
            return None
        msg = rescale_check(f["ints"], before["xyz"], ws, wo, what)
        if msg:
            return (f"{what} half step", msg)
        return None
    if k in ("A", "P"):
        a = op["axis"]
        s, o = (before["hs"][a], before["ho"][a]) if k == "A" else (before["rs"][a], before["ro"][a])
        vals = [Fraction(v) for v in op["vals"]]
        if len(vals) == 0:
            return None
        grown = k == "A" and len(vals) > n
        ungrown = before["ints"]
        if grown:      # zero points are appended first
            before = dict(before, ints=[c + [0] * (len(vals) - n) for c in before["ints"]])
        qs = [(v - o) / s for v in vals]
        tols = [abs(q) * Fraction(1, 2 ** 51) for q in qs]
        certainly_fit = all(INT_MIN <= rhe(q - t) and rhe(q + t) <= INT_MAX for q, t in zip(qs, tols))
        certainly_out = any((rhe(q - t) > INT_MAX and rhe(q + t) > INT_MAX) or (rhe(q - t) < INT_MIN and rhe(q + t) < INT_MIN) for q, t in zip(qs, tols))
        if out[0] == "err":
            if out[1] != "EOverflow":
                return ("assign raised", f"raised {out[1]}: {out[2]}")
            if certainly_fit:
                return ("assign refused", "OverflowError although every value fits")
            if after["ints"] != ungrown:     # a refused assignment of a longer value does not leave the record grown either
                return ("assign failed modified", "integers changed although OverflowError was raised")
            return None
        if certainly_out:
            return ("assign wrapped", f"a value that does not fit was stored: {after['ints'][a]}")
        for X, q, t in zip(after["ints"][a], qs, tols):
            if abs(Fraction(X) - q) > Fraction(1, 2) + t:
                return ("assign half step", f"axis {AX[a]} stored {X} for (v - offset) / scale = {show(q)}")
        for b in range(3):
            if b != a and after["ints"][b] != before["ints"][b]:
                return ("assign other axis", f"assigning {AX[a]} changed the integers of {AX[b]}")
        if k == "A" and (after["rs"] != before["hs"] or after["ro"] != before["ho"]):
            return ("assign scaling", "after las.<axis> = ... the record does not use the header's scaling")
        return None
    if k == "X":
        m = len(op["cols"][0])
        if m == 0:
            return None
        grown = [c + [0] * max(0, m - n) for c in before["ints"]]
        fit, out_ = True, False
        for a in range(3):
            s, o = before["hs"][a], before["ho"][a]
            for v in op["cols"][a]:
                q = (Fraction(v) - o) / s
                t = abs(q) * Fraction(1, 2 ** 51)
                if not (INT_MIN <= rhe(q - t) and rhe(q + t) <= INT_MAX):
                    fit = False
                if (rhe(q - t) > INT_MAX and rhe(q + t) > INT_MAX) or (rhe(q - t) < INT_MIN and rhe(q + t) < INT_MIN):
                    out_ = True
        if after["rs"] != before["hs"] or after["ro"] != before["ho"]:
            return ("assign xyz scaling", "after las.xyz = ... the record does not use the header's scaling")
        if out[0] == "err":
            if out[1] != "EOverflow":
                return ("assign xyz raised", f"raised {out[1]}: {out[2]}")
            if fit:
                return ("assign xyz refused", "OverflowError although every value fits under the header's scaling")
            return None
        if out_:
            return ("assign xyz wrapped", f"a value that does not fit was stored: {after['ints']}")
        if m < n:
            return ("assign xyz short", "a shorter array was accepted")
        for a in range(3):
            s, o = before["hs"][a], before["ho"][a]
            if len(after["ints"][a]) != max(m, n):
                return ("assign xyz length", f"{len(after['ints'][a])} points after assigning {m} to a record of {n}")
            for X, v in zip(after["ints"][a], op["cols"][a]):
                q = (Fraction(v) - o) / s
                if abs(Fraction(X) - q) > Fraction(1, 2) + abs(q) * Fraction(1, 2 ** 51):
                    return ("assign xyz half step", f"axis {AX[a]} stored {X} for (v - offset) / scale = {show(q)} under the header's scaling "
                                                   f"(scale {float(s)!r}, offset {float(o)!r})")
        return None
    if k == "C":
        ns = before["rs"] if op["s"] is None else frs(op["s"])
        no = before["ro"] if op["o"] is None else frs(op["o"])
        all_fit, some_out = (True, False) if n == 0 else fits_all(before["xyz"], ns, no)
        if out[0] == "err":
            if out[1] != "EOverflow":
                return ("change_scaling raised", f"raised {out[1]}: {out[2]}")
            if all_fit:
                return ("change_scaling refused", "OverflowError although every coordinate fits under the new scaling")
            for key in ("ints", "rs", "ro", "hs", "ho", "xyz"):
                if after[key] != before[key]:
                    return ("change_scaling failed modified", f"{key} changed although OverflowError was raised")
            return None
        if some_out:
            return ("change_scaling wrapped", f"a coordinate that does not fit was stored: {after['ints']}")
        if after["rs"] != ns or after["ro"] != no:
            return ("change_scaling record", "the record does not carry the new scaling")
        if (op["s"] is not None and after["hs"] != ns) or (op["o"] is not None and after["ho"] != no):
            return ("change_scaling header", "the header does not carry the new scaling")
        msg = rescale_check(after["ints"], before["xyz"], ns, no, "change_scaling")
        if msg:
            return ("change_scaling half step", msg)
        return None
    return None


# ---------------------------------------------------------------------------------
# correspondence
# ---------------------------------------------------------------------------------
_ELEM = None       # [(s, o, v, axis, how, tag, res, untouched)]
_PRES = None       # [(s, o, X, axis, got)]
_HIST = None       # [History]


def elem_cases(ctx):
    rng = ctx.rng
    out = []
    for _ in range(ctx.n(6000, 60000)):
        s, o = gen_scale(rng), gen_offset(rng)
        v, tag = gen_value(rng, s, o)
        axis = rng.randrange(3)
        how = rng.choice(["attr", "attr", "scalar", "index", "mask", "list"])
        res, untouched = impl_store(s, o, v, axis, how)
        out.append((s, o, v, axis, how, tag, res, untouched))
    # the regression witness of the unsound scaled-domain check
    for how in ("attr", "index"):
        res, untouched = impl_store(1e-9, 1e9, 1000000002.1474837, 0, how)
        out.append((1e-9, 1e9, 1000000002.1474837, 0, how, "edge-hi", res, untouched))
    return out


def pres_cases(ctx):
    rng = ctx.rng
    out = []
    for _ in range(ctx.n(1500, 10000)):
        s, o = gen_scale(rng), gen_offset(rng)
        X = rng.choice([0, 1, -1, INT_MAX, INT_MIN, INT_MAX - 1, INT_MIN + 1, rng.randrange(INT_MIN, INT_MAX + 1), rng.randrange(-1000, 1000)])
        axis = rng.randrange(3)
        out.append((s, o, X, axis, impl_present(s, o, X, axis)))
    return out


def hist_cases(ctx):
    out = []
    for _ in range(ctx.n(1500, 12000)):
        h = History(ctx.rng)
        for _ in range(ctx.rng.randrange(1, 9)):
            h.apply(h.gen_op())
        out.append(h)
    return out


def observe(ctx):
    global _ELEM, _PRES, _HIST
    if _ELEM is None:
        _ELEM = elem_cases(ctx)
        _PRES = pres_cases(ctx)
        _HIST = hist_cases(ctx)


def correspond(ctx):
    ctx.extra["rule"] = (
        "per element: (scale, offset) with scale in 10^[-9,3] (powers of ten, powers of two, random mantissas), |offset| <= 1e9; "
        "values inside the int32 window, on both edges (exact Fraction edge +- {0, .49, .5, .51, 1, 2, random} steps, nearest double, "
        "nudged by 0..3 ulp), beyond and extreme (1e300, 1.7e308, 5e-324), assigned through attribute / slice / integer / mask / list "
        "index on x, y or z; presented values for random and extreme integers. histories: 1..8 operations over {header.scales/offsets "
        "replaced by a fresh array, header.<axis>_scale/_offset edited in place, las.<axis> = values (also longer than the record: it grows), "
        "las.xyz = (m, 3) array, las.points.<axis> = values, "
        "change_scaling(scales?, offsets?), write, stream into a writer or appender with another scaling, whole or in chunks of 1..2} "
        "on LasData of 0..5 points (formats 0,1,3,6,7) with integers including INT_MIN/INT_MAX; values chosen relative to the scaling "
        "in force so that most fit and some overflow. after every operation (hence also while a header scale/offset edit is pending) "
        "the coordinates are taken through every presentation route: las.x, las['x'], las.points.x, las.points['x'], las.xyz, the scaled "
        "view's own ways (asarray, scaled_array, copy, int/slice/mask/list index, iteration, arithmetic, max/min), sub-records, "
        "las[slice|list]; every written file is presented through laspy.read, read_points/seek/chunk_iterator(1, 2, n) records, "
        "reader.read().xyz and laspy.mmap, against integers and scaling parsed from the bytes. non-trivial = an edge/beyond value, or a history with a rescaling write, an "
        "overflow or an assignment after a header edit; distinct by the exact doubles involved")
    observe(ctx)
    dis = []
    # 1. per element
    cmds = [f"store {ftok(v)} {ftok(s)} {ftok(o)}" for (s, o, v, axis, how, tag, res, unt) in _ELEM]
    cmds += [f"present {X} {ftok(s)} {ftok(o)}" for (s, o, X, axis, got) in _PRES]
    hcmds = [h.command() for h in _HIST]
    # the coordinates of every written file under the file's scaling, by the model (one command per distinct (X, scale, offset))
    fcmds, fpos = [], {}
    for h in _HIST:
        for (op, out, after) in h.steps:
            if out[0] == "file":
                fp = out[4]
                for a in range(3):
                    if fp["rs"][a] is None or fp["ro"][a] is None:
                        continue
                    for X in fp["ints"][a]:
                        key = (X, fp["rs"][a], fp["ro"][a])
                        if key not in fpos:
                            fpos[key] = len(fcmds)
                            fcmds.append(f"present {X} {ftok(float(key[1]))} {ftok(float(key[2]))}")
    outs = common.run_model(cmds + hcmds + fcmds, name="c11")
    fouts = outs[len(cmds) + len(hcmds):]
    for (s, o, v, axis, how, tag, res, unt), mo in zip(_ELEM, outs):
        ctx.traces += 1
        ctx.count("value:" + tag)
        ctx.count("outcome:" + res[0])
        ctx.case(("store", s.hex(), o.hex(), v.hex()), nontrivial=tag != "inside" or res[0] == "err",
                 sample={"scale": s, "offset": o, "value": v, "axis": AX[axis], "via": how, "model": mo})
        im = f"ok {res[1]}" if res[0] == "ok" else f"err {res[1]}"
        if im != mo or not unt:
            dis.append({"kind": f"assign {tag} via {how}", "input": {"scale": s.hex(), "offset": o.hex(), "value": v.hex(), "axis": axis, "how": how},
                        "model": mo, "impl": im + ("" if unt else " (other data modified)")})
    base = len(_ELEM)
    for (s, o, X, axis, got), mo in zip(_PRES, outs[base:]):
        ctx.traces += 1
        ctx.count("present")
        ctx.case(("present", s.hex(), o.hex(), X), nontrivial=True)
        m = tokf(mo)
        if any(fr(g) != m for g in got):
            dis.append({"kind": "presented value", "input": {"scale": s.hex(), "offset": o.hex(), "X": X, "axis": axis},
                        "model": mo, "impl": [g.hex() for g in got]})
    base += len(_PRES)
    # 2. histories
    for h, line in zip(_HIST, outs[base:]):
        ctx.traces += 1
        parts = line.split(" | ")
        kinds = [op["op"] for op, _, _ in h.steps]
        for kd in kinds:
            ctx.count("op:" + kd)
        rescaled = False
        bad = None
        if len(parts) != len(h.steps) + 1:
            bad = (0, "model output", line[:200], "")
        else:
            d0 = state_diff(parse_state(parts[0]), h.snap0)
            if d0:
                bad = (0, "initial " + d0, parts[0][:200], str(h.snap0.get(d0, [r_ for r_ in h.snap0["routes"] if r_[0] in d0][:1]))[:200])
        if bad is None:
            for i, ((op, out, after), part) in enumerate(zip(h.steps, parts[1:])):
                mo_out, mo_state = part.split(" # ")
                mo = parse_out(mo_out)
                ctx.count("out:" + (mo[1] if mo[0] == "err" else mo[0]))
                if mo[0] == "err" or (mo[0] == "file" and mo[1]["ints"] != after["ints"]):
                    rescaled = True
                if op["op"] in ("W", "S"):
                    ctx.count("write:" + ("overflow" if mo[0] == "err" else "empty" if not after["ints"][0] else
                                          "same scaling" if (mo[1]["scales"], mo[1]["offsets"]) == (after["rs"], after["ro"]) else "rescaled"))
                ok = mo[0] == out[0]
                if ok and mo[0] == "err":
                    ok = mo[1] == out[1]
                if ok and mo[0] == "file":
                    ok = mo[1] == out[1]
                if not ok:
                    bad = (i, f"outcome of {op['op']}", mo_out[:200], str(out)[:200])
                    break
                d = state_diff(parse_state(mo_state), after)
                if d:
                    bad = (i, f"{d} after {op['op']}", str(parse_state(mo_state).get(d, parse_state(mo_state)["xyz"]))[:200],
                           str(after.get(d, [r_ for r_ in after["routes"] if r_[0] in d][:1]))[:200])
                    break
                if mo[0] == "file":
                    fp = out[4]
                    if any(x is None for x in fp["rs"] + fp["ro"]):
                        continue
                    mx = [[tokf(fouts[fpos[(X, fp["rs"][a], fp["ro"][a])]]) for X in fp["ints"][a]] for a in range(3)]
                    ctx.traces += 1
                    d = (None if (mo[1]["scales"], mo[1]["offsets"], mo[1]["ints"]) == (fp["rs"], fp["ro"], [c[out[5]:] for c in fp["ints"]])
                         else "bytes of the file") or routes_diff(mx, fp["rs"], fp["ro"], fp)
                    if d:
                        bad = (i, f"file of {op['op']}: {d}", str(mx)[:200], str([r_ for r_ in fp["routes"] if r_[0] in d][:1])[:200])
                        break
        edited = any(k in ("RS", "RO", "MS", "MO") for k in kinds)
        ctx.case(h.command(), nontrivial=rescaled or (edited and any(k in ("A", "X", "W", "S", "C") for k in kinds)),
                 sample={"history": [h.op_tok(op)[:60] for op, _, _ in h.steps], "points": h.n})
        if bad:
            dis.append({"kind": f"history: {bad[1]}", "input": {"init": init_json(h.init), "ops": [op_json(op) for op, _, _ in h.steps], "at": bad[0]},
                        "model": bad[2], "impl": bad[3]})
    return dis


# ---------------------------------------------------------------------------------
# failing-input search (no model)
# ---------------------------------------------------------------------------------
def shrink_history(h, kind):
    """drop operations while the same kind of failure is still observed"""
    ops = [op for op, _, _ in h.steps]
    cur = list(ops)
    changed = True
    while changed and len(cur) > 1:
        changed = False
        for i in range(len(cur) - 1, -1, -1):
            cand = cur[:i] + cur[i + 1:]
            if history_failure(h.init, cand, kind) is not None:
                cur = cand
                changed = True
                break
    return cur


def history_failure(init, ops, kind=None):
    import random
    h = History(random.Random(0), init=init)
    for op in ops:
        h.apply(op)
    for (op, before, out, after) in h.obs:
        r = oracle_step(op, before, out, after)
        if r and (kind is None or r[0] == kind):
            return r
    return None


def search(ctx, seeds):
    observe(ctx)
    failing, seen = [], set()

    def add(kind, inp, observed):
        if kind not in seen and len(failing) < 8:
            seen.add(kind)
            failing.append({"kind": kind, "input": inp, "observed": observed})
    crashed = []

    def judged(f, *a):
        """the oracle on one observation; an exception inside it is a defect of the oracle: the case is kept aside, the other
        observations are still judged, and the search as a whole counts as failed if nothing else was found"""
        try:
            return f(*a)
        except Exception as ex:  # noqa
            import traceback
            if len(crashed) < 3:
                crashed.append(f"{f.__name__}{tuple(str(x)[:60] for x in a[:4])}: {traceback.format_exc()[-600:]}")
            return None
    for (s, o, v, axis, how, tag, res, unt) in _ELEM:
        why = judged(oracle_store, s, o, v, res, unt)
        if why:
            kind = "assign: " + ("wrap" if "wrap" in why else "refused" if "although" in why and res[0] == "err" else "half step" if "half a step" in why else "other")
            add(kind, {"what": "store", "scale": s.hex(), "offset": o.hex(), "value": v.hex(), "axis": axis, "how": how,
                       "repr": f"scale={s!r} offset={o!r} {AX[axis]}={v!r}"}, why)
    for (s, o, X, axis, got) in _PRES:
        why = judged(oracle_present, s, o, X, got)
        if why:
            add("presented value", {"what": "present", "scale": s.hex(), "offset": o.hex(), "X": X, "axis": axis}, why)
    for h in _HIST:
        for (op, before, out, after) in h.obs:
            r = judged(oracle_step, op, before, out, after)
            if r:
                kind = "history: " + r[0]
                if kind in seen:
                    break
                small = judged(shrink_history, h, r[0]) or [op for op, _, _ in h.steps]
                r2 = judged(history_failure, h.init, small, r[0]) or r
                add(kind, {"what": "history", "init": init_json(h.init), "ops": [op_json(op) for op in small]}, r2[1])
                break
    for c in crashed:
        ctx.notes.append("oracle crashed on one observation: " + c)
    if crashed and not failing:
        raise RuntimeError("the oracle could not judge some observations: " + crashed[0])
    return failing


def replay(ctx, data):
    inp = data.get("failing_input", {}).get("input")
    if not inp or "what" not in inp:
        print("nothing to replay")
        return 0
    if inp["what"] == "store":
        s, o, v = (float.fromhex(inp[k]) for k in ("scale", "offset", "value"))
        res, unt = impl_store(s, o, v, inp["axis"], inp["how"])
        why = oracle_store(s, o, v, res, unt)
    elif inp["what"] == "present":
        s, o = float.fromhex(inp["scale"]), float.fromhex(inp["offset"])
        why = oracle_present(s, o, inp["X"], impl_present(s, o, inp["X"], inp["axis"]))
    else:
        r = history_failure(init_unjson(inp["init"]), [op_unjson(d) for d in inp["ops"]])
        why = r[1] if r else None
    print("REPRODUCED: " + why if why else "not reproduced")
    return 1 if why else 0
