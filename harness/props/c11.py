"""C11 — scaled coordinates obey x = X*scale + offset and never wrap.

Model: Model/Scaling.v. The arithmetic shapes (_apply_scale, _remove_scale, unscale_dimension, the range tests, the axis
tables) are regenerated from the source (Gen/GenScaling.v); binary64 is modelled on integers (round-to-nearest-even of the
exact rational result of each operation) and EXTRACTED, so stored integers, presented doubles and exception kinds are
compared bit-exactly (doubles travel as exact fractions n/2^k). Histories: heap of numbered scale/offset arrays.
Correspondence: (1) per element, (s, o, v) with v inside, on and beyond both edges of the int32 window (edges computed with
Fractions, nudged by +-k ulp): rec.<axis> = v and change_scaling vs f_store_checked / f_restore_checked; presented values
vs f_present; (2) random histories of header edits (replace vs in place), x/y/z assignments (LasData and record level),
change_scaling, write, streaming into a writer / appender with another scaling (chunked or not): after every operation the
integers, the record's and header's scaling, the aliasing between them and the presented x, y, z are compared.
Presentation routes: "the x, y, z a LasData or point record presents" is every public way of getting scaled coordinates
out of it - las.x, las['x'], las.points.x, las.points['x'], the aggregate las.xyz, what a scaled view hands out (np.asarray,
scaled_array, copy, integer / slice / mask / list index, iteration, arithmetic, max, min), sub-records (las.points[slice | mask |
list | int | ['x','y','z']]), a LasData of some of the points (las[slice | list]) - and, for a written file, what the readers
show: laspy.read (all the routes again), reader.read_points / seek / chunk_iterator records, reader.read().xyz, laspy.mmap.
After EVERY operation of a history (and initially, and for every file written) each route is compared with the model's
presented values (one function of the state: f_presented) and, in the search, with X*scale+offset in binary64 of the stored
integers under the current scaling (the file's integers and scaling are taken from the bytes, not through laspy); an object
derived from the record must hold the record's integers, and its scaling when it is a part of that record; reading
coordinates must not change the LasData.
Sessions (round 4): a LasWriter (laspy.open(mode="w") or the class) or a LasAppender is kept OPEN while the history goes on:
opened with the LasData's own header object or with another header the caller keeps (and edits, op WE), then chunks (WW)
interleaved with in-place and replacing edits of the caller's header and of the record's scaling (las.points.scales = / [i] =),
assignments, change_scaling, other writes, then close (WC). The model (Model/Scaling.v section 4: sst / sstep) gives the writer
its own arrays iff the source deep-copies the header (gen_writer_copies_header); theorems C11_session_*: whatever happens in
between, every chunk is rescaled to, and the file carries, the scaling of the opening. The oracle judges the file's scaling (from
the bytes) and every chunk's integers against the scaling observed at the opening and the coordinates presented just before
each chunk.
Values (round 4): every assignment route (las.x =, las['x'] =, las.points['x'] =, las.points.x =, las.x[:] =, las.x[key] = for
int / slice / mask / list keys on las.x, las['x'], las.points.x, las.points['x'], las.xyz =, las[['x','y','z']] =) with a value
that is an array / list / tuple / float32 array / scalar, a scaled view of the same record (itself, reversed slice, fancy index),
a scaled view or a slice of one of ANOTHER LasData / record whose scale and offset are equal, equal in scale only, or different,
a sub-field view. The model takes a view by what it presents (vsrc_vals); the oracle computes the coordinates the value presents
by the law in binary64 and requires the nearest integers under the scaling in force (the header's for las.x =, else the record's).
In place (round 6): augmented assignments `target op= d` (+=, -=, *=, /=) are assignment routes of their own (op IP): target las.x /
las['x'] / las.points.x (also through a variable holding the record) / las.points['x'] / las.x[:] / las.x[int|slice|mask|list] / the x of
a slice sub-record (shares the record's memory) / a view held in a variable (`v = las.x; v += d`: rebinds v today, nothing may change;
were the view to store through, the law judges it); operand a Python float / numpy scalar / int / per-point array, chosen so that every
result stays inside the window (often ON an edge), pushes one point out at either end, or is non-finite. The model (vsrc VSelfOp) takes
the presented coordinates combined with the operand by the view's binary operator (Gen: ArrayView.__add__ ..., and that no in-place
operator exists); the oracle computes the combination in binary64 itself and requires the nearest integers under the scaling in force,
OverflowError and nothing stored when a result is outside the window or not finite. change_scaling: a header field it is not given stays
as the caller left it (directed histories: every kind of pending edit x every subset of {scales, offsets}).
Search: the property stated on the implementation with exact rationals (no model)."""
import io
import math
from fractions import Fraction

import numpy as np

from harness import common, lasio

DRIVER = "c11"
ASSUMPTIONS = [
    "scales are positive finite doubles in [1e-9, 1e3], |offset| <= 1e9, coordinates are finite doubles (nan/inf inputs are outside the property, "
    "except as the operand or result of an augmented assignment: a coordinate that is not finite cannot be represented - OverflowError, nothing stored)",
    "the model's binary64 has one non-finite value (nan and +-inf are not told apart; -0 is 0): x / +-inf, which is the finite +-0, is given to the model as x * 0",
    "an augmented assignment `target op= d` is judged as Python defines it: the assignment, by the route of the target, of the coordinates the target "
    "presents combined with d in binary64; an implementation that shifts the stored integers instead is accepted when every result is within half a "
    "step (+ the binary64 slack) of that, and must raise OverflowError when one is outside the window",
    "numpy float64 arithmetic is IEEE-754 binary64 round-to-nearest-even, numpy.round on float64 is rint, a float64 -> int32 cast of an in-range integral value is exact",
    "numpy broadcasting of the assigned value is resolved by the caller: the model receives one value per point",
    "streaming in chunks is compared with the model's single write_points of the whole record (same integers on success; the model raises iff some chunk raises)",
    "derived objects: a sub-record (las.points[...], a reader's chunk) must carry the scaling of the record / file it is a part of; a LasData built from "
    "some points (las[1:]) has a header of its own and takes that header's scaling - only its own integers and its own law are checked "
    "(with a pending header edit its coordinates differ from las.x[1:]: outside the statement, reported as a note)",
    "np.asarray(las.points[i].x) (a one-point record) raises in laspy (its __array__ returns a scalar): that record is presented through scaled_array()",
    "the binary64 half-step bound is PROVED for the Gallina binary64 model (C11_roundtrip_float_bound: |present(store v) - v| <= s/2 + "
    "2^-53 (3|v-o| + 7|X|s + |o|) + 5(1+s)2^-1075; C11_store_float_bound: |X - q| <= 1/2 + 3*2^-53|q| + subnormal terms, which implies the "
    "oracle's tolerance 1/2 + 2^-51|q|); that numpy's float64 operations are the modelled round-to-nearest-even ones is checked bit-exactly by the correspondence",
    "an open writer / appender session is one writer at a time; a chunk is one write_points / append_points call with the whole record of the "
    "LasData; the header object handed to a writer (when it is not the LasData's own) is not part of the model's state: edits of it must change nothing",
    "a value that is a view is evaluated (Python evaluates the right-hand side first) before the assignment modifies anything; "
    "las.<axis>[i] = value takes one number (an element of the view / array)",
]

INT_MIN, INT_MAX = -2 ** 31, 2 ** 31 - 1
AX = "xyz"
BOP_NAME = {"+": "add", "-": "sub", "*": "mul", "/": "div"}


def combine64(xs, ds, bop):
    """x <bop> d in binary64, element by element (xs: Fractions | None, ds: doubles) -> Fractions | None (non-finite)"""
    import operator
    f = {"+": operator.add, "-": operator.sub, "*": operator.mul, "/": operator.truediv}[bop]
    with np.errstate(all="ignore"):
        r = f(np.array([math.nan if x is None else float(x) for x in xs], dtype=np.float64), np.array(list(ds), dtype=np.float64))
    return [fr(v) for v in np.atleast_1d(r).tolist()]


# ---------------------------------------------------------------------------------
# tokens
# ---------------------------------------------------------------------------------
def ftok(x):
    x = float(x)
    if not math.isfinite(x):
        return "nan"
    n, d = x.as_integer_ratio()
    return f"{n}/{d}"


def ftoks(a):
    a = list(a)
    return ",".join(ftok(x) for x in a) if a else "-"


def tokf(t):
    """model token -> Fraction | None (non-finite)"""
    if t == "nan":
        return None
    n, d = t.split("/")
    return Fraction(int(n), int(d))


def tokfs(t):
    return [] if t == "-" else [tokf(x) for x in t.split(",")]


def fr(x):
    """double -> Fraction | None"""
    x = float(x)
    return Fraction(x) if math.isfinite(x) else None


def frs(a):
    return [fr(x) for x in np.asarray(a, dtype=np.float64).ravel().tolist()]


def zl(a):
    a = [int(v) for v in a]
    return ",".join(map(str, a)) if a else "-"


def show(q):
    """a Fraction for a message: its nearest double when it has one, a decimal order of magnitude otherwise (quotients
    such as 1e300 / 1e-9 exceed the binary64 range: the oracle must be able to report exactly those)"""
    try:
        return repr(float(q))
    except OverflowError:
        n = abs(q.numerator) // q.denominator
        return f"{'-' if q < 0 else ''}{str(n)[:6]}e{len(str(n)) - 6} (beyond the double range)"


def rhe(q):
    """round half even of a Fraction"""
    f = q.numerator // q.denominator
    r = q - f
    if r < Fraction(1, 2):
        return f
    if r > Fraction(1, 2):
        return f + 1
    return f if f % 2 == 0 else f + 1


# ---------------------------------------------------------------------------------
# generators
# ---------------------------------------------------------------------------------
def gen_scale(rng):
    k = rng.randrange(-9, 4)
    r = rng.random()
    if r < 0.45:
        return float(f"1e{k}")
    if r < 0.6:
        return rng.choice([0.5, 0.25, 0.125, 2.0 ** -20, 2.0 ** -29, 2.0, 8.0, 512.0, 1000.0, 1e-9])
    if r < 0.8:
        return min(1e3, max(1e-9, rng.uniform(1, 10) * 10.0 ** k))
    return min(1e3, max(1e-9, float(f"{rng.choice([2, 25, 5, 125, 3, 7])}e{k}")))


def gen_offset(rng):
    r = rng.random()
    if r < 0.3:
        return 0.0
    if r < 0.45:
        return rng.choice([1e9, -1e9, 999999999.999, -123456789.125])
    if r < 0.6:
        return float(rng.randrange(-10 ** 6, 10 ** 6))
    if r < 0.8:
        return rng.uniform(-1e6, 1e6)
    return rng.choice([1, -1]) * 10.0 ** rng.uniform(-3, 9)


def nudge(x, k):
    for _ in range(abs(k)):
        x = math.nextafter(x, math.inf if k > 0 else -math.inf)
    return x


def gen_value(rng, s, o):
    """a finite double chosen relative to the int32 window of (s, o): inside, on an edge, just beyond, far"""
    S, O = Fraction(s), Fraction(o)
    r = rng.random()
    if r < 0.3:
        X = rng.choice([0, 1, -1, rng.randrange(INT_MIN, INT_MAX + 1), rng.randrange(-10 ** 6, 10 ** 6)])
        q = Fraction(X) + rng.choice([Fraction(0), Fraction(1, 2), Fraction(-1, 2), Fraction(rng.randrange(-499, 500), 1000)])
        tag = "inside"
    elif r < 0.8:
        edge = rng.choice([INT_MAX, INT_MIN])
        q = Fraction(edge) + rng.choice([Fraction(0), Fraction(1, 2), Fraction(-1, 2), Fraction(49, 100), Fraction(-49, 100),
                                         Fraction(51, 100), Fraction(-51, 100), Fraction(1), Fraction(-1), Fraction(2), Fraction(-2),
                                         Fraction(rng.randrange(-3000, 3000), 1000)])
        tag = "edge-hi" if edge == INT_MAX else "edge-lo"
    elif r < 0.9:
        q = Fraction(rng.choice([INT_MAX, INT_MIN])) * rng.choice([2, 3, 1000, 2 ** 31, 2 ** 32 + 1])
        tag = "beyond"
    else:
        v = rng.choice([1e300, -1e300, 1.7e308, -1.7e308, 1e18, -1e18, 5e-324, 0.0, 4294967296.0 * s + o, -4294967296.0 * s + o])
        return float(v), "extreme"
    v = float(O + q * S)            # nearest double of the exact value
    v = nudge(v, rng.choice([0, 0, 0, 1, -1, 2, -2, 3, -3]))
    if not math.isfinite(v):
        v = 1e300
    return v, tag


# ---------------------------------------------------------------------------------
# implementation runners
# ---------------------------------------------------------------------------------
def new_record(n, scales, offsets, fmt=0):
    import laspy
    return laspy.ScaleAwarePointRecord.zeros(n, point_format=laspy.PointFormat(fmt), scales=np.array(scales, dtype=np.float64),
                                             offsets=np.array(offsets, dtype=np.float64))


def impl_store(s, o, v, axis, how):
    """assign one value through a scaled view; returns ('ok', X) | ('err', kind), plus whether the other axes stayed untouched"""
    sc = [1.0, 1.0, 1.0]
    of = [0.0, 0.0, 0.0]
    sc[axis], of[axis] = s, o
    rec = new_record(2, sc, of)
    rec.X[:] = 11
    rec.Y[:] = 22
    rec.Z[:] = 33
    before = rec.array.copy()
    name = AX[axis]
    try:
        if how == "attr":
            setattr(rec, name, np.array([v, v]))
        elif how == "scalar":
            rec[name][:] = v
        elif how == "index":
            rec[name][1] = v
        elif how == "mask":
            rec[name][np.array([False, True])] = np.array([v])
        else:
            rec[name][[1]] = [v]
    except Exception as ex:
        return ("err", common.exc_kind(ex)), rec.array.tobytes() == before.tobytes()
    X = int(rec.array["XYZ"[axis]][1])
    others = all(rec.array[d].tobytes() == before[d].tobytes() for d in before.dtype.names if d != "XYZ"[axis])
    if how in ("index", "mask", "list"):
        others = others and int(rec.array["XYZ"[axis]][0]) == (11, 22, 33)[axis]
    return ("ok", X), others


PRES_ROUTES = ("asarray(rec[a])", "rec[a][0]", "asarray(rec.a)", "rec.a.scaled_array()", "rec.a.copy()", "rec.a[0:1]", "rec.a[[0]]",
               "rec.a.max()", "rec.a.min()", "np.max(rec.a)", "rec.a * 1.0", "list(rec.a)", "rec[0:1].a", "rec[0].a.scaled_array()")


def impl_present(s, o, X, axis):
    """the one stored integer X of a record under (s, o), through every way the record presents it (PRES_ROUTES, in order)"""
    sc = [1.0, 1.0, 1.0]
    of = [0.0, 0.0, 0.0]
    sc[axis], of[axis] = s, o
    rec = new_record(1, sc, of)
    rec.array["XYZ"[axis]][0] = X
    nm = AX[axis]
    v = getattr(rec, nm)
    got = (np.asarray(rec[nm])[0], rec[nm][0], np.asarray(v)[0], v.scaled_array()[0], v.copy()[0], np.asarray(v[0:1])[0],
           np.asarray(v[[0]])[0], v.max(), v.min(), np.max(v), (v * 1.0)[0], list(v)[0], np.asarray(getattr(rec[0:1], nm))[0],
           getattr(rec[0], nm).scaled_array())
    return tuple(float(g) for g in got)


# ---- presentation routes: every public way a LasData / point record / reader hands out scaled coordinates ----
# values travel as Python floats (binary64, compared with == : exact), the scaling of derived objects too
def fls(a):
    return np.asarray(a, dtype=np.float64).ravel().tolist()


def selections(n):
    """deterministic index selections of n points: (spelling, index object, indices selected)"""
    if n == 0:
        return [("[0:0]", slice(0, 0), [])]
    odd = [i for i in range(n) if i % 2 == (n - 1) % 2]
    return [("[1:]", slice(1, None), list(range(1, n))), ("[::2]", slice(None, None, 2), list(range(0, n, 2))),
            ("[mask]", np.array([i in odd for i in range(n)], dtype=bool), odd),
            ("[list]", list(range(n - 1, -1, -1)), list(range(n - 1, -1, -1)))]


def own_of(rec, keep):
    """what a derived record holds itself: its integers and its scaling; keep = it must carry the scaling of the record it was taken from"""
    arr = np.atleast_1d(rec.array)
    return {"ints": [arr[d].tolist() for d in "XYZ"], "rs": fls(rec.scales), "ro": fls(rec.offsets), "keep": keep}


def three(get):
    return [fls(get(a)) for a in AX]


def view_routes(src, view, n, sels):
    """the ways one scaled view (las.x ...) hands out its values: (route, indices, aggregate, three columns, None)"""
    allp = list(range(n))
    vs = [view(a) for a in AX]
    out = [(f"np.asarray({src})", allp, None, [fls(np.asarray(v)) for v in vs], None),
           (f"{src}.scaled_array()", allp, None, [fls(v.scaled_array()) for v in vs], None),
           (f"{src}.copy()", allp, None, [fls(v.copy()) for v in vs], None),
           (f"np.array({src})", allp, None, [fls(np.array(v)) for v in vs], None),
           (f"{src}[i]", allp, None, [[float(v[i]) for i in allp] for v in vs], None),
           (f"list({src})", allp, None, [[float(x) for x in v] for v in vs], None),
           (f"{src} + 0.0", allp, None, [fls(v + 0.0) for v in vs], None),
           (f"np.multiply({src}, 1.0)", allp, None, [fls(np.multiply(v, 1.0)) for v in vs], None)]
    for nm, sel, idx in sels:
        out.append((f"{src}{nm}", idx, None, [fls(np.asarray(v[sel])) for v in vs], None))
    if n > 0:
        out.append((f"{src}.max()", allp, "max", [[float(v.max())] for v in vs], None))
        out.append((f"{src}.min()", allp, "min", [[float(v.min())] for v in vs], None))
        out.append((f"np.max({src})", allp, "max", [[float(np.max(v))] for v in vs], None))
        out.append((f"np.min({src})", allp, "min", [[float(np.min(v))] for v in vs], None))
    return out


def record_routes(src, p, n, sels):
    """the ways a scale-aware record presents coordinates, besides the views of its x, y, z: sub-records"""
    out = []
    for nm, sel, idx in sels:
        sub = p[sel]
        out.append((f"{src}{nm}.x", idx, None, three(lambda a: np.asarray(getattr(sub, a))), own_of(sub, True)))
    for i in sorted({0, n - 1} if n > 0 else ()):
        sub = p[i]
        out.append((f"{src}[{i}].x.scaled_array()", [i], None, three(lambda a: [getattr(sub, a).scaled_array()]), own_of(sub, True)))
    sub = p[["x", "y", "z"]]
    out.append((f"{src}[['x', 'y', 'z']].x", list(range(n)), None, three(lambda a: np.asarray(getattr(sub, a))), own_of(sub, True)))
    return out


def routes(las, derived=True):
    """every route of a LasData: (route, indices of the points shown, aggregate, three columns of floats, own | None)"""
    p = las.points
    n = len(p)
    sels = selections(n)
    allp = list(range(n))
    xyz = np.asarray(las.xyz, dtype=np.float64).reshape(-1, 3)
    out = [("las.xyz", allp, None, [xyz[:, k].tolist() for k in range(3)], None),
           ("las['x']", allp, None, three(lambda a: np.asarray(las[a])), None),
           ("las.points.x", allp, None, three(lambda a: np.asarray(getattr(p, a))), None),
           ("las.points['x']", allp, None, three(lambda a: np.asarray(p[a])), None)]
    out += view_routes("las.x", lambda a: getattr(las, a), n, sels)
    out += record_routes("las.points", p, n, sels)
    if derived and n > 0:
        # a LasData made of some of the points: it has its own header and record (and takes the header's scaling)
        nm, sel, idx = sels[0] if n % 2 else sels[3]
        sub = las[sel]
        own = own_of(sub.points, False)
        out.append((f"las{nm}.x", idx, None, three(lambda a: np.asarray(getattr(sub, a))), own))
        sx = np.asarray(sub.xyz, dtype=np.float64).reshape(-1, 3)
        out.append((f"las{nm}.xyz", idx, None, [sx[:, k].tolist() for k in range(3)], own))
    return out


def basic(las):
    p = las.points
    return {
        "ints": [p.array[d].astype(np.int64).tolist() for d in "XYZ"],
        "rs": frs(p.scales), "ro": frs(p.offsets), "hs": frs(las.header.scales), "ho": frs(las.header.offsets),
        "alias_s": p.scales is las.header.scales, "alias_o": p.offsets is las.header.offsets,
        "xyz": [frs(np.asarray(las.x)), frs(np.asarray(las.y)), frs(np.asarray(las.z))],
        "raw": p.array.tobytes(), "rsf": fls(p.scales), "rof": fls(p.offsets),
    }


def snapshot(las, derived=True):
    snap = basic(las)
    try:
        snap["routes"] = routes(las, derived)
        snap["routes_err"] = None
    except Exception as ex:      # a route that raises presents nothing: reported by the oracle
        import traceback
        snap["routes"] = []
        snap["routes_err"] = f"{common.exc_kind(ex)}: {str(ex)[:80]} at {traceback.extract_tb(ex.__traceback__)[-1].line}"
    # reading coordinates must not change anything
    p = las.points
    again = {"raw": p.array.tobytes(), "rsf": fls(p.scales), "rof": fls(p.offsets), "hs": frs(las.header.scales), "ho": frs(las.header.offsets),
             "alias_s": p.scales is las.header.scales, "alias_o": p.offsets is las.header.offsets}
    snap["looked"] = next((k for k in again if again[k] != snap[k]), None)
    return snap


def read_file(data):
    import laspy
    l2 = laspy.read(io.BytesIO(data))
    return {"scales": frs(l2.header.scales), "offsets": frs(l2.header.offsets),
            "ints": [np.asarray(l2.points.array[d]).astype(np.int64).tolist() for d in "XYZ"]}


def raw_file(data):
    """scales, offsets and X, Y, Z of a LAS file taken from its bytes (public header block of the specification), without laspy"""
    import struct
    minor = data[25]
    off, = struct.unpack_from("<I", data, 96)
    size, = struct.unpack_from("<H", data, 105)
    count, = struct.unpack_from("<I", data, 107)
    if minor >= 4:
        count, = struct.unpack_from("<Q", data, 247)
    sc = struct.unpack_from("<3d", data, 131)
    of = struct.unpack_from("<3d", data, 155)
    pts = [struct.unpack_from("<3i", data, off + i * size) for i in range(count)]
    return {"ints": [[pt[k] for pt in pts] for k in range(3)], "rs": [fr(x) for x in sc], "ro": [fr(x) for x in of],
            "rsf": list(sc), "rof": list(of)}


_MMAP_PATH = None


def file_presentations(data):
    """the coordinates of a written file as laspy's readers present them: a state (integers and scaling from the bytes) with
    the routes of laspy.read, of the reader's records (read_points, chunk iterators, seek) and of laspy.mmap"""
    import laspy
    global _MMAP_PATH
    st = raw_file(data)
    n = len(st["ints"][0])
    allp = list(range(n))
    out = []
    try:
        l2 = laspy.read(io.BytesIO(data))
        out.append(("laspy.read: las.x", allp, None, three(lambda a: np.asarray(getattr(l2, a))), own_of(l2.points, True)))
        for (nm, idx, agg, cols, o2) in routes(l2, derived=False):
            out.append(("laspy.read: " + nm, idx, agg, cols, o2))
        for k in sorted({1, 2, max(n, 1)}):
            with laspy.open(io.BytesIO(data)) as r:
                pos = 0
                for chunk in r.chunk_iterator(k):
                    idx = list(range(pos, pos + len(chunk)))
                    pos += len(chunk)
                    out.append((f"chunk_iterator({k}): chunk.x", idx, None, three(lambda a: np.asarray(getattr(chunk, a))), own_of(chunk, True)))
                    out.append((f"chunk_iterator({k}): chunk['x']", idx, None, three(lambda a: np.asarray(chunk[a])), own_of(chunk, True)))
                if pos != n:
                    out.append((f"chunk_iterator({k}): {pos} points", allp, None, [[], [], []], None))
        with laspy.open(io.BytesIO(data)) as r:
            a = r.read_points(1)
            b = r.read_points(-1)
            out.append(("read_points(1).x", allp[:1], None, three(lambda c: np.asarray(getattr(a, c))), own_of(a, True)))
            out.append(("read_points(-1).x", allp[1:], None, three(lambda c: np.asarray(getattr(b, c))), own_of(b, True)))
            if n > 1:
                r.seek(n - 1)
                c_ = r.read_points(5)
                out.append(("seek, read_points.x", allp[n - 1:], None, three(lambda c: np.asarray(getattr(c_, c))), own_of(c_, True)))
        with laspy.open(io.BytesIO(data)) as r:
            l3 = r.read()
            x3 = np.asarray(l3.xyz, dtype=np.float64).reshape(-1, 3)
            out.append(("reader.read().xyz", allp, None, [x3[:, k].tolist() for k in range(3)], own_of(l3.points, True)))
        if _MMAP_PATH is None:
            import atexit, os, tempfile
            fd, _MMAP_PATH = tempfile.mkstemp(prefix="c11_mmap_", suffix=".las", dir="/var/tmp")
            os.close(fd)
            atexit.register(lambda: os.path.exists(_MMAP_PATH) and os.remove(_MMAP_PATH))
        with open(_MMAP_PATH, "wb") as fh:
            fh.write(data)
        with laspy.mmap(_MMAP_PATH) as mm:
            x4 = np.array(mm.xyz, dtype=np.float64).reshape(-1, 3)
            out.append(("laspy.mmap: las.xyz", allp, None, [x4[:, k].tolist() for k in range(3)], None))
            out.append(("laspy.mmap: las.x", allp, None, three(lambda a: np.array(getattr(mm, a))), own_of(mm.points, True)))
        st["routes_err"] = None
    except Exception as ex:
        import traceback
        st["routes_err"] = f"{common.exc_kind(ex)}: {str(ex)[:80]} at {traceback.extract_tb(ex.__traceback__)[-1].line}"
    st["routes"] = out
    st["looked"] = None
    return st


def key_positions(key, n, at=0):
    """the points a key of las.<axis>[key] = ... selects"""
    if key == "int":
        return [at]
    if key == "slice1":
        return list(range(1, n))
    if key == "step2":
        return list(range(0, n, 2))
    if key == "mask":
        return [i for i in range(n) if i % 2 == (n - 1) % 2]
    return list(range(n - 1, -1, -1))


def key_object(key, n, at=0):
    if key == "int":
        return at
    if key == "slice1":
        return slice(1, None)
    if key == "step2":
        return slice(None, None, 2)
    if key == "mask":
        return np.array([i % 2 == (n - 1) % 2 for i in range(n)], dtype=bool)
    return list(range(n - 1, -1, -1))


class History:
    """one LasData driven through operations; records (op token, outcome, snapshot after) and the oracle's observations"""

    def __init__(self, rng, init=None):
        import laspy
        self.rng = rng
        if init is None:
            fmt = rng.choice([0, 1, 3, 6, 7])
            n = rng.choice([0, 1, 1, 2, 3, 5])
            sc = [gen_scale(rng) for _ in range(3)]
            if rng.random() < 0.4:
                sc = [sc[0]] * 3
            of = [gen_offset(rng) for _ in range(3)]
            if rng.random() < 0.65:      # moderate integers: most rescalings fit
                cols = [[rng.choice([0, 1, -1, rng.randrange(-10 ** 6, 10 ** 6), rng.randrange(-10 ** 4, 10 ** 4)]) for _ in range(n)] for _ in range(3)]
            else:
                cols = [[rng.choice([0, 1, -1, INT_MAX, INT_MIN, rng.randrange(INT_MIN, INT_MAX + 1), rng.randrange(-10 ** 5, 10 ** 5)])
                         for _ in range(n)] for _ in range(3)]
            init = {"fmt": fmt, "n": n, "scales": sc, "offsets": of, "cols": cols}
        self.init = init
        self.fmt = init["fmt"]
        ver = "1.4" if self.fmt >= 6 else "1.2"
        hdr = laspy.LasHeader(point_format=self.fmt, version=ver)
        hdr.scales = np.array(init["scales"], dtype=np.float64)
        hdr.offsets = np.array(init["offsets"], dtype=np.float64)
        self.version = ver
        self.las = laspy.LasData(hdr, laspy.PackedPointRecord.zeros(init["n"], hdr.point_format))
        for d, col in zip("XYZ", init["cols"]):
            self.las.points.array[d] = np.array(col, dtype=np.int32)
        self.n = init["n"]
        self.steps = []          # (op dict, outcome, snapshot after)
        self.sess = None         # the open writer / appender session
        self.snap0 = snapshot(self.las)
        self.last = self.snap0
        self.obs = [({"op": "INIT"}, self.snap0, ("none",), self.snap0, None)]            # oracle observations

    # ---- op generation (online: values are chosen relative to the current scaling) ----
    def gen_op(self):
        rng = self.rng
        las = self.las
        if self.sess is not None:
            # a writer is open: chunks, edits of the header it was given (in place: the shared-object case), close
            r = rng.random()
            if r < 0.26:
                return {"op": "WW"}
            if r < 0.36:
                return {"op": "WC", "how": rng.choice(["close", "close", "with", "exc"])}
            if r < 0.46 and self.sess["hdr"] is not None:
                what = rng.choice(["scale", "offset"])
                return {"op": "WE", "axis": rng.randrange(3), "what": what, "inplace": rng.random() < 0.7,
                        "v": gen_scale(rng) if what == "scale" else gen_offset(rng)}
            if r < 0.58:
                if rng.random() < 0.5:
                    return {"op": "MS", "axis": rng.randrange(3), "v": gen_scale(rng), "el": rng.random() < 0.4, "np": rng.random() < 0.3}
                return {"op": "MO", "axis": rng.randrange(3), "v": gen_offset(rng), "el": rng.random() < 0.4, "np": rng.random() < 0.3}
        elif rng.random() < 0.09:
            return self.gen_open()
        if rng.random() < 0.07:
            return self.gen_inplace()
        r = rng.random()
        if r < 0.16:
            return self.gen_assign_value()
        if r < 0.19:
            return self.gen_items()
        if r < 0.25:
            k = rng.choice(["PRS", "PRO", "PMS", "PMO"])
            if k == "PRS":
                return {"op": k, "a": [float(x) for x in las.header.scales] if rng.random() < 0.3 else [gen_scale(rng) for _ in range(3)]}
            if k == "PRO":
                return {"op": k, "a": [float(x) for x in las.header.offsets] if rng.random() < 0.3 else [gen_offset(rng) for _ in range(3)]}
            return {"op": k, "axis": rng.randrange(3), "v": gen_scale(rng) if k == "PMS" else gen_offset(rng)}
        r = rng.random()
        if r < 0.12:
            a = [gen_scale(rng) for _ in range(3)]
            if rng.random() < 0.3:
                a = [float(x) for x in las.header.scales]     # a fresh array with equal values
            return {"op": "RS", "a": a}
        if r < 0.2:
            return {"op": "RO", "a": [gen_offset(rng) for _ in range(3)]}
        if r < 0.3:
            return {"op": "MS", "axis": rng.randrange(3), "v": gen_scale(rng)}
        if r < 0.38:
            return {"op": "MO", "axis": rng.randrange(3), "v": gen_offset(rng)}
        if r < 0.44:
            # las.xyz = (m, 3) array; values relative to the header's scaling (the one in force)
            m = self.n
            if rng.random() < (0.8 if self.n == 0 else 0.15):
                m = self.n + rng.choice([1, 2, 3])
            bad = rng.random() < 0.2
            cols = []
            for a in range(3):
                s, o = float(las.header.scales[a]), float(las.header.offsets[a])
                col = []
                for i in range(m):
                    if bad and rng.random() < 0.4:
                        col.append(gen_value(rng, s, o)[0])
                    else:
                        X = rng.choice([0, 1, -1, rng.randrange(-10 ** 5, 10 ** 5), rng.randrange(-10 ** 5, 10 ** 5), INT_MAX, INT_MIN])
                        col.append(float(Fraction(o) + (Fraction(X) + Fraction(rng.randrange(-49, 50), 100)) * Fraction(s)))
                cols.append(col)
            return {"op": "X", "cols": cols}
        if r < 0.6:
            axis = rng.randrange(3)
            level = "A" if rng.random() < 0.7 else "P"
            src_s, src_o = (las.header.scales, las.header.offsets) if level == "A" else (las.points.scales, las.points.offsets)
            s, o = float(src_s[axis]), float(src_o[axis])
            vals = []
            bad = rng.random() < 0.25
            m = self.n
            if level == "A" and rng.random() < (0.8 if self.n == 0 else 0.15):
                m = self.n + rng.choice([1, 2, 3])      # a longer value: the record grows (laspy.create(); las.x = ...)
            for i in range(m):
                if bad and rng.random() < 0.6:
                    vals.append(gen_value(rng, s, o)[0])
                else:
                    X = rng.choice([0, 1, -1, rng.randrange(-10 ** 5, 10 ** 5), rng.randrange(-10 ** 5, 10 ** 5),
                                    INT_MAX, INT_MIN, rng.randrange(INT_MIN, INT_MAX + 1)])
                    v = float(Fraction(o) + (Fraction(X) + Fraction(rng.randrange(-49, 50), 100)) * Fraction(s))
                    vals.append(v)
            scalar = level == "P" and self.n > 0 and rng.random() < 0.3     # las.<axis> = scalar is not supported by laspy (len() of a float)
            if scalar:
                vals = [vals[0]] * self.n
            return {"op": level, "axis": axis, "vals": vals, "scalar": scalar}
        if r < 0.72:
            s = [gen_scale(rng) for _ in range(3)] if rng.random() < 0.75 else None
            o = [gen_offset(rng) for _ in range(3)] if rng.random() < 0.6 else None
            if s is not None and rng.random() < 0.5:
                # stay near the current scaling on most axes so that the rescaling often fits
                cur = [float(x) for x in las.points.scales]
                s = [cur[i] * rng.choice([1, 1, 10, 0.1, 2, 0.5]) if rng.random() < 0.8 else s[i] for i in range(3)]
                s = [min(1e3, max(1e-9, x)) for x in s]
            return {"op": "C", "s": s, "o": o}
        if r < 0.86:
            return {"op": "W"}
        cur_s = [float(x) for x in las.points.scales]
        cur_o = [float(x) for x in las.points.offsets]
        ws = [cur_s[i] * rng.choice([1, 1, 10, 100, 0.1, 0.5, 2]) if rng.random() < 0.7 else gen_scale(rng) for i in range(3)]
        ws = [min(1e3, max(1e-9, x)) for x in ws]
        wo = [cur_o[i] if rng.random() < 0.5 else gen_offset(rng) for i in range(3)]
        return {"op": "S", "ws": ws, "wo": wo, "chunk": rng.choice([0, 0, 1, 2, -1]), "via": rng.choice(["writer", "writer", "appender", "appender0"])}

    def gen_open(self):
        rng = self.rng
        las = self.las
        via = rng.choice(["open", "open", "LasWriter", "appender"])
        hdr = "own" if via == "appender" else rng.choice(["caller", "caller", "own"])
        op = {"op": "WO", "via": via, "hdr": hdr}
        if hdr == "own":
            cur_s = [float(x) for x in las.points.scales]
            cur_o = [float(x) for x in las.points.offsets]
            ws = [cur_s[i] * rng.choice([1, 1, 10, 100, 0.1, 0.5, 2]) if rng.random() < 0.7 else gen_scale(rng) for i in range(3)]
            op["ws"] = [min(1e3, max(1e-9, x)) for x in ws]
            op["wo"] = [cur_o[i] if rng.random() < 0.5 else gen_offset(rng) for i in range(3)]
            k = rng.choice([0, 1, 2]) if via == "appender" else 0
            op["pre"] = [[rng.choice([0, 1, -1, INT_MAX, INT_MIN, rng.randrange(-10 ** 6, 10 ** 6)]) for _ in range(k)] for _ in range(3)]
        return op

    def near_grid(self, s, o, m, bad):
        rng = self.rng
        vals = []
        for _ in range(m):
            if bad and rng.random() < 0.6:
                vals.append(gen_value(rng, s, o)[0])
            else:
                X = rng.choice([0, 1, -1, rng.randrange(-10 ** 5, 10 ** 5), rng.randrange(-10 ** 5, 10 ** 5), INT_MAX, INT_MIN])
                vals.append(float(Fraction(o) + (Fraction(X) + Fraction(rng.randrange(-49, 50), 100)) * Fraction(s)))
        return vals

    def gen_source(self, m, s, o, positions):
        """the value of an assignment of m coordinates under the scaling (s, o) in force: a plain array / list, a scaled view of
        this record, a scaled view (or a slice of one) of another LasData / record with the same or another scale / offset,
        a sub-field view"""
        rng = self.rng
        kind = rng.choice(["other", "other", "other", "self", "self", "vals", "subfield"])
        if kind == "self" and self.n == 0:
            kind = "other"
        if kind == "vals":
            return {"k": "vals", "vals": self.near_grid(s, o, m, rng.random() < 0.25), "form": rng.choice(["array", "list", "tuple", "f32"])}
        if kind == "subfield":
            return {"k": "subfield", "vals": [rng.randrange(0, 8) for _ in range(m)]}
        if kind == "self":
            b = rng.randrange(3)
            r = rng.random()
            if m == self.n and r < 0.35:
                return {"k": "self", "axis": b, "idx": list(range(m)), "how": "view"}
            if m == self.n and r < 0.6:
                return {"k": "self", "axis": b, "idx": list(range(m - 1, -1, -1)), "how": "rev"}
            if positions is not None and r < 0.8:
                return {"k": "self", "axis": b, "idx": list(positions), "how": "fancy"}
            return {"k": "self", "axis": b, "idx": [rng.randrange(self.n) for _ in range(m)], "how": "fancy"}
        # another record: the same grid, the same step around another origin, another step
        r = rng.random()
        s2 = s if r < 0.6 else min(1e3, max(1e-9, s * rng.choice([10, 0.1, 2, 0.5, 100]))) if r < 0.85 else gen_scale(rng)
        r = rng.random()
        if r < 0.25:
            o2 = o
        elif r < 0.7:
            o2 = float(Fraction(o) + rng.choice([1, -1, 7, 1000, -120000, rng.randrange(-10 ** 6, 10 ** 6)]) * Fraction(s))
        else:
            o2 = gen_offset(rng)
        if not (abs(o2) <= 1e9):
            o2 = o
        ints = []
        wild = rng.random() < 0.15
        for _ in range(m):
            if wild and rng.random() < 0.5:
                ints.append(rng.choice([INT_MAX, INT_MIN, rng.randrange(INT_MIN, INT_MAX + 1)]))
            else:
                Xd = rng.choice([0, 1, -1, rng.randrange(-10 ** 5, 10 ** 5), rng.randrange(-10 ** 5, 10 ** 5), INT_MAX, INT_MIN])
                X2 = rhe((Fraction(Xd) * Fraction(s) + Fraction(o) - Fraction(o2)) / Fraction(s2))
                ints.append(max(INT_MIN, min(INT_MAX, X2)))
        return {"k": "other", "ints": ints, "s": s2, "o": o2, "on": rng.randrange(3), "how": rng.choice(["las", "las", "rec", "slice", "item"])}

    def gen_assign_value(self):
        """an assignment by any route, of any kind of value"""
        rng = self.rng
        las = self.las
        n = self.n
        route = rng.choice(["attr", "attr", "item", "pitem", "pattr", "viewall", "view"])
        if route == "view" and n == 0:
            route = "viewall"
        axis = rng.randrange(3)
        S, O = (las.header.scales, las.header.offsets) if route == "attr" else (las.points.scales, las.points.offsets)
        s, o = float(S[axis]), float(O[axis])
        op = {"op": "V", "route": route, "axis": axis}
        positions = None
        if route == "view":
            key = rng.choice([k for k in ("int", "slice1", "step2", "mask", "list") if n >= 2 or k in ("int", "step2", "list")])
            op["key"] = key
            op["at"] = rng.randrange(n)
            positions = key_positions(key, n, op["at"])
            op["target"] = rng.choice(["las.x", "las['x']", "las.points.x", "las.points['x']"])
            m = len(positions)
        else:
            m = n
            if route in ("attr", "item", "pitem") and rng.random() < (0.8 if n == 0 else 0.15):
                m = n + rng.choice([1, 2, 3])
            elif route in ("pattr", "viewall") and n >= 2 and rng.random() < 0.05:
                m = n + 1                                  # cannot be broadcast: must raise, nothing stored
            if route == "viewall":
                op["target"] = rng.choice(["las.x", "las['x']", "las.points.x", "las.points['x']"])
        src = self.gen_source(m, s, o, positions)
        if route == "view" and op["key"] == "int" and src["k"] == "vals":
            src["form"] = rng.choice(["scalar", "npscalar", "array"])
        elif route in ("pattr", "viewall") and src["k"] == "vals" and m == n and n > 0 and rng.random() < 0.3:
            src = {"k": "vals", "vals": [src["vals"][0]] * n, "form": rng.choice(["scalar", "npscalar"])}
        op["src"] = src
        return op

    # ---- augmented assignments: las.x += d, las.points.x -= d, las['x'] *= d, las.x[key] /= d, sub-record, a view held in a variable ----
    def gen_delta(self, mode, bop, xs, s, o):
        """the operand of `view <bop>= d` for the coordinates xs (doubles) now presented, to be stored under (s, o): the results stay
        in the int32 window (often ending ON its edge), the largest / smallest leaves it by a fraction of a step up to a few steps,
        a non-finite operand, anything. Returns (d, index of the point pushed | None)"""
        rng = self.rng
        S, O = Fraction(s), Fraction(o)
        if mode == "nonfinite":
            return rng.choice([math.nan, math.inf, -math.inf] + ([0.0] if bop == "/" else [])), None
        fin = [(Fraction(x), i) for i, x in enumerate(xs) if math.isfinite(x)]
        if mode == "random" or not fin:
            return rng.choice([gen_offset(rng), rng.uniform(-10, 10) * s, float(rng.randrange(-5, 6)), s, 1.0, 0.5, -1.0, 1e300, 5e-324]), None
        qs = [((x - O) / S, i) for x, i in fin]
        (qmax, imax), (qmin, imin) = max(qs), min(qs)
        if mode == "fit":
            r = rng.random()
            if r < 0.35:      # the largest result lands on the top edge (or just inside), the others below
                q_to, (q_from, at) = Fraction(INT_MAX) - rng.choice([0, 0, 1, 2]) + rng.choice([Fraction(0), Fraction(49, 100), Fraction(-49, 100)]), (qmax, imax)
            elif r < 0.7:
                q_to, (q_from, at) = Fraction(INT_MIN) + rng.choice([0, 0, 1, 2]) + rng.choice([Fraction(0), Fraction(49, 100), Fraction(-49, 100)]), (qmin, imin)
            else:
                k = rng.choice([Fraction(0), Fraction(1), Fraction(-1), Fraction(20), Fraction(1, 2), Fraction(-1, 2), Fraction(49, 100),
                                Fraction(rng.randrange(-1000, 1000)), Fraction(rng.randrange(-10 ** 6, 10 ** 6), 1000)])
                q_to, (q_from, at) = qmax + k, (qmax, imax)
        else:
            beyond = rng.choice([Fraction(51, 100), Fraction(6, 10), Fraction(1), Fraction(3, 2), Fraction(2), Fraction(50), Fraction(rng.randrange(1, 4000), 7)])
            if mode == "hi":
                q_to, (q_from, at) = Fraction(INT_MAX) + beyond, (qmax, imax)
            else:
                q_to, (q_from, at) = Fraction(INT_MIN) - beyond, (qmin, imin)
        x_from, x_to = O + q_from * S, O + q_to * S
        if bop == "+":
            d = x_to - x_from
        elif bop == "-":
            d = x_from - x_to
        elif x_from == 0 or x_to == 0:
            return rng.choice([1.0, 2.0, 0.5, -1.0]), None
        elif bop == "*":
            d = x_to / x_from
        else:
            d = x_from / x_to
        try:
            d = float(d)
        except OverflowError:
            d = 1e300
        return d, at

    def gen_inplace(self, mode=None, route=None, bop=None, axis=None):
        rng = self.rng
        las = self.las
        n = self.n
        route = route or rng.choice(["attr", "attr", "attr", "item", "pattr", "pattr", "pitem", "viewall", "view", "view", "sub", "bare"])
        if route == "sub" and n < 2:
            route = "pattr"
        if route == "view" and n == 0:
            route = "viewall"
        axis = rng.randrange(3) if axis is None else axis
        bop = bop or rng.choice(["+", "+", "+", "-", "-", "-", "*", "/"])
        mode = mode or rng.choice(["fit", "fit", "hi", "lo", "hi", "lo", "nonfinite", "random"])
        op = {"op": "IP", "route": route, "axis": axis, "bop": bop, "mode": mode}
        S, O = (las.header.scales, las.header.offsets) if route == "attr" else (las.points.scales, las.points.offsets)
        s, o = float(S[axis]), float(O[axis])
        positions = list(range(n))
        if route == "view":
            op["key"] = rng.choice([k for k in ("int", "slice1", "step2", "mask", "list") if n >= 2 or k in ("int", "step2", "list")])
            op["at"] = rng.randrange(n)
            positions = key_positions(op["key"], n, op["at"])
        elif route == "sub":
            op["key"] = rng.choice(["slice1", "step2"])
            positions = key_positions(op["key"], n)
        if route in ("view", "viewall", "bare"):
            op["target"] = rng.choice(["las.x", "las['x']", "las.points.x", "las.points['x']"])
        if route == "pattr":
            op["target"] = rng.choice(["las.points", "rec"])
        xs = [fls(np.asarray(getattr(las, AX[axis])))[i] for i in positions]
        d, at = self.gen_delta(mode, bop, xs, s, o)
        form = rng.choice(["float", "float", "np", "array", "array"])
        if form == "float" and math.isfinite(d) and d == int(d) and abs(d) < 2 ** 53 and rng.random() < 0.5:
            form = "int"
        if form == "array" and (not positions or (route == "view" and op["key"] == "int")):
            form = "float"
        if form == "array":
            # one operand per point: the chosen point gets d, the others move by about a step (they stay where they are in the window)
            small = {"+": s, "-": s, "*": 1.0, "/": 1.0}[bop]
            ds = [d if (at is None or j == at) else rng.choice([small, small, 0.0 if bop in "+-" else 1.0, -small if bop in "+-" else 1.0]) for j in range(len(positions))]
        else:
            ds = [d] * len(positions)
        op["d"], op["form"], op["ds"] = d, form, ds
        return op

    def gen_items(self):
        """las[['x', 'y', 'z']] = (m, 3) array / las.points[('x', 'y', 'z')] = ... : the record's own scaling"""
        rng = self.rng
        las = self.las
        m = self.n
        if rng.random() < (0.8 if self.n == 0 else 0.15):
            m = self.n + rng.choice([1, 2, 3])
        bad = rng.random() < 0.2
        cols = [self.near_grid(float(las.points.scales[a]), float(las.points.offsets[a]), m, bad and rng.random() < 0.5) for a in range(3)]
        return {"op": "SX", "cols": cols, "target": rng.choice(["las", "points", "points-tuple", "struct"])}

    # ---- op execution ----
    def build_value(self, src):
        """the Python object assigned, and for a view of another record: (its owner's state before, a function giving its state now)"""
        import laspy
        las = self.las
        k = src["k"]
        if k == "vals":
            f = src.get("form", "array")
            if f == "scalar":
                return src["vals"][0], None
            if f == "npscalar":
                return np.float64(src["vals"][0]), None
            if f == "list":
                return [float(v) for v in src["vals"]], None
            if f == "tuple":
                return tuple(float(v) for v in src["vals"]), None
            a = np.array(src["vals"], dtype=np.float64)
            with np.errstate(over="ignore"):
                if f == "f32" and all(float(np.float32(v)) == v for v in src["vals"]):
                    a = a.astype(np.float32)
            return a, None
        if k == "subfield":
            rec = laspy.PackedPointRecord.zeros(len(src["vals"]), laspy.PointFormat(self.fmt))
            rec.return_number = np.array(src["vals"], dtype=np.uint8)
            return rec.return_number, None
        if k == "self":
            v = getattr(las, AX[src["axis"]])
            if src["how"] == "view":
                return v, None
            if src["how"] == "rev":
                return v[::-1], None
            return v[list(src["idx"])], None
        # another record holding src["ints"] under (s, o) on the assigned axis' own dimension
        how = src["how"]
        ints = list(src["ints"])
        lead = 1 if how == "slice" else 0
        a = src.get("on", 0)
        sc = [1.0, 1.0, 1.0]
        of = [0.0, 0.0, 0.0]
        sc[a], of[a] = src["s"], src["o"]
        if how == "rec":
            owner = new_record(len(ints) + lead, sc, of, self.fmt)
            rec = owner
        else:
            hdr = laspy.LasHeader(point_format=self.fmt, version=self.version)
            hdr.scales = np.array(sc, dtype=np.float64)
            hdr.offsets = np.array(of, dtype=np.float64)
            owner = laspy.LasData(hdr, laspy.PackedPointRecord.zeros(len(ints) + lead, hdr.point_format))
            rec = owner.points
        rec.array["XYZ"[a]] = np.array([7] * lead + ints, dtype=np.int32)
        view = owner[AX[a]] if how == "item" else getattr(owner, AX[a])
        if lead:
            view = view[1:]
        state = lambda: (rec.array.tobytes(), fls(rec.scales), fls(rec.offsets))   # noqa: E731
        return view, (state(), state, fls(np.asarray(view)))

    def apply(self, op):
        import laspy
        las = self.las
        kind = op["op"]
        before = self.last       # nothing happens between two operations: the snapshot taken after the previous one
        out = ("none",)
        info = None
        try:
            if kind == "RS":
                las.header.scales = np.array(op["a"], dtype=np.float64)
            elif kind == "RO":
                las.header.offsets = np.array(op["a"], dtype=np.float64)
            elif kind == "MS":
                v = np.float64(op["v"]) if op.get("np") else op["v"]
                if op.get("el"):
                    las.header.scales[op["axis"]] = v
                else:
                    setattr(las.header, AX[op["axis"]] + "_scale", v)
            elif kind == "MO":
                v = np.float64(op["v"]) if op.get("np") else op["v"]
                if op.get("el"):
                    las.header.offsets[op["axis"]] = v
                else:
                    setattr(las.header, AX[op["axis"]] + "_offset", v)
            elif kind == "PRS":
                las.points.scales = np.array(op["a"], dtype=np.float64)
            elif kind == "PRO":
                las.points.offsets = np.array(op["a"], dtype=np.float64)
            elif kind == "PMS":
                las.points.scales[op["axis"]] = op["v"]
            elif kind == "PMO":
                las.points.offsets[op["axis"]] = op["v"]
            elif kind == "V":
                info = self.assign_value(op)
            elif kind == "IP":
                info = self.inplace(op)
            elif kind == "SX":
                arr = np.array(op["cols"], dtype=np.float64).T.reshape(-1, 3)
                if op["target"] == "struct":      # a structured array: one named field per dimension
                    rec = np.zeros(len(arr), dtype=[("x", "f8"), ("y", "f8"), ("z", "f8")])
                    for i_, nm_ in enumerate(AX):
                        rec[nm_] = arr[:, i_]
                    las[["x", "y", "z"]] = rec
                elif op["target"] == "las":
                    las[["x", "y", "z"]] = arr
                elif op["target"] == "points":
                    las.points[["x", "y", "z"]] = arr
                else:
                    las.points[("x", "y", "z")] = arr
            elif kind == "WO":
                self.open_session(op)
            elif kind == "WE":
                self.edit_handed_header(op)
            elif kind == "WW":
                info = self.session_info()
                if self.sess is not None:
                    w = self.sess["w"]
                    (w.append_points if self.sess["via"] == "appender" else w.write_points)(las.points)
                    self.sess["chunks"].append({"xyz": before["xyz"], "ints": before["ints"], "rs": before["rs"], "ro": before["ro"]})
            elif kind == "WC":
                info = self.session_info()
                if self.sess is not None:
                    sess, self.sess = self.sess, None
                    how = op.get("how", "close")
                    if how == "close":
                        sess["w"].close()
                    elif how == "with":
                        sess["w"].__exit__(None, None, None)
                    else:                       # the with block is left by an exception of the caller's
                        try:
                            with sess["w"]:
                                raise KeyError("caller's own error")
                        except KeyError:
                            pass
                    data = sess["bio"].getvalue()
                    out = ("file", read_file(data), sess["ws0"], sess["wo0"], file_presentations(data), 0)
            elif kind in ("A", "P"):
                tgt = las if kind == "A" else las.points
                val = op["vals"][0] if op.get("scalar") else np.array(op["vals"], dtype=np.float64)
                setattr(tgt, AX[op["axis"]], val)
            elif kind == "X":
                las.xyz = np.array(op["cols"], dtype=np.float64).T.reshape(-1, 3)
            elif kind == "C":
                las.change_scaling(scales=None if op["s"] is None else np.array(op["s"], dtype=np.float64),
                                   offsets=None if op["o"] is None else np.array(op["o"], dtype=np.float64))
            elif kind == "W":
                hs, ho = frs(las.header.scales), frs(las.header.offsets)
                bio = io.BytesIO()
                las.write(bio)
                out = ("file", read_file(bio.getvalue()), hs, ho, file_presentations(bio.getvalue()), 0)
            elif kind == "S":
                out = self.stream(op)
        except Exception as ex:
            out = ("err", common.exc_kind(ex), str(ex)[:80])
            if kind in ("V", "IP"):
                info = self.vinfo
        after = snapshot(las)
        self.last = after
        self.n = len(las.points)
        self.steps.append((op, out, after))
        self.obs.append((op, before, out, after, info))
        return out

    def assign_value(self, op):
        las = self.las
        op["n_at"] = len(las.points)
        value, owner = self.build_value(op["src"])
        self.vinfo = info = {"shown": owner[2] if owner else None, "owner_changed": False}
        nm = AX[op["axis"]]
        route = op["route"]
        if route == "view" and op["key"] == "int" and not isinstance(value, (float, np.floating)):
            value = value[0]            # one point takes one number: an element of the view (its scaled value) or of the array
        try:
            if route == "attr":
                setattr(las, nm, value)
            elif route == "item":
                las[nm] = value
            elif route == "pitem":
                las.points[nm] = value
            elif route == "pattr":
                setattr(las.points, nm, value)
            else:
                tg = op.get("target", "las.x")
                view = (getattr(las, nm) if tg == "las.x" else las[nm] if tg == "las['x']" else getattr(las.points, nm) if tg == "las.points.x"
                        else las.points[nm])
                if route == "viewall":
                    view[:] = value
                else:
                    view[key_object(op["key"], len(las.points), op.get("at", 0))] = value
        finally:
            if owner:
                info["owner_changed"] = owner[1]() != owner[0]
        return info

    def inplace(self, op):
        """an augmented assignment, written as the statement it is (Python: evaluate the target once, the view's in-place operator
        when it has one - else its binary operator -, then store the result back by the same route)"""
        import warnings
        las = self.las
        nm = AX[op["axis"]]
        op["n_at"] = n = len(las.points)
        form = op["form"]
        d = (float(op["d"]) if form == "float" else np.float64(op["d"]) if form == "np" else int(op["d"]) if form == "int"
             else np.array(op["ds"], dtype=np.float64))
        env = {"las": las, "d": d, "rec": las.points, "np": np}
        tg = op.get("target", "las.x").replace("x", nm) if op.get("target", "").startswith("las") else None
        b = op["bop"]
        r = op["route"]
        if r == "attr":
            src = f"las.{nm} {b}= d"
        elif r == "item":
            src = f"las['{nm}'] {b}= d"
        elif r == "pattr":
            src = f"{op.get('target', 'las.points')}.{nm} {b}= d"
        elif r == "pitem":
            src = f"las.points['{nm}'] {b}= d"
        elif r == "viewall":
            src = f"{tg}[:] {b}= d"
        elif r == "view":
            env["k"] = key_object(op["key"], n, op.get("at", 0))
            src = f"{tg}[k] {b}= d"
        elif r == "sub":
            env["k"] = key_object(op["key"], n)
            src = f"sub = las.points[k]\nsub.{nm} {b}= d"
        else:
            src = f"v = {tg}\nv {b}= d"
        op["stmt"] = src.replace("\n", "; ")
        self.vinfo = info = {"bare": None}
        with warnings.catch_warnings():
            warnings.simplefilter("ignore")
            try:
                exec(src, env)
            finally:
                if r == "bare" and "v" in env:
                    v = env["v"]
                    try:
                        info["bare"] = (type(v).__name__, fls(np.asarray(v)))
                    except Exception as ex:      # noqa
                        info["bare"] = (type(v).__name__, common.exc_kind(ex))
        return info

    def session_info(self):
        s = self.sess
        if s is None:
            return None
        return {"ws0": s["ws0"], "wo0": s["wo0"], "chunks": list(s["chunks"]), "pre": s["pre"], "via": s["via"], "hdr": s["hdrkind"]}

    def open_session(self, op):
        import laspy
        las = self.las
        if self.sess is not None:       # only in shrunk / replayed histories: the previous writer is dropped
            self.sess = None
        bio = io.BytesIO()
        pre = [[], [], []]
        handed = None
        if op["hdr"] == "caller":
            hdr = las.header
            ws0, wo0 = frs(las.header.scales), frs(las.header.offsets)
        else:
            hdr = laspy.LasHeader(point_format=self.fmt, version=self.version)
            hdr.scales = np.array(op["ws"], dtype=np.float64)
            hdr.offsets = np.array(op["wo"], dtype=np.float64)
            ws0, wo0 = frs(op["ws"]), frs(op["wo"])
            handed = hdr
        if op["via"] == "appender":
            pre = [list(c) for c in op["pre"]]
            with laspy.open(bio, mode="w", header=hdr, closefd=False) as w0:
                if pre[0]:
                    first = laspy.ScaleAwarePointRecord.zeros(len(pre[0]), header=hdr)
                    for d, col in zip("XYZ", pre):
                        first.array[d] = np.array(col, dtype=np.int32)
                    w0.write_points(first)
            bio.seek(0)
            w = laspy.open(bio, mode="a", closefd=False)
        elif op["via"] == "LasWriter":
            w = laspy.LasWriter(bio, hdr, closefd=False)
        else:
            w = laspy.open(bio, mode="w", header=hdr, closefd=False)
        self.sess = {"w": w, "bio": bio, "ws0": ws0, "wo0": wo0, "chunks": [], "pre": pre, "via": op["via"], "hdr": handed, "hdrkind": op["hdr"]}

    def edit_handed_header(self, op):
        """the caller goes on using the header object it handed to the writer (not the LasData's own header)"""
        if self.sess is None or self.sess["hdr"] is None:
            return
        h = self.sess["hdr"]
        arr = "scales" if op["what"] == "scale" else "offsets"
        if op["inplace"]:
            getattr(h, arr)[op["axis"]] = op["v"]
        else:
            a = np.array(getattr(h, arr), dtype=np.float64)
            a[op["axis"]] = op["v"]
            setattr(h, arr, a)

    def stream(self, op):
        import laspy
        las = self.las
        hdr2 = laspy.LasHeader(point_format=self.fmt, version=self.version)
        hdr2.scales = np.array(op["ws"], dtype=np.float64)
        hdr2.offsets = np.array(op["wo"], dtype=np.float64)
        hs, ho = frs(hdr2.scales), frs(hdr2.offsets)
        pts = las.points
        n = len(pts)
        if op["chunk"] == -1 and n > 0:
            chunks = [pts[i] for i in range(n)]          # point by point, each a one-point (0-d) record sharing the record's memory
        else:
            chunks = [pts] if op["chunk"] <= 0 or n == 0 else [pts[i:i + op["chunk"]] for i in range(0, n, op["chunk"])]
        skip = 0
        if op["via"] == "writer":
            bio = io.BytesIO()
            with laspy.open(bio, mode="w", header=hdr2, closefd=False) as w:
                for c in chunks:
                    w.write_points(c)
        else:
            bio = io.BytesIO()
            with laspy.open(bio, mode="w", header=hdr2, closefd=False) as w:
                if op["via"] == "appender":
                    first = laspy.ScaleAwarePointRecord.zeros(2, header=hdr2)
                    w.write_points(first)
                    skip = 2
            bio.seek(0)
            with laspy.open(bio, mode="a", closefd=False) as ap:
                for c in chunks:
                    ap.append_points(c)
        f = read_file(bio.getvalue())
        f["ints"] = [col[skip:] for col in f["ints"]]
        return ("file", f, hs, ho, file_presentations(bio.getvalue()), skip)

    # ---- model command ----
    def op_tok(self, op):
        k = op["op"]
        if k in ("RS", "RO"):
            return f"{k}:{ftoks(op['a'])}"
        if k in ("MS", "MO"):
            return f"{k}:{op['axis']}:{ftok(op['v'])}"
        if k in ("A", "P"):
            return f"{k}:{op['axis']}:{ftoks(op['vals'])}"
        if k == "X":
            return "X:" + ":".join(ftoks(c) for c in op["cols"])
        if k == "C":
            return f"C:{'-' if op['s'] is None else ftoks(op['s'])}:{'-' if op['o'] is None else ftoks(op['o'])}"
        if k == "W":
            return "W"
        if k in ("PRS", "PRO"):
            return f"{k}:{ftoks(op['a'])}"
        if k in ("PMS", "PMO"):
            return f"{k}:{op['axis']}:{ftok(op['v'])}"
        if k == "SX":
            return "SX:" + ":".join(ftoks(c) for c in op["cols"])
        if k == "V":
            src = op["src"]
            if src["k"] in ("vals", "subfield"):
                v = "v=" + ftoks(src["vals"])
            elif src["k"] == "self":
                v = f"s={src['axis']}={zl(src['idx'])}"
            else:
                v = f"o={zl(src['ints'])}={ftok(src['s'])}={ftok(src['o'])}"
            r = op["route"]
            if r == "view":
                return f"SV:{op['axis']}:{zl(key_positions(op['key'], op['n_at'], op.get('at', 0)))}:{v}"
            return f"{'SA' if r == 'attr' else 'SI' if r in ('item', 'pitem') else 'SP'}:{op['axis']}:{v}"
        if k == "IP":
            r = op["route"]
            if r == "bare":
                return None      # `v = las.x; v += d` rebinds v (the views have no in-place operator): nothing of the LasData may change
            pos = key_positions(op["key"], op["n_at"], op.get("at", 0)) if r in ("view", "sub") else list(range(op["n_at"]))
            bn, ds = BOP_NAME[op["bop"]], op["ds"]
            if bn == "div" and ds and all(math.isinf(x) for x in ds):
                bn, ds = "mul", [0.0] * len(ds)      # the model has ONE non-finite value: x / +-inf (the finite +-0) is given to it as x * 0
            v = f"p={op['axis']}={zl(pos)}={bn}={ftoks(ds)}"
            if r in ("view", "sub"):
                return f"SV:{op['axis']}:{zl(pos)}:{v}"
            return f"{'SA' if r == 'attr' else 'SI' if r in ('item', 'pitem') else 'SP'}:{op['axis']}:{v}"
        if k == "WO":
            if op["hdr"] == "caller":
                return "WO"
            return f"WO:{ftoks(op['ws'])}:{ftoks(op['wo'])}:{';'.join(zl(c) for c in op['pre'])}"
        if k == "WE":
            return None          # the header object handed to the writer is not part of the model's state: nothing may change
        if k in ("WW", "WC"):
            return k
        return f"S:{ftoks(op['ws'])}:{ftoks(op['wo'])}"

    def command(self):
        i = self.init
        cols = ";".join(zl(c) for c in i["cols"])
        toks = [self.op_tok(op) for op, _, _ in self.steps]
        ops = "|".join(x for x in toks if x is not None) or "-"
        return f"shist {ftoks(i['scales'])} {ftoks(i['offsets'])} {cols} {ops}"


def parse_state(tok):
    f = tok.split(" ")
    return {"ints": [[] if c == "-" else [int(v) for v in c.split(",")] for c in f[0].split(";")],
            "rs": tokfs(f[1]), "ro": tokfs(f[2]), "hs": tokfs(f[3]), "ho": tokfs(f[4]),
            "alias_s": f[5] == "T", "alias_o": f[6] == "T", "xyz": [tokfs(c) for c in f[7].split(";")]}


def parse_out(tok):
    f = tok.split(" ")
    if f[0] == "-":
        return ("none",)
    if f[0] == "err":
        return ("err", f[1])
    return ("file", {"scales": tokfs(f[1]), "offsets": tokfs(f[2]),
                     "ints": [[] if c == "-" else [int(v) for v in c.split(",")] for c in f[3].split(";")]})


def scale_in_force(op, h, i):
    """(scale, offset) as floats under which step i of h assigns (the header's for las.<axis> = ..., the record's otherwise)"""
    b = h.snap0 if i == 0 else h.steps[i - 1][2]
    a = op["axis"]
    s, o = (b["hs"][a], b["ho"][a]) if op["route"] == "attr" else (b["rs"][a], b["ro"][a])
    return (float(s) if s is not None else None, float(o) if o is not None else None)


STATE_KEYS = ("ints", "rs", "ro", "hs", "ho", "alias_s", "alias_o", "xyz")


def state_diff(m, im):
    for k in STATE_KEYS:
        if m[k] != im[k]:
            return k
    return routes_diff(m["xyz"], m["rs"], m["ro"], im)


def routes_diff(mxyz, mrs, mro, im):
    """the model presents a state through one function (f_presented): every route of the implementation must show its values
    (objects with a scaling of their own that differs from the record's are left to the oracle)"""
    if im.get("routes_err"):
        return "presentation raised " + im["routes_err"]
    if im.get("looked"):
        return "presentation modified " + im["looked"]
    mf = [[None if x is None else float(x) for x in c] for c in mxyz]       # the model's doubles travel as exact fractions
    mrsf = [None if x is None else float(x) for x in mrs]
    mrof = [None if x is None else float(x) for x in mro]
    for (name, idx, agg, cols, own) in im["routes"]:
        if own is not None and (own["rs"] != mrsf or own["ro"] != mrof):
            if own["keep"]:
                return f"scaling of {name}"
            continue
        for a in range(3):
            ref = [mf[a][i] for i in idx]
            if agg is not None and any(x is None for x in ref):
                continue
            if agg is not None:
                ref = [max(ref) if agg == "max" else min(ref)]
            if cols[a] != ref:
                return f"route {name} axis {AX[a]}"
    return None


def op_json(op):
    """floats travel as hex strings (exact), everything else as it is"""
    def enc(v):
        if isinstance(v, float):
            return v.hex()
        if isinstance(v, dict):
            return {k: enc(x) for k, x in v.items()}
        if isinstance(v, (list, tuple)):
            return [enc(x) for x in v]
        return v
    return enc(op)


def op_unjson(d):
    def dec(v):
        if isinstance(v, str) and (v.startswith("0x") or v.startswith("-0x")):
            return float.fromhex(v)
        if isinstance(v, dict):
            return {k: dec(x) for k, x in v.items()}
        if isinstance(v, list):
            return [dec(x) for x in v]
        return v
    return dec(d)


def init_json(i):
    return {"fmt": i["fmt"], "n": i["n"], "scales": [x.hex() for x in i["scales"]], "offsets": [x.hex() for x in i["offsets"]], "cols": i["cols"]}


def init_unjson(d):
    return {"fmt": d["fmt"], "n": d["n"], "scales": [float.fromhex(x) for x in d["scales"]],
            "offsets": [float.fromhex(x) for x in d["offsets"]], "cols": d["cols"]}


# ---------------------------------------------------------------------------------
# the property on the implementation (exact rationals, no model)
# ---------------------------------------------------------------------------------
def slack(x, o):
    """binary64 slack of round((x - o) / s) in units of the quotient, relative: two roundings"""
    return Fraction(1, 2 ** 51)


def oracle_store(s, o, v, res, untouched):
    """rec.<axis> = v under (s, o) gave res = ('ok', X) | ('err', kind)"""
    S, O, V = Fraction(s), Fraction(o), Fraction(v)
    q = (V - O) / S
    tol = abs(q) * slack(v, o)
    lo_ok = q - tol >= Fraction(INT_MIN) - Fraction(1, 2) and q + tol <= Fraction(INT_MAX) + Fraction(1, 2)
    must_fit = rhe(q - tol) >= INT_MIN and rhe(q + tol) <= INT_MAX and rhe(q - tol) <= INT_MAX and rhe(q + tol) >= INT_MIN
    must_fail = (rhe(q - tol) > INT_MAX and rhe(q + tol) > INT_MAX) or (rhe(q - tol) < INT_MIN and rhe(q + tol) < INT_MIN)
    if res[0] == "err":
        if res[1] != "EOverflow":
            return f"raised {res[1]} instead of OverflowError"
        if must_fit:
            return f"OverflowError although (v - offset) / scale = {show(q)} rounds into the int32 range"
        if not untouched:
            return "record modified although OverflowError was raised"
        return None
    X = res[1]
    if must_fail:
        return f"stored {X} although (v - offset) / scale = {show(q)} does not fit in int32 (wrap-around)"
    if abs(Fraction(X) - q) > Fraction(1, 2) + tol:
        return f"stored {X}, but (v - offset) / scale = {show(q)}: more than half a step away"
    if not untouched:
        return "another dimension or point changed"
    return None


def oracle_present(s, o, X, got):
    exact = Fraction(X) * Fraction(s) + Fraction(o)
    ref = float(X) * s + o       # the law in binary64
    for g, route in zip(got, PRES_ROUTES):
        if g != ref:
            return f"{route} presented {g!r}, X*scale+offset in binary64 is {ref!r}"
        m = max(abs(Fraction(X) * Fraction(s)), abs(exact), abs(Fraction(o)))
        if abs(Fraction(g) - exact) > 2 * Fraction(math.ulp(float(m))):
            return f"presented {g!r} is more than 2 ulp from the exact X*scale+offset"
    return None


def rescale_check(ints, xyz, ws, wo, what):
    """ints (3 columns) under scaling (ws, wo) against the doubles xyz presented before; None | message"""
    for k in range(3):
        if len(ints[k]) != len(xyz[k]):
            return f"{what}: {len(ints[k])} values on axis {AX[k]} for {len(xyz[k])} points"
        for X, xb in zip(ints[k], xyz[k]):
            if xb is None or ws[k] is None or wo[k] is None:
                continue
            if not (INT_MIN <= X <= INT_MAX):
                return f"{what}: integer {X} out of range"
            q = (xb - wo[k]) / ws[k]
            tol = abs(q) * Fraction(1, 2 ** 51)
            if abs(Fraction(X) - q) > Fraction(1, 2) + tol:
                return (f"{what}: axis {AX[k]} holds {X} where (x - offset) / scale = {show(q)} "
                        f"(presented before: {float(xb)!r}, scale {float(ws[k])!r}, offset {float(wo[k])!r})")
    return None


def fits_all(xyz, ws, wo):
    """(every point certainly fits, some point certainly does not fit) under (ws, wo)"""
    all_fit, some_out = True, False
    for k in range(3):
        for xb in xyz[k]:
            if xb is None or ws[k] is None or wo[k] is None or ws[k] == 0:
                all_fit = False
                continue
            q = (xb - wo[k]) / ws[k]
            tol = abs(q) * Fraction(1, 2 ** 51)
            a, b = rhe(q - tol), rhe(q + tol)
            if not (INT_MIN <= a and b <= INT_MAX):
                all_fit = False
            if (a > INT_MAX and b > INT_MAX) or (a < INT_MIN and b < INT_MIN):
                some_out = True
    return all_fit, some_out


def caller_unchanged(before, after):
    for k in ("raw", "ints", "rs", "ro", "hs", "ho", "xyz", "alias_s", "alias_o", "routes"):
        if before[k] != after[k]:
            return k
    return None


def route_class(name):
    """stable class of a route name: the digits of chunk sizes and indices do not make another kind"""
    import re
    return re.sub(r"\d+", "k", name)


def oracle_routes(state, when):
    """every presentation route of a state (a LasData after an operation, or a written file as the readers show it) against the
    law: the values shown are X*scale+offset, in binary64, of the stored integers under the current scaling - of the record
    itself, and for an object derived from it (sub-record, chunk, LasData of some points) of that object's own integers,
    which are the record's, and own scaling, which is the record's when the object is a part of that record.
    None | (kind, message)"""
    if state.get("routes_err"):
        return ("presentation raised", f"{when}: presenting the coordinates raised {state['routes_err']}")
    if state.get("looked"):
        return ("presentation modified", f"{when}: {state['looked']} of the LasData changed by reading its coordinates")
    for (name, idx, agg, cols, own) in state["routes"]:
        rs, ro = state["rsf"], state["rof"]
        ints = [[state["ints"][a][i] for i in idx] for a in range(3)]
        if own is not None:
            if own["ints"] != ints:
                return (f"integers of {route_class(name)}", f"{when}: {name} holds the integers {own['ints']}, the record holds {ints} for these points")
            if own["keep"] and (own["rs"] != rs or own["ro"] != ro):
                return (f"scaling of {route_class(name)}", f"{when}: {name} carries the scaling {own['rs']} {own['ro']}, not the current one {rs} {ro}")
            rs, ro = own["rs"], own["ro"]
        for a in range(3):
            if not (math.isfinite(rs[a]) and math.isfinite(ro[a])):
                continue
            ref = [float(X) * rs[a] + ro[a] for X in ints[a]]
            if agg is not None:
                ref = [max(ref) if agg == "max" else min(ref)]
            got = cols[a]
            if got == ref:
                continue
            cls = route_class(name)
            if len(got) != len(ref):
                return (f"presented via {cls}", f"{when}: {name} shows {len(got)} values on axis {AX[a]} for {len(ref)} points")
            for j, (g, e) in enumerate(zip(got, ref)):
                if g != e:
                    return (f"presented via {cls}", f"{when}: {name} shows {AX[a]} = {g!r}"
                                                    f"{'' if agg else f' for point {idx[j]}'}, X*scale+offset = {e!r} "
                                                    f"(X = {ints[a][j] if not agg else ints[a]}, scale {rs[a]!r}, offset {ro[a]!r})")
    return None


def oracle_file(out, what):
    """a written file: what laspy.read gave is what the bytes say, and every reader presents the law under the file's scaling"""
    f, fp, skip = out[1], out[4], out[5]
    if f["scales"] != fp["rs"] or f["offsets"] != fp["ro"]:
        return (f"{what} header read", f"laspy.read shows the scaling {[float(x) for x in f['scales']]} {[float(x) for x in f['offsets']]}, "
                                       f"the bytes say {[float(x) for x in fp['rs']]} {[float(x) for x in fp['ro']]}")
    if f["ints"] != [c[skip:] for c in fp["ints"]]:
        return (f"{what} integers read", f"laspy.read shows the integers {f['ints']}, the bytes say {[c[skip:] for c in fp['ints']]}")
    r = oracle_routes(fp, f"reading the file of the {what}")
    if r:
        return (f"{what} file: " + r[0], r[1])
    return None


def src_expected(src, before):
    """the coordinates a value presents, one per point assigned (Fractions): what the assignment must store the nearest integers of"""
    k = src["k"]
    if k in ("vals", "subfield"):
        return [fr(v) for v in src["vals"]]
    if k == "self":
        col = before["xyz"][src["axis"]]
        return [col[i] for i in src["idx"]]
    return [fr(float(X) * src["s"] + src["o"]) for X in src["ints"]]      # the law, in binary64, for the other record


def oracle_assign(before, after, out, a, vals, positions, s, o, grows, takes_header, label):
    """an assignment of vals (Fractions) to axis a under the scaling (s, o) in force: to the whole column (positions None; the record
    grows first when the route allows it) or to the points `positions`"""
    n = len(before["ints"][0])
    m = len(vals)
    if s is None or o is None or s == 0:
        return None
    nonfinite = any(v is None for v in vals)        # a coordinate that is nan / inf cannot be represented: OverflowError, nothing stored
    cols = before["ints"]
    mismatch = False
    if positions is None:
        if grows and m > n:
            cols = [c + [0] * (m - n) for c in cols]
        elif m != n and m != 0:
            mismatch = True                 # cannot be broadcast
        positions = list(range(m))
    elif m != len(positions):
        mismatch = True
    if takes_header and (after["rs"] != before["hs"] or after["ro"] != before["ho"]):
        return (f"assign scaling ({label})", "after the assignment the record does not use the header's scaling")
    if not takes_header and (after["rs"] != before["rs"] or after["ro"] != before["ro"] or after["hs"] != before["hs"] or after["ho"] != before["ho"]):
        return (f"assign changed the scaling ({label})", "the assignment changed the scaling of the record or of the header")
    if m == 0:
        if out[0] == "err":
            return (f"assign raised ({label})", f"an empty value raised {out[1]}: {out[2]}")
        return None if after["ints"] == before["ints"] else (f"assign empty modified ({label})", "an empty value changed the integers")
    fin = [v for v in vals if v is not None]
    qs = [(v - o) / s for v in fin]
    tols = [abs(q) * Fraction(1, 2 ** 51) for q in qs]
    certainly_fit = not nonfinite and all(INT_MIN <= rhe(q - t) and rhe(q + t) <= INT_MAX for q, t in zip(qs, tols))
    certainly_out = nonfinite or any((rhe(q - t) > INT_MAX and rhe(q + t) > INT_MAX) or (rhe(q - t) < INT_MIN and rhe(q + t) < INT_MIN)
                                     for q, t in zip(qs, tols))
    if out[0] == "err":
        if not ((out[1] == "EOverflow" and not certainly_fit) or (out[1] == "EValue" and mismatch)):
            if out[1] == "EOverflow":
                return (f"assign refused ({label})", "OverflowError although every value fits: " + ", ".join(show(q) for q in qs[:4]))
            return (f"assign raised ({label})", f"raised {out[1]}: {out[2]}")
        if after["ints"] != before["ints"]:
            return (f"assign failed modified ({label})", f"integers changed although {out[1]} was raised")
        return None
    if mismatch:
        return (f"assign mismatch accepted ({label})", f"{m} values were accepted for {len(positions) if positions else n} points")
    if certainly_out:
        return (f"assign wrapped ({label})", f"a value that does not fit was stored: {after['ints'][a]} (before: {before['ints'][a]}) for "
                f"(v - offset) / scale = " + ", ".join("non-finite" if v is None else show((v - o) / s) for v in vals[:6]))
    if [len(c) for c in after["ints"]] != [len(c) for c in cols]:
        return (f"assign length ({label})", f"{len(after['ints'][a])} points after assigning {m} values to a record of {n}")
    want = {}
    for pos, q, tl in zip(positions, qs, tols):
        want[pos] = (q, tl)                     # a repeated index: the last value wins
    for i, X in enumerate(after["ints"][a]):
        if i in want:
            q, tl = want[i]
            if abs(Fraction(X) - q) > Fraction(1, 2) + tl:
                return (f"assign half step ({label})", f"axis {AX[a]} point {i} stored {X} for (v - offset) / scale = {show(q)} "
                                                       f"(scale {float(s)!r}, offset {float(o)!r})")
        elif X != cols[a][i]:
            return (f"assign other point ({label})", f"point {i} of {AX[a]} changed from {cols[a][i]} to {X} although it was not assigned")
    for b in range(3):
        if b != a and after["ints"][b] != cols[b]:
            return (f"assign other axis ({label})", f"assigning {AX[a]} changed the integers of {AX[b]}")
    return None


def oracle_session_file(out, info):
    """the file of a closed writer / appender session against the scaling the writer was opened with and the chunks it was given"""
    fp = out[4]
    ws, wo = info["ws0"], info["wo0"]
    what = f"session via {info['via']} ({info['hdr']} header)"
    if fp["rs"] != ws or fp["ro"] != wo:
        return (f"{what} scaling", f"the file carries the scaling {fp['rsf']} {fp['rof']}, the writer was opened with "
                                   f"{[float(x) for x in ws]} {[float(x) for x in wo]}")
    pre = info["pre"]
    pos = len(pre[0])
    total = pos + sum(len(c["ints"][0]) for c in info["chunks"])
    if [len(c) for c in fp["ints"]] != [total] * 3:
        return (f"{what} count", f"the file holds {len(fp['ints'][0])} points, {total} were written")
    if [c[:pos] for c in fp["ints"]] != pre:
        return (f"{what} existing points", "the points the file held before the appender was opened changed")
    for j, c in enumerate(info["chunks"]):
        cn = len(c["ints"][0])
        seg = [col[pos:pos + cn] for col in fp["ints"]]
        pos += cn
        if cn == 0:
            continue
        if c["rs"] == ws and c["ro"] == wo:
            if seg != c["ints"]:
                return (f"{what} integers", f"chunk {j}: same scaling but the file's integers {seg} differ from the record's {c['ints']}")
            continue
        if fits_all(c["xyz"], ws, wo)[1]:
            return (f"{what} wrapped", f"chunk {j}: a coordinate that does not fit under the writer's scaling was written ({seg})")
        msg = rescale_check(seg, c["xyz"], ws, wo, f"chunk {j}")
        if msg:
            return (f"{what} half step", msg)
    return None


def oracle_step(op, before, out, after, info=None):
    """the property on one observed operation; returns None | (kind, message)"""
    k = op["op"]
    n = len(before["ints"][0])
    # always: what is presented is X*scale+offset under the record's current scaling
    for a in range(3):
        for X, x in zip(after["ints"][a], after["xyz"][a]):
            s, o = after["rs"][a], after["ro"][a]
            if x is None or s is None or o is None:
                continue
            ref = float(X) * float(s) + float(o)
            if float(x) != ref:
                return ("presented", f"after {k}: {AX[a]} shows {float(x)!r}, X*scale+offset = {ref!r}")
    # ... through every route
    r = oracle_routes(after, "initially" if k == "INIT" else f"after {k}")
    if r:
        return r
    if k == "INIT":
        return None
    if out[0] == "file":
        r = oracle_file(out, "write" if k == "W" else "session" if k == "WC" else f"stream via {op['via']}")
        if r:
            return r
    if k in ("RS", "RO", "MS", "MO", "PRS", "PRO", "PMS", "PMO"):
        if out[0] != "none":
            return ("scaling edit", f"{k} raised {out}")
        if after["ints"] != before["ints"]:
            return ("scaling edit", f"{k} changed the record's integers")
        return None
    if k in ("WO", "WE"):
        if out[0] != "none":
            return ("session open" if k == "WO" else "edit of the handed header", f"raised {out}")
        ch = caller_unchanged(before, after)
        if ch:
            return ("caller's LasData after " + ("opening a writer" if k == "WO" else "editing the header handed to the writer"),
                    f"{ch} of the caller's LasData changed")
        return None
    if k == "WW":
        if info is None:
            return None
        ch = caller_unchanged(before, after)
        if ch:
            return ("caller's record after session write" + (" (failed)" if out[0] == "err" else ""), f"{ch} of the caller's LasData differs")
        ws, wo = info["ws0"], info["wo0"]
        same = before["rs"] == ws and before["ro"] == wo
        all_fit, some_out = (True, False) if (same or n == 0) else fits_all(before["xyz"], ws, wo)
        if out[0] == "err":
            if out[1] != "EOverflow":
                return (f"session write raised", f"raised {out[1]}: {out[2]}")
            if all_fit:
                return (f"session write refused", "OverflowError although every coordinate fits under the scaling the writer was opened with")
        return None
    if k == "WC":
        if info is None:
            return None
        if out[0] != "file":
            return ("session close raised", f"{out}")
        ch = caller_unchanged(before, after)
        if ch:
            return ("caller's record after session close", f"{ch} of the caller's LasData differs")
        return oracle_session_file(out, info)
    if k == "V":
        route, a, src = op["route"], op["axis"], op["src"]
        label = {"attr": "las.x =", "item": "las['x'] =", "pitem": "las.points['x'] =", "pattr": "las.points.x =", "viewall": "las.x[:] =",
                 "view": "las.x[key] ="}[route] + " " + {"vals": "array", "subfield": "sub-field view", "self": "own view", "other": "view"}[src["k"]]
        if info and info.get("shown") is not None:
            ref = [float(X) * src["s"] + src["o"] for X in src["ints"]]
            if info["shown"] != ref:
                return ("value view presented", f"the assigned view shows {info['shown']}, X*scale+offset = {ref}")
        if info and info.get("owner_changed"):
            return (f"assign modified the value's owner ({label})", "the record whose view was assigned changed")
        s, o = (before["hs"][a], before["ho"][a]) if route == "attr" else (before["rs"][a], before["ro"][a])
        positions = key_positions(op["key"], n, op.get("at", 0)) if route == "view" else None
        return oracle_assign(before, after, out, a, src_expected(src, before), positions, s, o,
                             route in ("attr", "item", "pitem"), route == "attr", label)
    if k == "IP":
        route, a, b = op["route"], op["axis"], op["bop"]
        what = {"attr": "las.x", "item": "las['x']", "pattr": "las.points.x", "pitem": "las.points['x']", "viewall": "las.x[:]", "view": "las.x[key]",
                "sub": "las.points[a:b].x", "bare": "v = las.x; v"}[route]
        label = f"{what} {b}= " + ("non-finite" if not all(math.isfinite(x) for x in op["ds"]) else "array" if op["form"] == "array" else "scalar")
        positions = key_positions(op["key"], n, op.get("at", 0)) if route in ("view", "sub") else None
        shown = before["xyz"][a] if positions is None else [before["xyz"][a][i] for i in positions]
        vals = combine64(shown, op["ds"], b) if shown else []
        s, o = (before["hs"][a], before["ho"][a]) if route == "attr" else (before["rs"][a], before["ro"][a])
        if route == "bare":
            # a view held in a variable: either the operator gives a new array (nothing of the LasData changes, what v
            # shows is the coordinates combined with d), or it stores through the view - then as any assignment
            same = all(after[key] == before[key] for key in ("ints", "rs", "ro", "hs", "ho"))
            if same and out[0] == "none":
                if info and info.get("bare") and isinstance(info["bare"][1], list):
                    got = [fr(x) for x in info["bare"][1]]
                    if got != vals and info["bare"][0] != "ScaledArrayView":
                        return (f"in-place result ({label})", f"{op.get('stmt')}: v shows {info['bare'][1][:4]}, the coordinates combined with d are "
                                                              f"{[None if x is None else float(x) for x in vals[:4]]}")
                return None
            positions = list(range(n))
        return oracle_assign(before, after, out, a, vals, positions, s, o, route in ("attr", "item", "pitem"), route == "attr", label)
    if k in ("W", "S"):
        ch = caller_unchanged(before, after)
        if ch:
            return (f"caller's record after {'write' if k == 'W' else 'stream'}" + (" (failed)" if out[0] == "err" else ""),
                    f"{ch} of the caller's LasData differs after the {'failed ' if out[0] == 'err' else ''}write")
        ws, wo = (before["hs"], before["ho"]) if k == "W" else (frs(op["ws"]), frs(op["wo"]))
        same = before["rs"] == ws and before["ro"] == wo
        all_fit, some_out = (True, False) if (same or n == 0) else fits_all(before["xyz"], ws, wo)
        what = "write" if k == "W" else f"stream via {op['via']}"
        if out[0] == "err":
            if out[1] != "EOverflow":
                return (f"{what} raised", f"raised {out[1]}: {out[2]}")
            if all_fit:
                return (f"{what} refused", "OverflowError although every coordinate fits under the writer's scaling")
            return None
        f = out[1]
        if f["scales"] != ws or f["offsets"] != wo:
            return (f"{what} scaling", f"file scaling {[float(x) for x in f['scales']]} {[float(x) for x in f['offsets']]} is not the header's")
        if some_out:
            return (f"{what} wrapped", f"a coordinate that does not fit was written (file integers {f['ints']})")
        if same:
            if f["ints"] != before["ints"]:
                return (f"{what} integers", "same scaling but the file's integers differ from the record's")
            return None
        msg = rescale_check(f["ints"], before["xyz"], ws, wo, what)
        if msg:
            return (f"{what} half step", msg)
        return None
    if k in ("A", "P"):
        a = op["axis"]
        s, o = (before["hs"][a], before["ho"][a]) if k == "A" else (before["rs"][a], before["ro"][a])
        vals = [Fraction(v) for v in op["vals"]]
        if len(vals) == 0:
            return None
        grown = k == "A" and len(vals) > n
        ungrown = before["ints"]
        if grown:      # zero points are appended first
            before = dict(before, ints=[c + [0] * (len(vals) - n) for c in before["ints"]])
        qs = [(v - o) / s for v in vals]
        tols = [abs(q) * Fraction(1, 2 ** 51) for q in qs]
        certainly_fit = all(INT_MIN <= rhe(q - t) and rhe(q + t) <= INT_MAX for q, t in zip(qs, tols))
        certainly_out = any((rhe(q - t) > INT_MAX and rhe(q + t) > INT_MAX) or (rhe(q - t) < INT_MIN and rhe(q + t) < INT_MIN) for q, t in zip(qs, tols))
        if out[0] == "err":
            if out[1] != "EOverflow":
                return ("assign raised", f"raised {out[1]}: {out[2]}")
            if certainly_fit:
                return ("assign refused", "OverflowError although every value fits")
            if after["ints"] != ungrown:     # a refused assignment of a longer value does not leave the record grown either
                return ("assign failed modified", "integers changed although OverflowError was raised")
            return None
        if certainly_out:
            return ("assign wrapped", f"a value that does not fit was stored: {after['ints'][a]}")
        for X, q, t in zip(after["ints"][a], qs, tols):
            if abs(Fraction(X) - q) > Fraction(1, 2) + t:
                return ("assign half step", f"axis {AX[a]} stored {X} for (v - offset) / scale = {show(q)}")
        for b in range(3):
            if b != a and after["ints"][b] != before["ints"][b]:
                return ("assign other axis", f"assigning {AX[a]} changed the integers of {AX[b]}")
        if k == "A" and (after["rs"] != before["hs"] or after["ro"] != before["ho"]):
            return ("assign scaling", "after las.<axis> = ... the record does not use the header's scaling")
        return None
    if k in ("X", "SX"):
        m = len(op["cols"][0])
        if m == 0:
            return None
        pre = "assign xyz" if k == "X" else "assign items"
        if k == "SX":      # las[['x', 'y', 'z']] = ...: the record's own scaling is the one in force, and stays; the header is not involved
            if after["hs"] != before["hs"] or after["ho"] != before["ho"]:
                return ("assign items changed the header", "las[['x', 'y', 'z']] = ... changed the header's scaling")
            before = dict(before, hs=before["rs"], ho=before["ro"])
        grown = [c + [0] * max(0, m - n) for c in before["ints"]]
        fit, out_ = True, False
        for a in range(3):
            s, o = before["hs"][a], before["ho"][a]
            for v in op["cols"][a]:
                q = (Fraction(v) - o) / s
                t = abs(q) * Fraction(1, 2 ** 51)
                if not (INT_MIN <= rhe(q - t) and rhe(q + t) <= INT_MAX):
                    fit = False
                if (rhe(q - t) > INT_MAX and rhe(q + t) > INT_MAX) or (rhe(q - t) < INT_MIN and rhe(q + t) < INT_MIN):
                    out_ = True
        if after["rs"] != before["hs"] or after["ro"] != before["ho"]:
            return (pre + " scaling", "after the assignment the record does not use the scaling in force")
        if out[0] == "err":
            if out[1] != "EOverflow":
                return (pre + " raised", f"raised {out[1]}: {out[2]}")
            if fit:
                return (pre + " refused", "OverflowError although every value fits under the scaling in force")
            return None
        if out_:
            return (pre + " wrapped", f"a value that does not fit was stored: {after['ints']}")
        if m < n:
            return (pre + " short", "a shorter array was accepted")
        for a in range(3):
            s, o = before["hs"][a], before["ho"][a]
            if len(after["ints"][a]) != max(m, n):
                return (pre + " length", f"{len(after['ints'][a])} points after assigning {m} to a record of {n}")
            for X, v in zip(after["ints"][a], op["cols"][a]):
                q = (Fraction(v) - o) / s
                if abs(Fraction(X) - q) > Fraction(1, 2) + abs(q) * Fraction(1, 2 ** 51):
                    return (pre + " half step", f"axis {AX[a]} stored {X} for (v - offset) / scale = {show(q)} under the scaling in force "
                                                   f"(scale {float(s)!r}, offset {float(o)!r})")
        return None
    if k == "C":
        ns = before["rs"] if op["s"] is None else frs(op["s"])
        no = before["ro"] if op["o"] is None else frs(op["o"])
        all_fit, some_out = (True, False) if n == 0 else fits_all(before["xyz"], ns, no)
        if out[0] == "err":
            if out[1] != "EOverflow":
                return ("change_scaling raised", f"raised {out[1]}: {out[2]}")
            if all_fit:
                return ("change_scaling refused", "OverflowError although every coordinate fits under the new scaling")
            for key in ("ints", "rs", "ro", "hs", "ho", "xyz"):
                if after[key] != before[key]:
                    return ("change_scaling failed modified", f"{key} changed although OverflowError was raised")
            return None
        if some_out:
            return ("change_scaling wrapped", f"a coordinate that does not fit was stored: {after['ints']}")
        if after["rs"] != ns or after["ro"] != no:
            return ("change_scaling record", "the record does not carry the new scaling")
        if (op["s"] is not None and after["hs"] != ns) or (op["o"] is not None and after["ho"] != no):
            return ("change_scaling header", "the header does not carry the new scaling")
        # the header's scaling is what the caller made it: a part change_scaling was not given stays as it was (also when an
        # edit of it is still pending on the record) - it is the scaling the next assignment and the next write use
        for arg, key, nm in ((op["s"], "hs", "scales"), (op["o"], "ho", "offsets")):
            if arg is None and after[key] != before[key]:
                return (f"change_scaling changed the header's {nm}",
                        f"change_scaling({'scales' if op['s'] is not None else ''}{', ' if op['s'] is not None and op['o'] is not None else ''}"
                        f"{'offsets' if op['o'] is not None else ''}) was not given {nm}, but the header's {nm} went from "
                        f"{[float(x) for x in before[key]]} to {[float(x) for x in after[key]]}"
                        + (" (the record's: an edit of the header was reverted)" if after[key] == before["rs" if key == "hs" else "ro"] else ""))
        msg = rescale_check(after["ints"], before["xyz"], ns, no, "change_scaling")
        if msg:
            return ("change_scaling half step", msg)
        return None
    return None


# ---------------------------------------------------------------------------------
# correspondence
# ---------------------------------------------------------------------------------
_ELEM = None       # [(s, o, v, axis, how, tag, res, untouched)]
_PRES = None       # [(s, o, X, axis, got)]
_HIST = None       # [History]


def elem_cases(rng, count):
    out = []
    for _ in range(count):
        s, o = gen_scale(rng), gen_offset(rng)
        v, tag = gen_value(rng, s, o)
        axis = rng.randrange(3)
        how = rng.choice(["attr", "attr", "scalar", "index", "mask", "list"])
        res, untouched = impl_store(s, o, v, axis, how)
        out.append((s, o, v, axis, how, tag, res, untouched))
    return out


def elem_witnesses():
    # the regression witness of the unsound scaled-domain check
    out = []
    for how in ("attr", "index"):
        res, untouched = impl_store(1e-9, 1e9, 1000000002.1474837, 0, how)
        out.append((1e-9, 1e9, 1000000002.1474837, 0, how, "edge-hi", res, untouched))
    return out


def pres_cases(rng, count):
    out = []
    for _ in range(count):
        s, o = gen_scale(rng), gen_offset(rng)
        X = rng.choice([0, 1, -1, INT_MAX, INT_MIN, INT_MAX - 1, INT_MIN + 1, rng.randrange(INT_MIN, INT_MAX + 1), rng.randrange(-1000, 1000)])
        axis = rng.randrange(3)
        out.append((s, o, X, axis, impl_present(s, o, X, axis)))
    return out


def one_history(rng):
    h = History(rng)
    k = rng.randrange(1, 9)
    i = 0
    while i < k:
        op = h.gen_op()
        if op["op"] == "WO":
            k = min(k + 4, 12)      # room for chunks, edits and the close
        h.apply(op)
        i += 1
    if h.sess is not None:
        h.apply({"op": "WC"})
    return h


IP_ROUTES = ("attr", "item", "pattr", "pitem", "viewall", "view", "sub", "bare")
IP_MODES = ("hi", "lo", "fit", "nonfinite", "hi", "lo", "fit", "random")


def directed_history(rng, j):
    """histories aimed at two classes (every member of each family is produced in turn, j = its number):
    (a) a header scale / offset edit still PENDING on the record (replaced or in place; scales, offsets or both; or the record's
        own scaling edited instead), then change_scaling with every subset of its arguments {-, scales, offsets, both}, then an
        assignment or a write;
    (b) an augmented assignment (+=, -=, *=, /=) by every route, on a record with points next to both ends of the int32 window
        and in the middle, the operand keeping every point inside (often ON the edge), pushing one point out by less than a step
        up to a few steps, or non-finite; with or without a pending header edit; then a write."""
    n = rng.choice([1, 2, 3, 3, 5])
    fmt = rng.choice([0, 1, 3, 6, 7])
    sc = [gen_scale(rng) for _ in range(3)]
    if rng.random() < 0.5:
        sc = [rng.choice([0.01, 0.001, 1.0, 0.5, 0.1])] * 3
    of = [gen_offset(rng) if rng.random() < 0.6 else 0.0 for _ in range(3)]
    if j % 2 == 0:
        cols = [[rng.choice([0, 1, -1, rng.randrange(-10 ** 6, 10 ** 6), rng.randrange(-10 ** 4, 10 ** 4)]) for _ in range(n)] for _ in range(3)]
        h = History(rng, init={"fmt": fmt, "n": n, "scales": sc, "offsets": of, "cols": cols})
        f = j // 2
        subset, edit = f % 4, (f // 4) % 8
        if rng.random() < 0.5:
            h.apply(h.gen_assign_value() if rng.random() < 0.5 else
                    {"op": "A", "axis": rng.randrange(3), "vals": h.near_grid(sc[0], of[0], n, False), "scalar": False})
        near = lambda cur: [min(1e3, max(1e-9, float(x) * rng.choice([1, 10, 0.1, 2, 0.5, 100]))) for x in cur]      # noqa: E731
        las = h.las
        edits = []
        if edit in (0, 4, 6):
            edits.append({"op": "RS", "a": near(las.header.scales)})
        if edit in (1, 4, 7):
            edits.append({"op": "RO", "a": [gen_offset(rng) for _ in range(3)]})
        if edit in (2, 6):
            edits.append({"op": "MS", "axis": rng.randrange(3), "v": gen_scale(rng), "el": rng.random() < 0.5})
        if edit in (3, 7):
            edits.append({"op": "MO", "axis": rng.randrange(3), "v": gen_offset(rng), "el": rng.random() < 0.5})
        if edit == 5:
            edits.append({"op": rng.choice(["PRS", "PRO"]), "a": near(las.points.scales)})
        rng.shuffle(edits)
        for e in edits:
            h.apply(e)
        s = near(las.points.scales if rng.random() < 0.5 else las.header.scales) if subset in (1, 3) else None
        o = [float(x) if rng.random() < 0.3 else gen_offset(rng) for x in las.header.offsets] if subset in (2, 3) else None
        h.apply({"op": "C", "s": s, "o": o})
        last = rng.random()
        if last < 0.5:
            h.apply({"op": "W"})
        elif last < 0.8:
            h.apply(h.gen_assign_value())
            h.apply({"op": "W"})
        return h
    f = j // 2
    route, mode = IP_ROUTES[f % 8], IP_MODES[(f // 8) % 8]
    bop = "+-+-*/+-"[(f % 8 + (f // 8) % 8 + f // 64) % 8]
    axis = rng.randrange(3)
    n = max(n, 2) if route == "sub" else n
    cols = [[rng.choice([0, 1, -1, rng.randrange(-10 ** 6, 10 ** 6)]) for _ in range(n)] for _ in range(3)]
    col = cols[axis]
    for i in range(n):      # the window's ends, a few steps inside them, and the middle
        col[i] = rng.choice([INT_MAX - rng.choice([0, 1, 50, rng.randrange(1, 10 ** 5)]), INT_MIN + rng.choice([0, 1, 10, rng.randrange(1, 10 ** 5)]),
                             rng.randrange(-10 ** 6, 10 ** 6), 12345, -1000, rng.randrange(INT_MIN, INT_MAX + 1)])
    h = History(rng, init={"fmt": fmt, "n": n, "scales": sc, "offsets": of, "cols": cols})
    if rng.random() < 0.35:     # an edit of the header pending on the record: las.x += d reads under the record's scaling, stores under the header's
        las = h.las
        h.apply(rng.choice([{"op": "RS", "a": [float(x) * rng.choice([1, 2, 10, 0.5]) for x in las.header.scales]},
                            {"op": "MO", "axis": axis, "v": float(las.header.offsets[axis]) + rng.choice([1.0, -1000.0, 0.5])},
                            {"op": "MS", "axis": axis, "v": min(1e3, float(las.header.scales[axis]) * rng.choice([2, 10]))}]))
    h.apply(h.gen_inplace(mode=mode, route=route, bop=bop, axis=axis))
    if rng.random() < 0.3:
        h.apply(h.gen_inplace(axis=axis))
    if rng.random() < 0.5:
        h.apply({"op": "W"})
    return h


def _worker(args):
    """the observations of one worker process (its own seeded generator); only data comes back, no laspy object"""
    import random
    kind, seed, count = args
    rng = random.Random(seed)
    if kind == "elem":
        return elem_cases(rng, count)
    if kind == "pres":
        return pres_cases(rng, count)
    out = []
    for i in range(count):
        h = one_history(rng) if kind == "hist" else directed_history(rng, (seed + i) % 4096)
        h.las = h.rng = h.sess = None
        h.vinfo = None
        out.append(h)
    global _MMAP_PATH
    if _MMAP_PATH is not None:
        import os
        if os.path.exists(_MMAP_PATH):
            os.remove(_MMAP_PATH)
        _MMAP_PATH = None
    return out


WORKERS = 4


def all_cases(ctx):
    """per-element stores, presented values and histories, observed on the implementation by WORKERS processes
    (each with a generator seeded from ctx.rng: the whole run is a function of the seed)"""
    def split(kind, total, k):
        return [(kind, ctx.rng.randrange(2 ** 62), total // k + (1 if i < total % k else 0)) for i in range(k)]
    jobs = (split("hist", ctx.n(1800, 12000), 2 * WORKERS) + split("dhist", ctx.n(384, 4096), WORKERS)
            + split("elem", ctx.n(6000, 60000), 2) + split("pres", ctx.n(1500, 10000), 1))
    try:
        import multiprocessing
        with multiprocessing.get_context("fork").Pool(WORKERS) as pool:
            parts = pool.map(_worker, jobs, chunksize=1)
    except Exception as ex:      # no worker processes here: the same observations, one after the other
        ctx.notes.append(f"observations made in one process ({common.exc_kind(ex)})")
        parts = [_worker(j) for j in jobs]
    got = {"hist": [], "elem": [], "pres": []}
    for (kind, _, _), part in zip(jobs, parts):
        got["hist" if kind == "dhist" else kind].extend(part)
    return got["elem"] + elem_witnesses(), got["pres"], got["hist"]


def run_model_parallel(lines):
    """the model driver on slices of the command list, concurrently (the commands are independent of each other)"""
    if len(lines) < 200:
        return common.run_model(lines, name="c11")
    from concurrent.futures import ThreadPoolExecutor
    w = 2 * WORKERS
    chunks = [lines[i::w] for i in range(w)]          # dealt round-robin: the long history commands are spread evenly
    with ThreadPoolExecutor(w) as ex:
        outs = list(ex.map(lambda c: common.run_model(c, name="c11"), chunks))
    res = [None] * len(lines)
    for i, o in enumerate(outs):
        res[i::w] = o
    return res


def observe(ctx):
    global _ELEM, _PRES, _HIST
    if _ELEM is None:
        import time
        t0 = time.time()
        _ELEM, _PRES, _HIST = all_cases(ctx)
        ctx.extra["c11_observe_s"] = round(time.time() - t0, 1)


def correspond(ctx):
    ctx.extra["rule"] = (
        "per element: (scale, offset) with scale in 10^[-9,3] (powers of ten, powers of two, random mantissas), |offset| <= 1e9; "
        "values inside the int32 window, on both edges (exact Fraction edge +- {0, .49, .5, .51, 1, 2, random} steps, nearest double, "
        "nudged by 0..3 ulp), beyond and extreme (1e300, 1.7e308, 5e-324), assigned through attribute / slice / integer / mask / list "
        "index on x, y or z; presented values for random and extreme integers. histories: 1..8 operations over {header.scales/offsets "
        "replaced by a fresh array, header.<axis>_scale/_offset edited in place, las.<axis> = values (also longer than the record: it grows), "
        "las.xyz = (m, 3) array, las.points.<axis> = values, "
        "change_scaling(scales?, offsets?), write, stream into a writer or appender with another scaling, whole, in chunks of 1..2 or point by point (las.points[i])} "
        "+ round 4: an open writer/appender session {open with the LasData's header or a header the caller keeps, via laspy.open / LasWriter / "
        "append mode on a file with 0..2 points; chunks; in-place (x_scale =, scales[i] =) and replacing edits of the caller's header, of the "
        "handed header, of the record's scaling (points.scales = / [i] =); close} interleaved with everything else; assignments by every route "
        "{las.x =, las['x'] =, las.points['x'] =, las.points.x =, las.x[:] =, las.x[int|slice|mask|list] =, las[['x','y','z']] =} of every kind of value "
        "{array, list, tuple, float32, scalar, own view / reversed / fancy, view or slice of another LasData / record on the same grid, "
        "the same step and another origin, another step; sub-field view} "
        "on LasData of 0..5 points (formats 0,1,3,6,7) with integers including INT_MIN/INT_MAX; values chosen relative to the scaling "
        "in force so that most fit and some overflow. after every operation (hence also while a header scale/offset edit is pending) "
        "the coordinates are taken through every presentation route: las.x, las['x'], las.points.x, las.points['x'], las.xyz, the scaled "
        "view's own ways (asarray, scaled_array, copy, int/slice/mask/list index, iteration, arithmetic, max/min), sub-records, "
        "las[slice|list]; every written file is presented through laspy.read, read_points/seek/chunk_iterator(1, 2, n) records, "
        "reader.read().xyz and laspy.mmap, against integers and scaling parsed from the bytes. "
        "+ round 6: augmented assignments {+=, -=, *=, /=} by every route {las.x, las['x'], las.points.x / a record held in a variable, "
        "las.points['x'], las.x[:], las.x[int|slice|mask|list], a slice sub-record's x, a view held in a variable} with a Python float / "
        "numpy scalar / int / per-point array operand chosen from the coordinates now presented and the scaling in force: every result "
        "inside the window (often exactly ON an edge), the extreme point pushed out by 0.51 .. a few steps at either end (the other points "
        "stay inside), nan / +-inf / division by zero, anything; directed families: 8 routes x 8 operand modes x 8 operators on records with "
        "points next to both ends of the window, with or without a pending header edit; and {header scales / offsets / both replaced or "
        "edited in place, or the record's scaling edited} still pending, then change_scaling with each subset of {scales, offsets}, then an "
        "assignment / a write. non-trivial = an edge/beyond value, or a history with a rescaling write, an "
        "overflow or an assignment after a header edit; distinct by the exact doubles involved")
    observe(ctx)
    dis = []
    # 1. per element
    cmds = [f"store {ftok(v)} {ftok(s)} {ftok(o)}" for (s, o, v, axis, how, tag, res, unt) in _ELEM]
    cmds += [f"present {X} {ftok(s)} {ftok(o)}" for (s, o, X, axis, got) in _PRES]
    hcmds = [h.command() for h in _HIST]
    # the coordinates of every written file under the file's scaling, by the model (one command per distinct (X, scale, offset))
    fcmds, fpos = [], {}
    for h in _HIST:
        for (op, out, after) in h.steps:
            if out[0] == "file":
                fp = out[4]
                for a in range(3):
                    if fp["rs"][a] is None or fp["ro"][a] is None:
                        continue
                    for X in fp["ints"][a]:
                        key = (X, fp["rs"][a], fp["ro"][a])
                        if key not in fpos:
                            fpos[key] = len(fcmds)
                            fcmds.append(f"present {X} {ftok(float(key[1]))} {ftok(float(key[2]))}")
    import time
    t0 = time.time()
    outs = run_model_parallel(cmds + hcmds + fcmds)
    ctx.extra["c11_model_s"] = round(time.time() - t0, 1)
    fouts = outs[len(cmds) + len(hcmds):]
    for (s, o, v, axis, how, tag, res, unt), mo in zip(_ELEM, outs):
        ctx.traces += 1
        ctx.count("value:" + tag)
        ctx.count("outcome:" + res[0])
        ctx.case(("store", s.hex(), o.hex(), v.hex()), nontrivial=tag != "inside" or res[0] == "err",
                 sample={"scale": s, "offset": o, "value": v, "axis": AX[axis], "via": how, "model": mo})
        im = f"ok {res[1]}" if res[0] == "ok" else f"err {res[1]}"
        if im != mo or not unt:
            dis.append({"kind": f"assign {tag} via {how}", "input": {"scale": s.hex(), "offset": o.hex(), "value": v.hex(), "axis": axis, "how": how},
                        "model": mo, "impl": im + ("" if unt else " (other data modified)")})
    base = len(_ELEM)
    for (s, o, X, axis, got), mo in zip(_PRES, outs[base:]):
        ctx.traces += 1
        ctx.count("present")
        ctx.case(("present", s.hex(), o.hex(), X), nontrivial=True)
        m = tokf(mo)
        if any(fr(g) != m for g in got):
            dis.append({"kind": "presented value", "input": {"scale": s.hex(), "offset": o.hex(), "X": X, "axis": axis},
                        "model": mo, "impl": [g.hex() for g in got]})
    base += len(_PRES)
    # 2. histories
    for h, line in zip(_HIST, outs[base:]):
        ctx.traces += 1
        parts = line.split(" | ")
        if len(parts) > 1 and parts[-1] == "":      # a history none of whose operations has a model token (the model: nothing changes)
            parts.pop()
        kinds = [op["op"] for op, _, _ in h.steps]
        for kd in kinds:
            ctx.count("op:" + kd)
        rescaled = False
        bad = None
        toks = [h.op_tok(op) for op, _, _ in h.steps]
        if len(parts) != sum(x is not None for x in toks) + 1:
            bad = (0, "model output", line[:200], "")
        else:
            d0 = state_diff(parse_state(parts[0]), h.snap0)
            if d0:
                bad = (0, "initial " + d0, parts[0][:200], str(h.snap0.get(d0, [r_ for r_ in h.snap0["routes"] if r_[0] in d0][:1]))[:200])
        if bad is None:
            # an operation the model has no token for (the caller edits the header object it handed to a writer) must change nothing
            aligned, j, prev = [], 1, parts[0]
            for x in toks:
                if x is None:
                    aligned.append("- # " + prev)
                else:
                    aligned.append(parts[j])
                    prev = parts[j].split(" # ")[1]
                    j += 1
            for i, ((op, out, after), part) in enumerate(zip(h.steps, aligned)):
                mo_out, mo_state = part.split(" # ")
                mo = parse_out(mo_out)
                ctx.count("out:" + (mo[1] if mo[0] == "err" else mo[0]))
                if mo[0] == "err" or (mo[0] == "file" and mo[1]["ints"] != after["ints"]):
                    rescaled = True
                if op["op"] == "V":
                    ctx.count("assign:" + op["route"] + " <- " + op["src"]["k"] + ("" if op["src"]["k"] != "other" else
                              " same grid" if (op["src"]["s"], op["src"]["o"]) == (scale_in_force(op, h, i)) else
                              " same scale" if op["src"]["s"] == scale_in_force(op, h, i)[0] else " other scale"))
                if op["op"] == "IP":
                    ctx.count(f"inplace:{op['route']} {op['bop']}= {op['mode']}" + (" refused" if out[0] == "err" else ""))
                if op["op"] in ("WW", "WC", "WO") and h.steps[i][1][0] != "err":
                    ctx.count("session:" + op["op"] + (":" + op["via"] + ":" + op["hdr"] if op["op"] == "WO" else ""))
                if op["op"] in ("W", "S"):
                    ctx.count("write:" + ("overflow" if mo[0] == "err" else "empty" if not after["ints"][0] else
                                          "same scaling" if (mo[1]["scales"], mo[1]["offsets"]) == (after["rs"], after["ro"]) else "rescaled"))
                ok = mo[0] == out[0]
                if ok and mo[0] == "err":
                    ok = mo[1] == out[1]
                if ok and mo[0] == "file":
                    ok = mo[1] == out[1]
                if not ok:
                    bad = (i, f"outcome of {op['op']}", mo_out[:200], str(out)[:200])
                    break
                d = state_diff(parse_state(mo_state), after)
                if d:
                    bad = (i, f"{d} after {op['op']}", str(parse_state(mo_state).get(d, parse_state(mo_state)["xyz"]))[:200],
                           str(after.get(d, [r_ for r_ in after["routes"] if r_[0] in d][:1]))[:200])
                    break
                if mo[0] == "file":
                    fp = out[4]
                    if any(x is None for x in fp["rs"] + fp["ro"]):
                        continue
                    mx = [[tokf(fouts[fpos[(X, fp["rs"][a], fp["ro"][a])]]) for X in fp["ints"][a]] for a in range(3)]
                    ctx.traces += 1
                    d = (None if (mo[1]["scales"], mo[1]["offsets"], mo[1]["ints"]) == (fp["rs"], fp["ro"], [c[out[5]:] for c in fp["ints"]])
                         else "bytes of the file") or routes_diff(mx, fp["rs"], fp["ro"], fp)
                    if d:
                        bad = (i, f"file of {op['op']}: {d}", str(mx)[:200], str([r_ for r_ in fp["routes"] if r_[0] in d][:1])[:200])
                        break
        edited = any(k in ("RS", "RO", "MS", "MO", "PRS", "PRO", "PMS", "PMO", "WE") for k in kinds)
        ctx.case(h.command(), nontrivial=rescaled or (edited and any(k in ("A", "X", "W", "S", "C", "V", "SX", "WW", "WC", "IP") for k in kinds))
                 or any(op["op"] == "IP" and op["mode"] != "random" for op, _, _ in h.steps),
                 sample={"history": [(h.op_tok(op) or op["op"])[:60] for op, _, _ in h.steps], "points": h.n})
        if bad:
            dis.append({"kind": f"history: {bad[1]}", "input": {"init": init_json(h.init), "ops": [op_json(op) for op, _, _ in h.steps], "at": bad[0]},
                        "model": bad[2], "impl": bad[3]})
    return dis


# ---------------------------------------------------------------------------------
# failing-input search (no model)
# ---------------------------------------------------------------------------------
def shrink_history(h, kind):
    """drop operations while the same kind of failure is still observed"""
    ops = [op for op, _, _ in h.steps]
    cur = list(ops)
    changed = True
    while changed and len(cur) > 1:
        changed = False
        for i in range(len(cur) - 1, -1, -1):
            cand = cur[:i] + cur[i + 1:]
            if history_failure(h.init, cand, kind) is not None:
                cur = cand
                changed = True
                break
    return cur


def history_failure(init, ops, kind=None):
    import random
    h = History(random.Random(0), init=init)
    for op in ops:
        h.apply(op)
    if h.sess is not None:
        h.apply({"op": "WC"})
    for (op, before, out, after, info) in h.obs:
        r = oracle_step(op, before, out, after, info)
        if r and (kind is None or r[0] == kind):
            return r
    return None


def search(ctx, seeds):
    observe(ctx)
    failing, seen = [], set()

    def add(kind, inp, observed):
        if kind not in seen and len(failing) < 8:
            seen.add(kind)
            failing.append({"kind": kind, "input": inp, "observed": observed})
    crashed = []

    def judged(f, *a):
        """the oracle on one observation; an exception inside it is a defect of the oracle: the case is kept aside, the other
        observations are still judged, and the search as a whole counts as failed if nothing else was found"""
        try:
            return f(*a)
        except Exception as ex:  # noqa
            import traceback
            if len(crashed) < 3:
                crashed.append(f"{f.__name__}{tuple(str(x)[:60] for x in a[:4])}: {traceback.format_exc()[-600:]}")
            return None
    for (s, o, v, axis, how, tag, res, unt) in _ELEM:
        why = judged(oracle_store, s, o, v, res, unt)
        if why:
            kind = "assign: " + ("wrap" if "wrap" in why else "refused" if "although" in why and res[0] == "err" else "half step" if "half a step" in why else "other")
            add(kind, {"what": "store", "scale": s.hex(), "offset": o.hex(), "value": v.hex(), "axis": axis, "how": how,
                       "repr": f"scale={s!r} offset={o!r} {AX[axis]}={v!r}"}, why)
    for (s, o, X, axis, got) in _PRES:
        why = judged(oracle_present, s, o, X, got)
        if why:
            add("presented value", {"what": "present", "scale": s.hex(), "offset": o.hex(), "X": X, "axis": axis}, why)
    for h in _HIST:
        for (op, before, out, after, info) in h.obs:
            r = judged(oracle_step, op, before, out, after, info)
            if r:
                kind = "history: " + r[0]
                if kind in seen:
                    break
                small = judged(shrink_history, h, r[0]) or [op for op, _, _ in h.steps]
                r2 = judged(history_failure, h.init, small, r[0]) or r
                add(kind, {"what": "history", "init": init_json(h.init), "ops": [op_json(op) for op in small]}, r2[1])
                break
    for c in crashed:
        ctx.notes.append("oracle crashed on one observation: " + c)
    if crashed and not failing:
        raise RuntimeError("the oracle could not judge some observations: " + crashed[0])
    return failing


def replay(ctx, data):
    inp = data.get("failing_input", {}).get("input")
    if not inp or "what" not in inp:
        print("nothing to replay")
        return 0
    if inp["what"] == "store":
        s, o, v = (float.fromhex(inp[k]) for k in ("scale", "offset", "value"))
        res, unt = impl_store(s, o, v, inp["axis"], inp["how"])
        why = oracle_store(s, o, v, res, unt)
    elif inp["what"] == "present":
        s, o = float.fromhex(inp["scale"]), float.fromhex(inp["offset"])
        why = oracle_present(s, o, inp["X"], impl_present(s, o, inp["X"], inp["axis"]))
    else:
        r = history_failure(init_unjson(inp["init"]), [op_unjson(d) for d in inp["ops"]])
        why = r[1] if r else None
    print("REPRODUCED: " + why if why else "not reproduced")
    return 1 if why else 0
